// C06, OPERATIONAL partition clauses (d)-(g): the subset-taking ENTRY POINTS of the anchor files are driven and a counting
// oracle decides which (segment, view, TOF bin) each call processed and how often.
//
// FRAGMENT: included by c06_subsets.cxx INSIDE its anonymous namespace, after Geo / build_geo / build_pair /
// check_partition (it uses them and the STIR headers included there).  Not a stand-alone header.
//
//  (d) kind "opcount": harness-side COUNTING projectors derived directly from ForwardProjectorByBin / BackProjectorByBin
//      (the anchor files ForwardProjectorByBin.cxx / BackProjectorByBin.cxx own the subset loops; the derived class only
//      implements actual_forward_project / actual_back_project and reports the symmetries object of the configuration:
//      TrivialDataSymmetriesForBins or DataSymmetriesForBins_PET_CartesianGrid with the switches of the symmetry code).
//      Every viewgram handed to actual_*_project is recorded as (segment, view, TOF bin) -> times.  Entry points driven:
//        F1 forward_project(ProjData&, image, subset_num, num_subsets, zero)       (convenience overload, non-virtual)
//        F2 set_input(image); forward_project(ProjData&, subset_num, num_subsets, zero)            (virtual)
//        F3 the defaults forward_project(ProjData&, image) / forward_project(ProjData&)            (0, 1, true)
//        B1 back_project(image, const ProjData&, subset_num, num_subsets)          (convenience overload, non-virtual)
//        B2 start_accumulating_in_new_target(); back_project(const ProjData&, subset_num, num_subsets); get_output(image)
//        B3 the defaults back_project(image, ProjData) / back_project(ProjData)                    (0, 1)
//        B4 start_accumulating_in_new_target() once, then ALL subsets in a rotated order, get_output after each (cumulative)
//      Oracle (no numerics): for every (num_subsets N, subset s) the recorded multiset equals the reference set
//      "related view/segments of find_basic_vs_nums_in_subset(s, N) x all TOF bins" (both headers: "Subsets are determined
//      as per detail::find_basic_vs_nums_in_subset()"; the lists themselves are decided by clause (a) in the same case),
//      each element once; over all subsets of one N every (segment, view, TOF bin) of the data is recorded EXACTLY once;
//      the OUTPUT agrees with the record: forward into data pre-filled with a sentinel: processed viewgrams hold the image
//      constant, the others the sentinel (zero=false) or 0 (zero=true, num_subsets>1; ForwardProjectorByBin.h: "project
//      the volume into the whole or a subset of proj_data, optionally zeroing the rest"); back projection of data whose
//      viewgrams carry small integer weights: voxel 0 = sum of weight x bins over the reference set, voxel 1 = number of
//      viewgrams (exact in float), i.e. get_output returns what was back projected since start_accumulating_in_new_target
//      (BackProjectorByBin.h) and nothing of an earlier subset.
//  (e) kind "opreal": the REAL ray-tracing projector pair (ProjectorByBinPairUsingProjMatrixByBin) on the tiny geometry with
//      INDICATOR inputs: forward projection of a constant image with zero=false into sentinel data: the set of changed
//      viewgrams = the reference set; back projection of data that are 1 in ONE (segment, view, TOF bin) and 0 elsewhere:
//      the image is exactly 0 for every subset but one (the subset whose reference set contains the viewgram), and for
//      that one it equals the image of the SAME projector called with the default arguments (0, 1) (sibling differential:
//      same arithmetic, so equal up to 1e-6; "how often" for the default call is decided by (d) and by C04).  No value is
//      compared with a symmetry-free projector: on this 3x3 image many LORs end exactly on voxel boundaries (the tie class
//      that the text of C03 excludes), symmetric and symmetry-free rows then legitimately differ (seen: 2.0 vs 3.46).
//  (f) kind "fbp": FBP2DReconstruction (anchor).  It takes no subset arguments: actual_reconstruct asks
//      find_basic_vs_nums_in_subset(segment 0..0, subset 0 of 1), fetches get_related_viewgrams for each returned vs,
//      filters them and calls back_project(RelatedViewgrams).  The counting back projector is given to it the only public
//      way there is (parsing key "Back projector type", harness class entered in the registry): every view of segment 0
//      (after the optional SSRB) must be back projected exactly once, nothing else.  TOF data: FBP2D has no TOF check and
//      fetches get_related_viewgrams(vs, symmetries) with the default timing_pos 0: only the central TOF bin of every view is
//      reconstructed, the other TOF bins of the accepted data are never processed and reconstruct() returns Succeeded::yes
//      -> known finding C06:FBP2D:TOF-data:only-TOF-bin-0-processed (probe known/C06/fbp2d_tof_data.json; the class
//      "fbp + TOF" is excluded by known_signature unless VERIF_NO_EXCLUDE is set).
//  (g) kind "opobj": PoissonLogLikelihoodWithLinearModelForMeanAndProjData (anchor) on a pair of the counting projectors:
//      compute_sub_gradient_without_penalty, compute_sub_gradient_without_penalty_plus_sensitivity,
//      compute_objective_function_without_penalty(current, subset), the subset sensitivities (set_up),
//      add_multiplication_with_approximate_sub_Hessian_without_penalty, accumulate_sub_Hessian_times_input_without_penalty:
//      for every subset the viewgrams forward / back projected = the reference set over
//      -max_segment_num_to_process..max_segment_num_to_process, each once.

typedef std::tuple<int, int, int> SVT; // (segment, view, TOF bin)
typedef std::map<SVT, int> Multi;      // -> times processed

struct OpLog
{
  Multi fwd, back;
  long fwd_groups = 0, back_groups = 0;
  void clear()
  {
    fwd.clear();
    back.clear();
    fwd_groups = back_groups = 0;
  }
};

shared_ptr<DataSymmetriesForViewSegmentNumbers>
make_sym(const int code, const shared_ptr<const ProjDataInfo>& pdi, const shared_ptr<const DiscretisedDensity<3, float>>& image)
{
  if (code == 0)
    return shared_ptr<DataSymmetriesForViewSegmentNumbers>(new TrivialDataSymmetriesForBins(pdi));
  const SymSwitches sw = switches(code);
  return shared_ptr<DataSymmetriesForViewSegmentNumbers>(
      new DataSymmetriesForBins_PET_CartesianGrid(pdi, image, sw.s90, sw.s180, sw.swap_seg, sw.swap_s, sw.shift_z));
}

const float op_image_value = 2.F; // constant of the forward projected image = value written by the counting forward projector
const float op_sentinel = -7.F;   // pre-fill of the data: neither 0 (the "zero" fill) nor a projected value

class CountingForwardProjector : public ForwardProjectorByBin
{
public:
  int code;
  OpLog* log;
  shared_ptr<DataSymmetriesForViewSegmentNumbers> sym;
  CountingForwardProjector(const int code_v, OpLog* log_v)
      : code(code_v),
        log(log_v)
  {}
  void set_up(const shared_ptr<const ProjDataInfo>& p, const shared_ptr<const DiscretisedDensity<3, float>>& d) override
  {
    ForwardProjectorByBin::set_up(p, d);
    sym = make_sym(code, p, d);
  }
  const DataSymmetriesForViewSegmentNumbers* get_symmetries_used() const override { return sym.get(); }
  std::string get_registered_name() const { return "verif counting forward projector"; }

protected:
  // "it overwrites the data already present in the viewgram" (ForwardProjectorByBin.h)
  void actual_forward_project(RelatedViewgrams<float>& viewgrams, const DiscretisedDensity<3, float>& image, const int, const int, const int, const int) override
  {
    const float c = *image.begin_all_const();
    ++log->fwd_groups;
    for (RelatedViewgrams<float>::iterator it = viewgrams.begin(); it != viewgrams.end(); ++it)
      {
        ++log->fwd[SVT(it->get_segment_num(), it->get_view_num(), it->get_timing_pos_num())];
        it->fill(c);
      }
  }
};

//! counting back projector; also in the registry of BackProjectorByBin (FBP2DReconstruction only takes a parsed one)
class CountingBackProjector : public RegisteredParsingObject<CountingBackProjector, BackProjectorByBin>
{
public:
  static const char* const registered_name;
  static OpLog* parsed_log; // the log of objects created by the registry
  int code;
  OpLog* log;
  shared_ptr<DataSymmetriesForViewSegmentNumbers> sym;
  CountingBackProjector()
  {
    this->set_defaults();
  }
  void set_up(const shared_ptr<const ProjDataInfo>& p, const shared_ptr<const DiscretisedDensity<3, float>>& d) override
  {
    BackProjectorByBin::set_up(p, d);
    sym = make_sym(code, p, d);
  }
  const DataSymmetriesForViewSegmentNumbers* get_symmetries_used() const override { return sym.get(); }
  CountingBackProjector* clone() const override { return new CountingBackProjector(*this); }

protected:
  // voxel 0 += sum of all bins handed over, voxel 1 += number of viewgrams handed over
  void actual_back_project(DiscretisedDensity<3, float>& density, const RelatedViewgrams<float>& viewgrams, const int, const int, const int, const int) override
  {
    ++log->back_groups;
    double total = 0;
    int n = 0;
    for (RelatedViewgrams<float>::const_iterator it = viewgrams.begin(); it != viewgrams.end(); ++it)
      {
        ++log->back[SVT(it->get_segment_num(), it->get_view_num(), it->get_timing_pos_num())];
        total += double(it->sum());
        ++n;
      }
    DiscretisedDensity<3, float>::full_iterator v = density.begin_all();
    *v += float(total);
    ++v;
    *v += float(n);
  }
  void set_defaults() override
  {
    BackProjectorByBin::set_defaults();
    code = 0;
    log = parsed_log;
  }
  void initialise_keymap() override
  {
    parser.add_start_key("Verif Counting Back Projector Parameters");
    parser.add_stop_key("End Verif Counting Back Projector Parameters");
    parser.add_key("symmetry code", &code);
  }
};
const char* const CountingBackProjector::registered_name = "verif counting";
OpLog* CountingBackProjector::parsed_log = nullptr;
static CountingBackProjector::RegisterIt c06_register_counting_back_projector;

// ---- reference model and helpers ------------------------------------------------------------------------------------------

//! the reference set of (num_subsets N, subset s): related view/segments of the library's list x the TOF bins tmin..tmax
Multi
model_set(const ProjDataInfo& pdi, const DataSymmetriesForViewSegmentNumbers& sym, const int smin, const int smax, const int s, const int N, const int tmin,
          const int tmax)
{
  Multi m;
  std::vector<ViewSegmentNumbers> rel;
  for (const ViewSegmentNumbers& vs : detail::find_basic_vs_nums_in_subset(pdi, sym, smin, smax, s, N))
    {
      sym.get_related_view_segment_numbers(rel, vs);
      for (const ViewSegmentNumbers& r : rel)
        for (int k = tmin; k <= tmax; ++k)
          ++m[SVT(r.segment_num(), r.view_num(), k)];
    }
  return m;
}

std::string
svt_text(const SVT& e)
{
  return cat("(segment ", std::get<0>(e), ", view ", std::get<1>(e), ", TOF bin ", std::get<2>(e), ")");
}

//! "" when equal, else the first differences
std::string
multi_diff(const Multi& got, const Multi& want)
{
  std::string extra, missing, often;
  int ne = 0, nm = 0, no = 0;
  for (const auto& kv : got)
    {
      auto it = want.find(kv.first);
      if (it == want.end())
        {
          if (++ne <= 4)
            extra += svt_text(kv.first) + (kv.second > 1 ? cat(" x", kv.second) : std::string()) + " ";
        }
      else if (it->second != kv.second)
        {
          if (++no <= 4)
            often += cat(svt_text(kv.first), " ", kv.second, " times instead of ", it->second, " ");
        }
    }
  for (const auto& kv : want)
    if (!got.count(kv.first) && ++nm <= 4)
      missing += svt_text(kv.first) + " ";
  if (!ne && !nm && !no)
    return "";
  return cat(ne ? cat(ne, " processed that do not belong to the subset: ", extra) : std::string(), nm ? cat(nm, " of the subset NOT processed: ", missing) : std::string(),
             no ? cat(no, " processed a wrong number of times: ", often) : std::string());
}

//! every (segment, view, TOF bin) of the data exactly once?
Result
exactly_once(const Multi& all, const ProjDataInfo& pdi, const int smin, const int smax, const int tmin, const int tmax, const std::string& what)
{
  for (int s = smin; s <= smax; ++s)
    for (int v = pdi.get_min_view_num(); v <= pdi.get_max_view_num(); ++v)
      for (int k = tmin; k <= tmax; ++k)
        {
          auto it = all.find(SVT(s, v, k));
          const int n = it == all.end() ? 0 : it->second;
          VF_CHECK(n == 1, what, ": ", svt_text(SVT(s, v, k)), " is processed ", n, " times over all subsets (expected exactly once)");
        }
  long total = 0;
  for (const auto& kv : all)
    total += kv.second;
  VF_CHECK(total == long(smax - smin + 1) * pdi.get_num_views() * (tmax - tmin + 1), what, ": ", total,
           " viewgrams processed over all subsets, some of them outside the segment / TOF range ", smin, "..", smax, " / ", tmin, "..", tmax);
  return Result::pass();
}

void
add_to(Multi& all, const Multi& m)
{
  for (const auto& kv : m)
    all[kv.first] += kv.second;
}

template <class F>
void
fill_viewgrams(ProjData& pd, F value)
{
  const ProjDataInfo& p = *pd.get_proj_data_info_sptr();
  for (int k = p.get_min_tof_pos_num(); k <= p.get_max_tof_pos_num(); ++k)
    for (int s = p.get_min_segment_num(); s <= p.get_max_segment_num(); ++s)
      for (int v = p.get_min_view_num(); v <= p.get_max_view_num(); ++v)
        {
          Viewgram<float> vg = pd.get_empty_viewgram(v, s, false, k);
          vg.fill(value(s, v, k));
          if (pd.set_viewgram(vg) != Succeeded::yes)
            error("fill_viewgrams: set_viewgram failed");
        }
}

//! small integer weight of a viewgram (sums stay exact in float)
int
op_weight(const int s, const int v, const int k)
{
  return 1 + ((s + 5) * 7 + v * 3 + (k + 2) * 5) % 13;
}

long
bins_in_viewgram(const ProjDataInfo& p, const int s)
{
  return long(p.get_num_axial_poss(s)) * p.get_num_tangential_poss();
}

//! the data after a forward projection into sentinel-filled data: every viewgram uniformly `processed_value` (in `expected`)
//! or uniformly `rest_value`
Result
check_forward_output(const ProjData& pd, const Multi& expected, const float processed_value, const float rest_value, const std::string& what)
{
  const ProjDataInfo& p = *pd.get_proj_data_info_sptr();
  for (int k = p.get_min_tof_pos_num(); k <= p.get_max_tof_pos_num(); ++k)
    for (int s = p.get_min_segment_num(); s <= p.get_max_segment_num(); ++s)
      for (int v = p.get_min_view_num(); v <= p.get_max_view_num(); ++v)
        {
          const Viewgram<float> vg = pd.get_viewgram(v, s, false, k);
          const float want = expected.count(SVT(s, v, k)) ? processed_value : rest_value;
          const float lo = vg.find_min(), hi = vg.find_max();
          VF_CHECK(lo == want && hi == want, what, ": the data of ", svt_text(SVT(s, v, k)), " are ", lo, "..", hi, " after the call, expected ", want, " (",
                   expected.count(SVT(s, v, k)) ? "belongs to the subset: the projected value" : "does not belong to the subset: left alone / zeroed", ")");
        }
  return Result::pass();
}

//! the image after back projecting weighted data with the counting back projector
Result
check_back_output(const DiscretisedDensity<3, float>& img, const Multi& expected, const ProjDataInfo& p, const std::string& what)
{
  double sum = 0;
  long n = 0;
  for (const auto& kv : expected)
    {
      sum += double(kv.second) * op_weight(std::get<0>(kv.first), std::get<1>(kv.first), std::get<2>(kv.first)) * double(bins_in_viewgram(p, std::get<0>(kv.first)));
      n += kv.second;
    }
  DiscretisedDensity<3, float>::const_full_iterator v = img.begin_all_const();
  const float v0 = *v;
  ++v;
  const float v1 = *v;
  ++v;
  VF_CHECK(double(v1) == double(n), what, ": the returned image says ", v1, " viewgrams were back projected, the subset has ", n);
  VF_CHECK(double(v0) == sum, what, ": the returned image holds the weighted sum ", v0, " of the back projected data, the data of the subset sum to ", sum);
  for (; v != img.end_all_const(); ++v)
    VF_CHECK(*v == 0.F, what, ": a voxel the counting back projector never writes holds ", *v);
  return Result::pass();
}

std::vector<int>
subset_counts_of_case(const json& c, const int views)
{
  std::vector<int> Ns;
  if (c.contains("Ns"))
    for (const json& n : c["Ns"])
      Ns.push_back(1 + int((n.get<long>() % views + views) % views)); // (any integer is a valid choice: shrinking keeps the case meaningful)
  else
    for (int N = 1; N <= views; ++N)
      Ns.push_back(N);
  std::sort(Ns.begin(), Ns.end());
  Ns.erase(std::unique(Ns.begin(), Ns.end()), Ns.end());
  return Ns;
}

void
op_classes(const char* kind, const json& c, const ProjDataInfo& pdi, const int max_group)
{
  stats().cls(cat(kind, ": sym code ", c["sym"].get<int>()));
  stats().cls(cat(kind, max_group > 1 ? ": effective symmetry group size > 1" : ": effective symmetry group size 1"));
  if (pdi.is_tof_data())
    stats().cls(cat(kind, ": TOF"));
  if (c.value("tilt", false))
    stats().cls(cat(kind, ": view offset (symmetries switched off)"));
  if (c.value("nonsquare", false))
    stats().cls(cat(kind, ": non-square voxels"));
  if (c.value("subset_by_view", 0) > 0)
    stats().cls(cat(kind, ": ProjDataInfoSubsetByView"));
  if (pdi.get_min_segment_num() != -pdi.get_max_segment_num())
    stats().cls(cat(kind, ": asymmetric segment range"));
}

// ---- (d) counting projectors ----------------------------------------------------------------------------------------------

Result
check_opcount(const json& c)
{
  Geo g;
  const int code = c["sym"];
  OpLog log;
  CountingForwardProjector fp(code, &log);
  CountingBackProjector bp;
  bp.code = code;
  bp.log = &log;
  shared_ptr<DataSymmetriesForViewSegmentNumbers> sym_sptr; // the reference model's own object
  try
    {
      g = build_geo(c);
      fp.set_up(g.pdi, g.image);
      bp.set_up(g.pdi, g.image);
      sym_sptr = make_sym(code, g.pdi, g.image);
    }
  catch (const stir_verif::AssertionFailure&)
    {
      throw;
    }
  catch (const std::exception& e)
    {
      return Result::reject(std::string("construction rejected: ") + e.what());
    }
  const ProjDataInfo& pdi = *g.pdi;
  const DataSymmetriesForViewSegmentNumbers& sym = *sym_sptr;
  const int views = pdi.get_num_views();
  const int smin = pdi.get_min_segment_num(), smax = pdi.get_max_segment_num();
  const int tmin = pdi.get_min_tof_pos_num(), tmax = pdi.get_max_tof_pos_num();
  const bool all_variants = c.value("all_variants", views <= 12);

  shared_ptr<Target> image(g.image->clone());
  image->set_exam_info(*pet_exam_info());
  image->fill(op_image_value);
  shared_ptr<Target> out(g.image->get_empty_copy());
  ProjDataInMemory pd(pet_exam_info(), g.pdi, false);
  ProjDataInMemory pdw(pet_exam_info(), g.pdi, false);
  fill_viewgrams(pdw, [](int s, int v, int k) { return float(op_weight(s, v, k)); });
  auto sentinel = [&]() { pd.fill(op_sentinel); };

  int max_group = 1;
  long calls = 0;
  for (const int N : subset_counts_of_case(c, views))
    {
      // the lists the reference is built from are the counting partition (clause (a)) for this configuration and N
      {
        std::vector<long> own;
        const Result r = check_partition(pdi, sym, smin, smax, N, own, max_group);
        if (r.failed())
          return r;
      }
      Multi all_f1, all_f2, all_b1, all_b2;
      for (int s = 0; s < N; ++s)
        {
          const Multi M = model_set(pdi, sym, smin, smax, s, N, tmin, tmax);
          const std::string where = cat("num_views=", views, " num_subsets=", N, " subset ", s, " segments ", smin, "..", smax, " sym code ", code, ": ");
          // ---- forward: 2 overloads x zero false/true
          for (int variant = 0; variant < 4; ++variant)
            {
              if (!all_variants && variant != (s + N) % 4)
                continue;
              const bool with_image = variant < 2, zero = variant % 2 == 1;
              const std::string call = where + (with_image ? cat("forward_project(proj_data, image, ", s, ", ", N, ", zero=", zero, ")")
                                                           : cat("set_input(image); forward_project(proj_data, ", s, ", ", N, ", zero=", zero, ")"));
              sentinel();
              log.clear();
              if (with_image)
                fp.forward_project(pd, *image, s, N, zero);
              else
                {
                  fp.set_input(*image);
                  fp.forward_project(pd, s, N, zero);
                }
              const std::string d = multi_diff(log.fwd, M);
              VF_CHECK(d.empty(), call, " processed other viewgrams than the subset: ", d);
              const Result r = check_forward_output(pd, M, op_image_value, (zero && N > 1) ? 0.F : op_sentinel, call);
              if (r.failed())
                return r;
              add_to(with_image ? all_f1 : all_f2, zero ? Multi() : log.fwd);
              if (!zero)
                stats().count(with_image ? "op: forward_project(proj_data, image, s, N, zero) calls decided" : "op: forward_project(proj_data, s, N, zero) calls decided");
              ++calls;
            }
          // ---- back: convenience overload / start_accumulating_in_new_target + back_project + get_output
          for (int variant = 0; variant < 2; ++variant)
            {
              if (!all_variants && variant != (s + N) % 2)
                continue;
              const std::string call = where + (variant == 0 ? cat("back_project(image, proj_data, ", s, ", ", N, ")")
                                                             : cat("start_accumulating_in_new_target(); back_project(proj_data, ", s, ", ", N, "); get_output(image)"));
              log.clear();
              out->fill(-3.F); // ("it overwrites the data already present in the volume" / get_output "will overwrite the array-content")
              if (variant == 0)
                bp.back_project(*out, pdw, s, N);
              else
                {
                  bp.start_accumulating_in_new_target();
                  bp.back_project(pdw, s, N);
                  bp.get_output(*out);
                }
              const std::string d = multi_diff(log.back, M);
              VF_CHECK(d.empty(), call, " processed other viewgrams than the subset: ", d);
              const Result r = check_back_output(*out, M, pdi, call);
              if (r.failed())
                return r;
              add_to(variant == 0 ? all_b1 : all_b2, log.back);
              stats().count(variant == 0 ? "op: back_project(image, proj_data, s, N) calls decided" : "op: back_project(proj_data, s, N) calls decided");
              ++calls;
            }
        }
      if (all_variants)
        {
          const std::string where = cat("num_views=", views, " num_subsets=", N, " sym code ", code, ", ");
          Result r = exactly_once(all_f1, pdi, smin, smax, tmin, tmax, where + "forward_project(proj_data, image, s, N, false) for s=0..N-1");
          if (r.failed())
            return r;
          r = exactly_once(all_f2, pdi, smin, smax, tmin, tmax, where + "forward_project(proj_data, s, N, false) for s=0..N-1");
          if (r.failed())
            return r;
          r = exactly_once(all_b1, pdi, smin, smax, tmin, tmax, where + "back_project(image, proj_data, s, N) for s=0..N-1");
          if (r.failed())
            return r;
          r = exactly_once(all_b2, pdi, smin, smax, tmin, tmax, where + "back_project(proj_data, s, N) for s=0..N-1");
          if (r.failed())
            return r;
        }
      else
        { // each (N, s) was decided by one forward and one back variant: the union over both overloads is the partition
          add_to(all_f1, all_f2);
          add_to(all_b1, all_b2);
          const std::string where = cat("num_views=", views, " num_subsets=", N, " sym code ", code, ", ");
          // (zero=true calls are not added to the forward union: only when every subset had a zero=false call)
          Result r = exactly_once(all_b1, pdi, smin, smax, tmin, tmax, where + "back_project overloads for s=0..N-1");
          if (r.failed())
            return r;
        }
      // ---- B4: ONE start_accumulating_in_new_target, all subsets in a rotated order, get_output after each
      {
        const int first = int(c.value("rot", 1) % N);
        Multi so_far;
        log.clear();
        bp.start_accumulating_in_new_target();
        for (int i = 0; i < N; ++i)
          {
            const int s = (first + i) % N;
            bp.back_project(pdw, s, N);
            add_to(so_far, model_set(pdi, sym, smin, smax, s, N, tmin, tmax));
            if (all_variants || i == N - 1)
              {
                bp.get_output(*out);
                const Result r = check_back_output(*out, so_far, pdi,
                                                   cat("num_views=", views, " num_subsets=", N, " sym code ", code, ": start_accumulating_in_new_target(), then subsets ", first,
                                                       ", ", first + 1, ", ... (mod N), get_output after ", i + 1, " subsets"));
                if (r.failed())
                  return r;
              }
          }
        const Result r = exactly_once(log.back, pdi, smin, smax, tmin, tmax,
                                      cat("num_views=", views, " num_subsets=", N, " sym code ", code, ", all subsets accumulated in one target"));
        if (r.failed())
          return r;
        stats().count("op: accumulate-all-subsets sequences decided");
      }
      stats().count("op: configurations x num_subsets (counting projectors)");
    }
  // ---- F3 / B3: the default arguments (0, 1, true) / (0, 1): everything once
  {
    const Multi M = model_set(pdi, sym, smin, smax, 0, 1, tmin, tmax);
    const std::string where = cat("num_views=", views, " sym code ", code, ": ");
    sentinel();
    log.clear();
    fp.forward_project(pd, *image);
    Result r = exactly_once(log.fwd, pdi, smin, smax, tmin, tmax, where + "forward_project(proj_data, image) [defaults]");
    if (r.failed())
      return r;
    r = check_forward_output(pd, M, op_image_value, op_sentinel, where + "forward_project(proj_data, image) [defaults]");
    if (r.failed())
      return r;
    sentinel();
    log.clear();
    fp.set_input(*image);
    fp.forward_project(pd);
    r = exactly_once(log.fwd, pdi, smin, smax, tmin, tmax, where + "forward_project(proj_data) [defaults]");
    if (r.failed())
      return r;
    r = check_forward_output(pd, M, op_image_value, op_sentinel, where + "forward_project(proj_data) [defaults]");
    if (r.failed())
      return r;
    log.clear();
    out->fill(-3.F);
    bp.back_project(*out, pdw);
    r = exactly_once(log.back, pdi, smin, smax, tmin, tmax, where + "back_project(image, proj_data) [defaults]");
    if (r.failed())
      return r;
    r = check_back_output(*out, M, pdi, where + "back_project(image, proj_data) [defaults]");
    if (r.failed())
      return r;
    log.clear();
    out->fill(-3.F);
    bp.start_accumulating_in_new_target();
    bp.back_project(pdw);
    bp.get_output(*out);
    r = exactly_once(log.back, pdi, smin, smax, tmin, tmax, where + "back_project(proj_data) [defaults]");
    if (r.failed())
      return r;
    r = check_back_output(*out, M, pdi, where + "back_project(proj_data) [defaults]");
    if (r.failed())
      return r;
    calls += 4;
  }
  stats().count("op: projector calls decided (counting projectors)", calls);
  op_classes("op", c, pdi, max_group);
  return Result::pass();
}

// ---- (e) the real ray-tracing projector pair with indicator inputs ----------------------------------------------------------

//! silences STIR's warning channel while alive (public TextWriterHandle API): the ray tracer warns "ray tracing with equal
//! start and end point. Returning zero" for every LOR that only touches the cylindrical FOV of the 3x3 image (thousands of lines per case)
struct QuietWarnings
{
  struct Null : aTextWriter
  {
    void write(const char*) const override {}
  };
  Null null;
  TextWriterHandle handle;
  aTextWriter* old;
  QuietWarnings()
  {
    old = static_cast<aTextWriter*>(handle.warning_channel_ptr());
    if (!std::getenv("VERIF_VERBOSE"))
      handle.set_warning_channel(&null);
  }
  ~QuietWarnings() { handle.set_warning_channel(old); }
};

const double opreal_tol = 1e-6; // relative to the maximum of the reference image (same projector, same arithmetic: 0 observed);
                                 // a viewgram used twice / not at all is an error of 1

Result
check_opreal(const json& c)
{
  const QuietWarnings quiet_warnings;
  Geo g;
  shared_ptr<ProjectorByBinPair> pair;
  shared_ptr<DataSymmetriesForViewSegmentNumbers> sym_sptr;
  const int code = c["sym"];
  {
    const Result br = build_config(c, g, pair, sym_sptr);
    if (br.kind != Result::PASS)
      return br;
  }
  const ProjDataInfo& pdi = *g.pdi;
  const DataSymmetriesForViewSegmentNumbers& sym = *sym_sptr;
  const int views = pdi.get_num_views();
  const int smin = pdi.get_min_segment_num(), smax = pdi.get_max_segment_num();
  const int tmin = pdi.get_min_tof_pos_num(), tmax = pdi.get_max_tof_pos_num();
  ForwardProjectorByBin& fp = *pair->get_forward_projector_sptr();
  BackProjectorByBin& bp = *pair->get_back_projector_sptr();

  shared_ptr<Target> image(g.image->clone());
  image->set_exam_info(*pet_exam_info());
  image->fill(1.F);
  shared_ptr<Target> out(g.image->get_empty_copy()), ref_out(g.image->get_empty_copy());
  ProjDataInMemory pd(pet_exam_info(), g.pdi, false);

  // the indicators: all viewgrams of small data, else a spread sample (first, last, the views at 45/90/135 degrees, ...)
  std::vector<SVT> indicators;
  {
    std::vector<SVT> every;
    for (int s = smin; s <= smax; ++s)
      for (int v = pdi.get_min_view_num(); v <= pdi.get_max_view_num(); ++v)
        for (int k = tmin; k <= tmax; ++k)
          every.push_back(SVT(s, v, k));
    const std::size_t want = std::size_t(c.value("max_indicators", 40));
    if (every.size() <= want)
      indicators = every;
    else
      {
        std::set<SVT> chosen;
        const int v0 = pdi.get_min_view_num();
        for (int s = smin; s <= smax; ++s)
          for (int k = tmin; k <= tmax; k += std::max(1, tmax - tmin))
            for (const int v : { 0, views / 4, views / 2, (3 * views) / 4, views - 1 })
              if (chosen.size() < want)
                chosen.insert(SVT(s, v0 + v, k));
        // (fill up with an even spread; every.size() > want here, the second pass takes whatever is left)
        const std::size_t stride = every.size() / want + 1;
        for (std::size_t i = 0; i < every.size() && chosen.size() < want; i += stride)
          chosen.insert(every[i]);
        for (std::size_t i = 0; i < every.size() && chosen.size() < want; ++i)
          chosen.insert(every[i]);
        indicators.assign(chosen.begin(), chosen.end());
      }
  }
  // reference back projection of each indicator: the same projector, default arguments ("everything"), both overloads in turn
  std::vector<shared_ptr<Target>> ref_images;
  std::vector<double> ref_max;
  long uninformative = 0;
  for (const SVT& ind : indicators)
    {
      pd.fill(0.F);
      Viewgram<float> vg = pd.get_empty_viewgram(std::get<1>(ind), std::get<0>(ind), false, std::get<2>(ind));
      vg.fill(1.F);
      pd.set_viewgram(vg);
      shared_ptr<Target> r(g.image->get_empty_copy());
      if (ref_images.size() % 2 == 0)
        bp.back_project(*r, pd);
      else
        {
          bp.start_accumulating_in_new_target();
          bp.back_project(pd);
          bp.get_output(*r);
        }
      ref_images.push_back(r);
      ref_max.push_back(double(r->find_max()));
      if (!(r->find_max() > 0.F))
        ++uninformative; // (no voxel of the tiny image is seen from this viewgram: says nothing, counted)
    }
  stats().count("opreal: indicators without any image voxel (uninformative)", uninformative);
  // reference forward projection: the same projector, default arguments (everything)
  ProjDataInMemory ref_fwd(pet_exam_info(), g.pdi, false);
  ref_fwd.fill(op_sentinel);
  fp.forward_project(ref_fwd, *image);

  int max_group = 1;
  for (const int N : subset_counts_of_case(c, views))
    {
      {
        std::vector<long> own;
        const Result r = check_partition(pdi, sym, smin, smax, N, own, max_group);
        if (r.failed())
          return r;
      }
      Multi all_changed;
      for (int s = 0; s < N; ++s)
        {
          const Multi M = model_set(pdi, sym, smin, smax, s, N, tmin, tmax);
          const std::string where = cat("ray-tracing projector pair, num_views=", views, " num_subsets=", N, " subset ", s, " segments ", smin, "..", smax, " sym code ", code, ": ");
          // ---- forward, zero=false into sentinel data
          {
            const bool with_image = (s + N) % 2 == 0;
            pd.fill(op_sentinel);
            if (with_image)
              fp.forward_project(pd, *image, s, N, false);
            else
              {
                fp.set_input(*image);
                fp.forward_project(pd, s, N, false);
              }
            const std::string call = where + (with_image ? "forward_project(proj_data, image, s, N, false)" : "set_input; forward_project(proj_data, s, N, false)");
            Multi changed;
            for (int k = tmin; k <= tmax; ++k)
              for (int sg = smin; sg <= smax; ++sg)
                for (int v = pdi.get_min_view_num(); v <= pdi.get_max_view_num(); ++v)
                  {
                    const Viewgram<float> got = pd.get_viewgram(v, sg, false, k);
                    long n_sentinel = 0, n = 0;
                    for (Viewgram<float>::const_full_iterator it = got.begin_all_const(); it != got.end_all_const(); ++it, ++n)
                      n_sentinel += *it == op_sentinel ? 1 : 0;
                    VF_CHECK(n_sentinel == 0 || n_sentinel == n, call, ": ", svt_text(SVT(sg, v, k)), " is partly overwritten (", n - n_sentinel, " of ", n, " bins)");
                    if (n_sentinel == 0)
                      {
                        ++changed[SVT(sg, v, k)];
                        // what was written is what the call with the default arguments writes to THIS viewgram
                        const Viewgram<float> ref = ref_fwd.get_viewgram(v, sg, false, k);
                        double scale = 0, diff = 0;
                        Viewgram<float>::const_full_iterator a = got.begin_all_const(), b = ref.begin_all_const();
                        for (; a != got.end_all_const(); ++a, ++b)
                          {
                            scale = std::max(scale, std::fabs(double(*b)));
                            diff = std::max(diff, std::fabs(double(*a) - double(*b)));
                          }
                        if (scale > 0)
                          stats().maxi("opreal: max rel diff of a viewgram projected for a subset to the same viewgram of the default call", diff / scale);
                        VF_CHECK(diff <= opreal_tol * scale, call, ": the data written to ", svt_text(SVT(sg, v, k)), " differ from what forward_project(proj_data, image) [defaults] writes there by ", diff,
                                 " (max ", scale, ")");
                      }
                  }
            const std::string d = multi_diff(changed, M);
            VF_CHECK(d.empty(), call, " changed other viewgrams than the subset: ", d);
            add_to(all_changed, changed);
            stats().count("opreal: forward_project calls decided");
          }
          // ---- back, indicator data
          for (std::size_t i = 0; i < indicators.size(); ++i)
            {
              if (!(ref_max[i] > 0))
                continue;
              const SVT& ind = indicators[i];
              pd.fill(0.F);
              Viewgram<float> vg = pd.get_empty_viewgram(std::get<1>(ind), std::get<0>(ind), false, std::get<2>(ind));
              vg.fill(1.F);
              pd.set_viewgram(vg);
              const bool convenience = (s + int(i)) % 2 == 0;
              out->fill(-3.F);
              if (convenience)
                bp.back_project(*out, pd, s, N);
              else
                {
                  bp.start_accumulating_in_new_target();
                  bp.back_project(pd, s, N);
                  bp.get_output(*out);
                }
              const std::string call = where + (convenience ? "back_project(image, proj_data, s, N)" : "start_accumulating_in_new_target; back_project(proj_data, s, N); get_output")
                                       + " of data that are 1 in " + svt_text(ind) + " and 0 elsewhere: ";
              if (M.count(ind))
                {
                  double diff = 0;
                  Target::const_full_iterator a = out->begin_all_const(), b = ref_images[i]->begin_all_const();
                  for (; a != out->end_all_const(); ++a, ++b)
                    diff = std::max(diff, std::fabs(double(*a) - double(*b)));
                  stats().maxi("opreal: max rel diff of an indicator back projection for its subset to the default call", diff / ref_max[i]);
                  VF_CHECK(diff <= opreal_tol * ref_max[i], call, "the viewgram belongs to this subset, but the image (max ", out->find_max(),
                           ") is not the image of back_project with the default arguments (max ", ref_max[i], "; max difference ", diff, "): not processed exactly once");
                }
              else
                VF_CHECK(out->find_max() == 0.F && out->find_min() == 0.F, call, "the viewgram does not belong to this subset, but the image is not zero (", out->find_min(), "..",
                         out->find_max(), "): data of another subset are back projected");
              stats().count("opreal: indicator back projections decided");
            }
        }
      const Result r
          = exactly_once(all_changed, pdi, smin, smax, tmin, tmax, cat("ray-tracing forward projector, num_views=", views, " num_subsets=", N, " sym code ", code, ", viewgrams changed"));
      if (r.failed())
        return r;
      stats().count("opreal: configurations x num_subsets (ray-tracing projectors)");
    }
  op_classes("opreal", c, pdi, max_group);
  return Result::pass();
}

// ---- (f) FBP2DReconstruction ----------------------------------------------------------------------------------------------

std::string
c06_tmp_dir()
{
  static std::string d;
  if (d.empty())
    {
      const char* e = std::getenv("VERIF_TMP");
      if (e && *e)
        d = e;
      else
        {
          d = cat("/tmp/verif_", getpid());
          mkdir(d.c_str(), 0700);
          std::atexit([]() { rmdir(cat("/tmp/verif_", getpid()).c_str()); });
        }
    }
  return d;
}

struct C06FileGuard
{
  std::vector<std::string> paths;
  ~C06FileGuard()
  {
    for (const std::string& p : paths)
      std::remove(p.c_str());
  }
};

Result
check_fbp(const json& c)
{
  const int views = c["views"], m = c["m"], segs = c["segs"], code = c["sym"];
  const int nsc = c.value("num_segments_to_combine", -1);
  const bool arccorr = c.value("arccorr", false);
  static long counter = 0;
  const std::string base = cat(c06_tmp_dir(), "/c06_fbp_", getpid(), "_", ++counter);
  C06FileGuard guard;
  guard.paths = { base + ".hs", base + ".s" };
  OpLog log;
  CountingBackProjector::parsed_log = &log;
  FBP2DReconstruction recon;
  shared_ptr<Target> target;
  int data_views = 0, data_tmin = 0, data_tmax = 0;
  try
    {
      shared_ptr<Scanner> sc = vg::make_scanner(scanner_spec(2 * views * m, segs + 1, c.value("tilt", false), c.value("tof", 1)));
      if (sc->check_consistency() != Succeeded::yes)
        return Result::reject("scanner inconsistent");
      shared_ptr<ProjDataInfo> pdi(
          ProjDataInfo::construct_proj_data_info(sc, 1, segs, views, sc->get_max_num_non_arccorrected_bins(), arccorr, c.value("tof", 1) > 1 ? 1 : 0).release());
      data_views = pdi->get_num_views();
      data_tmin = pdi->get_min_tof_pos_num();
      data_tmax = pdi->get_max_tof_pos_num();
      {
        ProjDataInterfile file(pet_exam_info(), pdi, base + ".hs", std::ios::out);
        file.fill(1.F);
      }
      std::stringstream par;
      par << "FBP2DParameters :=\n"
          << "input file := " << base << ".hs\n"
          << "output filename prefix := " << base << "_out\n"
          << "num_segments_to_combine with SSRB := " << nsc << "\n"
          << "xy output image size (in pixels) := " << c.value("image_xy", 3) << "\n"
          << "Back projector type := " << CountingBackProjector::registered_name << "\n"
          << "  Verif Counting Back Projector Parameters :=\n"
          << "  symmetry code := " << code << "\n"
          << "  End Verif Counting Back Projector Parameters :=\n"
          << "End :=\n";
      if (!recon.parse(par))
        return Result::reject("parsing the FBP2D parameters failed");
      recon.set_disable_output(true);
      target.reset(recon.construct_target_image_ptr());
      if (recon.set_up(target) != Succeeded::yes)
        return Result::reject("FBP2D set_up failed");
    }
  catch (const stir_verif::AssertionFailure&)
    {
      throw;
    }
  catch (const std::exception& e)
    {
      return Result::reject(std::string("FBP2D construction rejected: ") + e.what());
    }
  log.clear();
  const Succeeded ok = recon.reconstruct(target);
  CountingBackProjector::parsed_log = nullptr;
  VF_CHECK(ok == Succeeded::yes, "FBP2DReconstruction::reconstruct did not succeed (num_views=", data_views, " segments -", segs, "..", segs, " num_segments_to_combine=", nsc, ")");
  // every (view, TOF bin) of segment 0 of the data it was given (SSRB keeps the TOF bins): exactly once.  (A reconstruction
  // class that cannot use TOF bins has to refuse TOF data: that is a rejected configuration, see the catch above.)
  Multi want;
  for (int v = 0; v < data_views; ++v)
    for (int k = data_tmin; k <= data_tmax; ++k)
      want[SVT(0, v, k)] = 1;
  const std::string d = multi_diff(log.back, want);
  VF_CHECK(d.empty(), "FBP2DReconstruction (num_views=", data_views, " segments -", segs, "..", segs, " TOF bins ", data_tmin, "..", data_tmax,
           " num_segments_to_combine=", nsc, arccorr ? " arc-corrected data" : "", " sym code ", code,
           ") succeeded; it must back project every (view, TOF bin) of segment 0 exactly once: ", d);
  stats().count("fbp: reconstructions decided");
  stats().count("fbp: views counted", data_views);
  stats().cls(cat("fbp: sym code ", code));
  stats().cls(cat("fbp: num_segments_to_combine ", nsc));
  if (arccorr)
    stats().cls("fbp: arc-corrected data");
  if (data_tmax > data_tmin)
    stats().cls("fbp: TOF data");
  if (long(log.back_groups) < long(data_views))
    stats().cls("fbp: effective symmetry group size > 1");
  return Result::pass();
}

// ---- (g) the objective function on the counting projector pair ------------------------------------------------------------

Multi
times(const Multi& m, const int k)
{
  Multi r;
  for (const auto& kv : m)
    r[kv.first] = kv.second * k;
  return r;
}

Result
check_opobj(const json& c)
{
  Geo g;
  const int code = c["sym"];
  OpLog log;
  shared_ptr<CountingForwardProjector> fp(new CountingForwardProjector(code, &log));
  shared_ptr<CountingBackProjector> bp(new CountingBackProjector);
  bp->code = code;
  bp->log = &log;
  shared_ptr<ProjectorByBinPair> pair(new ProjectorByBinPairUsingSeparateProjectors(fp, bp));
  shared_ptr<DataSymmetriesForViewSegmentNumbers> sym_sptr, sens_sym_sptr;
  shared_ptr<const ProjDataInfo> sens_pdi;
  PoissonLogLikelihoodWithLinearModelForMeanAndProjData<Target> obj;
  shared_ptr<Target> target;
  // ("use time-of-flight sensitivities" has no setter, only a parsing key: the default, false, is what is run)
  const bool tof_sens = false;
  try
    {
      g = build_geo(c);
      // (the objective function processes segments -pm..pm: they have to exist)
      if (g.pdi->get_min_segment_num() != -g.pdi->get_max_segment_num())
        return Result::reject("asymmetric segment range");
      sym_sptr = make_sym(code, g.pdi, g.image);
      // "use time-of-flight sensitivities" false (the default): the sensitivities are back projections of non-TOF data by a
      // clone of the back projector set up with the non-TOF geometry (set_up_before_sensitivity)
      sens_pdi = (g.pdi->is_tof_data() && !tof_sens) ? shared_ptr<const ProjDataInfo>(g.pdi->create_non_tof_clone()) : shared_ptr<const ProjDataInfo>(g.pdi);
      sens_sym_sptr = make_sym(code, sens_pdi, g.image);
      shared_ptr<ProjData> pd(new ProjDataInMemory(pet_exam_info(), g.pdi, false));
      pd->fill(1.F);
      obj.set_proj_data_sptr(pd);
      obj.set_projector_pair_sptr(pair);
      obj.set_use_subset_sensitivities(true);
      target.reset(g.image->clone());
      target->set_exam_info(*pet_exam_info());
      target->fill(1.F);
    }
  catch (const stir_verif::AssertionFailure&)
    {
      throw;
    }
  catch (const std::exception& e)
    {
      return Result::reject(std::string("construction rejected: ") + e.what());
    }
  const ProjDataInfo& pdi = *g.pdi;
  const DataSymmetriesForViewSegmentNumbers& sym = *sym_sptr;
  const int views = pdi.get_num_views();
  const int data_smax = pdi.get_max_segment_num();
  const int proc_max = c.value("proc_max", -1);
  const int pm = proc_max >= 0 ? std::min(proc_max, data_smax) : data_smax;
  const int tmin = pdi.get_min_tof_pos_num(), tmax = pdi.get_max_tof_pos_num();
  const int sens_tmin = sens_pdi->get_min_tof_pos_num(), sens_tmax = sens_pdi->get_max_tof_pos_num();
  obj.set_max_segment_num_to_process(pm);
  shared_ptr<Target> out(g.image->get_empty_copy());
  out->set_exam_info(*pet_exam_info());

  int max_group = 1;
  for (const int N : subset_counts_of_case(c, views))
    {
      {
        std::vector<long> own;
        Result r = check_partition(pdi, sym, -pm, pm, N, own, max_group);
        if (r.failed())
          return r;
        int mg = 1;
        r = check_partition(*sens_pdi, *sens_sym_sptr, -pm, pm, N, own, mg);
        if (r.failed())
          return r;
      }
      const std::string cfg = cat("PoissonLogLikelihoodWithLinearModelForMeanAndProjData on counting projectors, num_views=", views, " num_subsets=", N,
                                  " max_segment_num_to_process=", pm, " sym code ", code, pdi.is_tof_data() ? (tof_sens ? " TOF, TOF sensitivities" : " TOF, non-TOF sensitivities") : "",
                                  ": ");
      // ---- set_up computes the subset sensitivities: over all subsets every viewgram of the sensitivity data once
      obj.set_num_subsets(N);
      log.clear();
      Succeeded ok = Succeeded::no;
      try
        {
          ok = obj.set_up(target);
        }
      catch (const stir_verif::AssertionFailure&)
        {
          throw;
        }
      catch (const std::exception& e)
        {
          return Result::reject(cfg + "set_up rejected: " + e.what());
        }
      if (ok != Succeeded::yes)
        return Result::reject(cfg + "set_up failed");
      VF_CHECK(log.fwd.empty(), cfg, "set_up forward projected ", log.fwd.size(), " viewgrams");
      Result r = exactly_once(log.back, *sens_pdi, -pm, pm, sens_tmin, sens_tmax, cfg + "subset sensitivities computed by set_up, back projected viewgrams");
      if (r.failed())
        return r;
      Multi all_grad_f, all_grad_b, all_val, all_sens, all_h1_f, all_h1_b, all_h2_f, all_h2_b;
      for (int s = 0; s < N; ++s)
        {
          const Multi M = model_set(pdi, sym, -pm, pm, s, N, tmin, tmax);
          const Multi Msens = model_set(*sens_pdi, *sens_sym_sptr, -pm, pm, s, N, sens_tmin, sens_tmax);
          const std::string where = cfg + cat("subset ", s, ", ");
          std::string d;
          // gradient (both forms, alternating which one feeds the union)
          for (int form = 0; form < 2; ++form)
            {
              log.clear();
              out->fill(0.F);
              if (form == 0)
                obj.compute_sub_gradient_without_penalty(*out, *target, s);
              else
                obj.compute_sub_gradient_without_penalty_plus_sensitivity(*out, *target, s);
              const char* const name = form == 0 ? "compute_sub_gradient_without_penalty" : "compute_sub_gradient_without_penalty_plus_sensitivity";
              d = multi_diff(log.fwd, M);
              VF_CHECK(d.empty(), where, name, " forward projected other viewgrams than the subset: ", d);
              d = multi_diff(log.back, M);
              VF_CHECK(d.empty(), where, name, " back projected other viewgrams than the subset: ", d);
              if (form == (s + N) % 2)
                {
                  add_to(all_grad_f, log.fwd);
                  add_to(all_grad_b, log.back);
                }
            }
          // value
          log.clear();
          (void)obj.compute_objective_function_without_penalty(*target, s);
          d = multi_diff(log.fwd, M);
          VF_CHECK(d.empty(), where, "compute_objective_function_without_penalty forward projected other viewgrams than the subset: ", d);
          VF_CHECK(log.back.empty(), where, "compute_objective_function_without_penalty back projected ", log.back.size(), " viewgrams");
          add_to(all_val, log.fwd);
          // subset sensitivity
          log.clear();
          out->fill(0.F);
          obj.add_subset_sensitivity(*out, s);
          d = multi_diff(log.back, Msens);
          VF_CHECK(d.empty(), where, "add_subset_sensitivity back projected other viewgrams than the subset: ", d);
          VF_CHECK(log.fwd.empty(), where, "add_subset_sensitivity forward projected ", log.fwd.size(), " viewgrams");
          add_to(all_sens, log.back);
          // Hessian products
          log.clear();
          out->fill(0.F);
          VF_CHECK(obj.add_multiplication_with_approximate_sub_Hessian_without_penalty(*out, *target, s) == Succeeded::yes, where,
                   "add_multiplication_with_approximate_sub_Hessian_without_penalty failed");
          d = multi_diff(log.fwd, M);
          VF_CHECK(d.empty(), where, "add_multiplication_with_approximate_sub_Hessian_without_penalty forward projected other viewgrams than the subset: ", d);
          d = multi_diff(log.back, M);
          VF_CHECK(d.empty(), where, "add_multiplication_with_approximate_sub_Hessian_without_penalty back projected other viewgrams than the subset: ", d);
          add_to(all_h1_f, log.fwd);
          add_to(all_h1_b, log.back);
          log.clear();
          out->fill(0.F);
          VF_CHECK(obj.accumulate_sub_Hessian_times_input_without_penalty(*out, *target, *target, s) == Succeeded::yes, where,
                   "accumulate_sub_Hessian_times_input_without_penalty failed");
          // (the input and the current estimate are both forward projected)
          d = multi_diff(log.fwd, times(M, 2));
          VF_CHECK(d.empty(), where, "accumulate_sub_Hessian_times_input_without_penalty forward projected (input and current estimate: twice each) other viewgrams than the subset: ", d);
          d = multi_diff(log.back, M);
          VF_CHECK(d.empty(), where, "accumulate_sub_Hessian_times_input_without_penalty back projected other viewgrams than the subset: ", d);
          add_to(all_h2_b, log.back);
          stats().count("opobj: objective-function calls decided", 7);
        }
      r = exactly_once(all_grad_f, pdi, -pm, pm, tmin, tmax, cfg + "subset gradients for s=0..N-1, forward projected viewgrams");
      if (r.failed())
        return r;
      r = exactly_once(all_grad_b, pdi, -pm, pm, tmin, tmax, cfg + "subset gradients for s=0..N-1, back projected viewgrams");
      if (r.failed())
        return r;
      r = exactly_once(all_val, pdi, -pm, pm, tmin, tmax, cfg + "subset objective function values for s=0..N-1, forward projected viewgrams");
      if (r.failed())
        return r;
      r = exactly_once(all_sens, *sens_pdi, -pm, pm, sens_tmin, sens_tmax, cfg + "add_subset_sensitivity for s=0..N-1, back projected viewgrams");
      if (r.failed())
        return r;
      r = exactly_once(all_h1_f, pdi, -pm, pm, tmin, tmax, cfg + "approximate sub-Hessian products for s=0..N-1, forward projected viewgrams");
      if (r.failed())
        return r;
      r = exactly_once(all_h1_b, pdi, -pm, pm, tmin, tmax, cfg + "approximate sub-Hessian products for s=0..N-1, back projected viewgrams");
      if (r.failed())
        return r;
      r = exactly_once(all_h2_b, pdi, -pm, pm, tmin, tmax, cfg + "sub-Hessian-times-input for s=0..N-1, back projected viewgrams");
      if (r.failed())
        return r;
      stats().count("opobj: configurations x num_subsets (objective function on counting projectors)");
    }
  op_classes("opobj", c, pdi, max_group);
  if (pm < data_smax)
    stats().cls("opobj: max_segment_num_to_process < max segment");
  if (pdi.is_tof_data())
    stats().cls(tof_sens ? "opobj: TOF sensitivities" : "opobj: non-TOF sensitivities of TOF data");
  return Result::pass();
}

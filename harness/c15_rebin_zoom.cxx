// C15 — rebinning and resampling conserve counts and physical positions.
//
// Part "ssrb": a random list of detector pairs (+ unmashed TOF index) is histogrammed with the INPUT
//   geometry (ProjDataInfoCylindricalNoArcCorr::get_bin_for_det_pos_pair), rebinned with stir::SSRB, and
//   compared EXACTLY (integer counts) with the histogram of the same list made with the OUTPUT geometry
//   that SSRB(const ProjDataInfo&,...) constructs (commuting square).  Counts may only disappear
//   through a range that the caller asked to trim.  do_norm=true is compared with the un-normalised
//   result through the number of contributing input sinograms counted from the ring-pair tables.
// Part "zoom": random non-negative images with compact support are zoomed/shifted with every overload
//   of zoom_image / zoom_image_in_place and all three ZoomOptions; oracles: the harness's own separable
//   "overlap" (step-function, count preserving) resampling in physical coordinates, conservation of the
//   sum and of the centre of mass when the new grid covers the object, uniform regions under
//   preserve_values, the documented global factors between the options, agreement of all overloads (incl. the 2-D
//   PixelsOnCartesianGrid overload called directly with independent x and y zooms, against the resampling reference and
//   against the 3-D overload on the same data held as a one-plane volume), and the library's centre-of-gravity functions
//   against the harness's own centre of mass.
// Parts "overlap", "viewgram", "issrb", "extend": see c15_more.h (overlap_interpolate called directly with a pre-filled
//   output, zoom_viewgram(s), inverse_SSRB, extend_segment).
#include "stir_gen.h"
#include "c15_more.h"
#include "stir/ProjDataInfoCylindricalNoArcCorr.h"
#include "stir/ProjDataInMemory.h"
#include "stir/ProjDataInterfile.h"
#include "stir/ProjData.h"
#include "stir/ExamInfo.h"
#include "stir/SSRB.h"
#include "stir/Sinogram.h"
#include "stir/DetectionPositionPair.h"
#include "stir/zoom.h"
#include "stir/ZoomOptions.h"
#include "stir/centre_of_gravity.h"
#include "stir/VoxelsOnCartesianGrid.h"
#include "stir/PixelsOnCartesianGrid.h"
#include "stir/IndexRange3D.h"
#include "stir/IndexRange2D.h"
#include "stir/Coordinate2D.h"
#include "stir/CartesianCoordinate3D.h"
#include <map>
#include <set>
#include <tuple>
#include <cstdio>
#include <unistd.h>
#include <sys/stat.h>

using namespace vf;
using namespace stir;

namespace {

const bool no_exclude = std::getenv("VERIF_NO_EXCLUDE") != nullptr;

//! switches STIR's assert()s off (= what a Release build executes) for a scope
struct AssertsOff
{
  bool active;
  explicit AssertsOff(bool a)
      : active(a)
  {
    if (active)
      stir_verif::asserts_on = false;
  }
  ~AssertsOff()
  {
    if (active)
      stir_verif::asserts_on = true;
  }
};

// Two internal assertions of STIR fire for legal inputs of this property although the code behind them computes the
// right result (the property speaks about that result, not about the assertions):
//  * ProjDataInfo::set_tof_mash_factor shrinks its TOF boundary tables with VectorWithOffset::grow(), whose assert()
//    forbids shrinking; grow() is resize(), which shrinks correctly (every SSRB with num_tof_bins_to_combine > 1).
//  * the four range assertions on diff_between_right_edges in overlap_interpolate.cxx carry the comment "+/-epsilon"
//    but test without one; they fire on rounding noise of 1e-7 of a bin.
// When exactly one of these fires, the call is repeated with the assertions off (= what a Release build executes) and
// every oracle still applies to the result.  Any other assertion is reported.
bool
is_grow_shrinks_assertion(const stir_verif::AssertionFailure& e)
{
  const std::string what = e.what();
  return what.find("VectorWithOffset.inl") != std::string::npos
         && what.find("min_index <= this->get_min_index() && max_index >= this->get_max_index()") != std::string::npos;
}
bool
is_overlap_interpolate_epsilon_assertion(const stir_verif::AssertionFailure& e)
{
  const std::string what = e.what();
  return what.find("diff_between_right_edges") != std::string::npos && what.find("overlap_interpolate.cxx") != std::string::npos;
}

// =================================================================================================
//                                             SSRB
// =================================================================================================
typedef std::tuple<int, int, int, int, int> BinKey; // seg, ax, view, tang, tof

inline BinKey
key(const Bin& b)
{
  return BinKey(b.segment_num(), b.axial_pos_num(), b.view_num(), b.tangential_pos_num(), b.timing_pos_num());
}
inline std::string
show(const BinKey& k)
{
  return cat("bin(seg ", std::get<0>(k), ", ax ", std::get<1>(k), ", view ", std::get<2>(k), ", tang ", std::get<3>(k), ", tof ", std::get<4>(k), ")");
}
inline bool
in_range(const ProjDataInfo& p, const Bin& b)
{
  if (b.segment_num() < p.get_min_segment_num() || b.segment_num() > p.get_max_segment_num())
    return false;
  if (b.axial_pos_num() < p.get_min_axial_pos_num(b.segment_num()) || b.axial_pos_num() > p.get_max_axial_pos_num(b.segment_num()))
    return false;
  if (b.view_num() < p.get_min_view_num() || b.view_num() > p.get_max_view_num())
    return false;
  if (b.tangential_pos_num() < p.get_min_tangential_pos_num() || b.tangential_pos_num() > p.get_max_tangential_pos_num())
    return false;
  if (b.timing_pos_num() < p.get_min_tof_pos_num() || b.timing_pos_num() > p.get_max_tof_pos_num())
    return false;
  return true;
}

struct Ev
{
  int d1, r1, d2, r2, t;
};

inline int
dj_span(const json& c, int nseg)
{
  return c["pdi"]["span"].get<int>() * nseg;
}

std::string
tmp_dir()
{
  static std::string d;
  if (d.empty())
    {
      const char* t = std::getenv("VERIF_TMP");
      d = t ? std::string(t) : cat("/tmp/verif_", long(getpid()));
      mkdir(d.c_str(), 0777);
      d += cat("/c15_", long(getpid()));
      mkdir(d.c_str(), 0777);
    }
  return d;
}

//! write a histogram into projection data, sinogram by sinogram
void
put_histogram(ProjData& pd, const std::map<BinKey, int>& h)
{
  std::map<std::tuple<int, int, int>, std::vector<const std::pair<const BinKey, int>*>> by_sino;
  for (auto& kv : h)
    by_sino[std::make_tuple(std::get<0>(kv.first), std::get<1>(kv.first), std::get<4>(kv.first))].push_back(&kv);
  for (auto& s : by_sino)
    {
      Sinogram<float> sino = pd.get_empty_sinogram(Bin(std::get<0>(s.first), 0, std::get<1>(s.first), 0, std::get<2>(s.first)));
      for (auto* kv : s.second)
        sino[std::get<2>(kv->first)][std::get<3>(kv->first)] = float(kv->second);
      pd.set_sinogram(sino);
    }
}

//! compare all bins of projection data with a histogram (exactly)
Result
compare_exact(const ProjData& pd, const std::map<BinKey, int>& want, const std::string& what, double& total)
{
  const ProjDataInfo& p = *pd.get_proj_data_info_sptr();
  total = 0;
  for (int s = p.get_min_segment_num(); s <= p.get_max_segment_num(); ++s)
    for (int k = p.get_min_tof_pos_num(); k <= p.get_max_tof_pos_num(); ++k)
      for (int a = p.get_min_axial_pos_num(s); a <= p.get_max_axial_pos_num(s); ++a)
        {
          const Sinogram<float> sino = pd.get_sinogram(Bin(s, 0, a, 0, k));
          for (int v = p.get_min_view_num(); v <= p.get_max_view_num(); ++v)
            for (int t = p.get_min_tangential_pos_num(); t <= p.get_max_tangential_pos_num(); ++t)
              {
                const BinKey bk(s, a, v, t, k);
                auto it = want.find(bk);
                const double w = it == want.end() ? 0. : double(it->second);
                const double got = sino[v][t];
                total += got;
                VF_CHECK(got == w, what, ": ", show(bk), " holds ", got, " but the detector pairs of the list that the output geometry assigns to it count ", w);
              }
        }
  return Result::pass();
}

Result
check_ssrb(const json& c)
{
  shared_ptr<Scanner> sc;
  shared_ptr<ProjDataInfo> in_pdi;
  try
    {
      sc = vg::make_scanner(c["scanner"]);
      if (sc->check_consistency() != Succeeded::yes)
        return Result::reject("scanner inconsistent");
      in_pdi = vg::make_pdi(sc, c["pdi"]);
    }
  catch (const std::runtime_error& e)
    {
      return Result::reject(std::string("construction rejected: ") + e.what());
    }
  const auto* pin = dynamic_cast<const ProjDataInfoCylindricalNoArcCorr*>(in_pdi.get());
  if (!pin)
    return Result::reject("not a cylindrical no-arc-correction geometry");

  const int nseg = c["nseg"], nviews = c["nviews"], ntof = c["ntof"], trim = c["trim"], max_in_seg = c["max_in_seg"];
  const bool expect_error = c.value("expect_error", false);

  // ---- output geometry (function under test no. 1) ---------------------------------------------
  shared_ptr<ProjDataInfo> out_pdi;
  bool asserts_off_for_tof = false; // see is_grow_shrinks_assertion()
  try
    {
      try
        {
          out_pdi.reset(SSRB(*in_pdi, nseg, nviews, trim, max_in_seg, ntof));
        }
      catch (const stir_verif::AssertionFailure& e)
        {
          if (!(ntof > 1 && is_grow_shrinks_assertion(e)))
            throw;
          asserts_off_for_tof = true;
          AssertsOff guard(true);
          out_pdi.reset(SSRB(*in_pdi, nseg, nviews, trim, max_in_seg, ntof));
        }
    }
  catch (const std::runtime_error& e)
    {
      if (expect_error)
        {
          stats().cls("ssrb: illegal parameters reported with error()");
          return Result::pass();
        }
      return Result::reject(std::string("SSRB(ProjDataInfo) rejected: ") + e.what());
    }
  if (expect_error)
    return Result::fail(cat("SSRB(ProjDataInfo) accepted num_segments_to_combine=", nseg, " for data with max segment ", in_pdi->get_max_segment_num(),
                            " (max_in_segment_num_to_process=", max_in_seg, "): no complete output segment exists; an error() was expected"));
  const auto* pout = dynamic_cast<const ProjDataInfoCylindricalNoArcCorr*>(out_pdi.get());
  VF_CHECK(pout != nullptr, "SSRB output geometry is not ProjDataInfoCylindricalNoArcCorr");

  const bool tof = pin->is_tof_data();
  const int f_in = pin->get_tof_mash_factor();
  stats().cls("ssrb");
  stats().cls(tof ? "ssrb: TOF data" : "ssrb: non-TOF data");
  stats().cls(cat("ssrb: input span ", c["pdi"]["span"].get<int>()));
  if (nseg > 1)
    stats().cls("ssrb: segments combined");
  if (nviews > 1)
    stats().cls("ssrb: views combined");
  if (ntof > 1)
    stats().cls("ssrb: TOF bins combined");
  if (asserts_off_for_tof)
    stats().cls("ssrb: TOF-combined geometry built with assertions off (grow() used for shrinking)");
  if (trim > 0)
    stats().cls("ssrb: tangential trim > 0");
  if (trim < 0)
    stats().cls("ssrb: tangential trim < 0");
  if (max_in_seg >= 0)
    stats().cls("ssrb: max_in_segment_num_to_process given");
  if (pin->get_view_mashing_factor() > 1)
    stats().cls("ssrb: input already view-mashed");

  // ---- structural expectations on the output geometry (documentation of SSRB in SSRB.h) ---------
  VF_CHECK(out_pdi->get_num_views() * nviews == in_pdi->get_num_views() && out_pdi->get_min_view_num() == 0, "output views ", out_pdi->get_num_views(),
           " x ", nviews, " != input views ", in_pdi->get_num_views());
  VF_CHECK(out_pdi->get_num_tangential_poss() == in_pdi->get_num_tangential_poss() - trim
               && out_pdi->get_min_tangential_pos_num() == -(out_pdi->get_num_tangential_poss() / 2),
           "output tangential range (", out_pdi->get_min_tangential_pos_num(), ",", out_pdi->get_max_tangential_pos_num(), ") is not the documented one for ",
           in_pdi->get_num_tangential_poss(), " - ", trim, " positions");
  const int eff_max_in = max_in_seg >= 0 ? max_in_seg : in_pdi->get_max_segment_num();
  const int want_out_max_seg = (eff_max_in - nseg / 2) / nseg;
  VF_CHECK(out_pdi->get_max_segment_num() == want_out_max_seg && out_pdi->get_min_segment_num() == -want_out_max_seg, "output segment range (",
           out_pdi->get_min_segment_num(), ",", out_pdi->get_max_segment_num(), ") but ", nseg, " segments combined up to input segment ", eff_max_in,
           " give ", want_out_max_seg);
  const int grouped_max_in_seg = want_out_max_seg * nseg + nseg / 2; // largest input segment that is part of an output segment
  if (tof)
    VF_CHECK(pout->get_tof_mash_factor() == f_in * ntof, "output TOF mashing ", pout->get_tof_mash_factor(), " != ", f_in, "*", ntof);
  else
    VF_CHECK(!pout->is_tof_data(), "non-TOF input gives TOF output");

  const int ndet = sc->get_num_detectors_per_ring();
  const int rings = sc->get_num_rings();

  // ---- audit H: the coarse sampling as the HARNESS states it (not as SSRB(ProjDataInfo) reports it) ------------------------
  // "histogramming at the coarse sampling": combining nseg (odd) complete segments of span s gives the segments of span s*nseg,
  // combining views gives views/nviews views, the tangential range is the documented one, TOF mashing is multiplied.  That
  // sampling is constructed directly from the scanner with ProjDataInfo::construct_proj_data_info; the output geometry of SSRB
  // must have its ranges, and every detector pair of the list must get the same bin from both (checked in the loop below).
  shared_ptr<ProjDataInfo> direct_pdi;
  {
    const int span_out = c["pdi"]["span"].get<int>() * nseg;
    json dj;
    dj["span"] = span_out;
    dj["max_delta"] = (span_out - 1) / 2 + span_out * want_out_max_seg;
    dj["views"] = in_pdi->get_num_views() / nviews;
    dj["tang"] = in_pdi->get_num_tangential_poss() - trim;
    dj["arccorr"] = false;
    dj["tof_mash"] = tof ? f_in * ntof : 0;
    dj["trim"] = json::object();
    try
      {
        AssertsOff guard(asserts_off_for_tof);
        direct_pdi = vg::make_pdi(sc, dj);
      }
    catch (const std::runtime_error&)
      { // e.g. more tangential positions than the scanner allows (negative trim with VERIF_NO_EXCLUDE=1)
        stats().cls("ssrb: coarse sampling cannot be constructed directly (not compared)");
      }
  }
  const auto* pdirect = dynamic_cast<const ProjDataInfoCylindricalNoArcCorr*>(direct_pdi.get());
  if (pdirect)
    {
      stats().cls("ssrb: output geometry compared with the directly constructed coarse sampling");
      VF_CHECK(pdirect->get_min_segment_num() == pout->get_min_segment_num() && pdirect->get_max_segment_num() == pout->get_max_segment_num(),
               "SSRB output segments (", pout->get_min_segment_num(), ",", pout->get_max_segment_num(), ") but the sampling of span ", dj_span(c, nseg),
               " constructed directly has (", pdirect->get_min_segment_num(), ",", pdirect->get_max_segment_num(), ")");
      for (int so = pout->get_min_segment_num(); so <= pout->get_max_segment_num(); ++so)
        {
          VF_CHECK(pout->get_min_ring_difference(so) == pdirect->get_min_ring_difference(so)
                       && pout->get_max_ring_difference(so) == pdirect->get_max_ring_difference(so),
                   "SSRB output segment ", so, " holds ring differences (", pout->get_min_ring_difference(so), ",", pout->get_max_ring_difference(so),
                   ") but combining ", nseg, " segments of span ", c["pdi"]["span"].get<int>(), " gives (", pdirect->get_min_ring_difference(so), ",",
                   pdirect->get_max_ring_difference(so), ")");
          // own count: distinct axial midpoints r1+r2 of the ring pairs of the segment
          std::set<int> mids;
          for (int r1 = 0; r1 < rings; ++r1)
            for (int r2 = 0; r2 < rings; ++r2)
              if (r2 - r1 >= pdirect->get_min_ring_difference(so) && r2 - r1 <= pdirect->get_max_ring_difference(so))
                mids.insert(r1 + r2);
          VF_CHECK(pout->get_min_axial_pos_num(so) == 0 && pout->get_num_axial_poss(so) == int(mids.size())
                       && pdirect->get_num_axial_poss(so) == int(mids.size()),
                   "SSRB output segment ", so, " has axial positions ", pout->get_min_axial_pos_num(so), "..", pout->get_max_axial_pos_num(so), " but its ring pairs have ",
                   mids.size(), " distinct axial midpoints (directly constructed sampling: ", pdirect->get_num_axial_poss(so), ")");
        }
      VF_CHECK(pdirect->get_min_tof_pos_num() == pout->get_min_tof_pos_num() && pdirect->get_max_tof_pos_num() == pout->get_max_tof_pos_num(),
               "SSRB output TOF range (", pout->get_min_tof_pos_num(), ",", pout->get_max_tof_pos_num(), ") but the directly constructed sampling has (",
               pdirect->get_min_tof_pos_num(), ",", pdirect->get_max_tof_pos_num(), ")");
    }

  // ---- the list of detector pairs and its two histograms ---------------------------------------
  const int N = sc->get_max_num_timing_poss();
  const int tmin = tof ? -(N / 2) - 1 : -2, tmax = tof ? N / 2 + 1 : 2;
  const long n_events = c["n_events"];
  SplitMix g(c["events_seed"].get<uint64_t>());
  std::map<BinKey, int> h_in, h_out;
  long n_in = 0, n_out = 0, n_lost_trim = 0;
  for (long e = 0; e < n_events; ++e)
    {
      Ev ev;
      ev.d1 = int(g.range(0, ndet - 1));
      ev.d2 = int(g.range(0, ndet - 2));
      if (ev.d2 >= ev.d1)
        ++ev.d2; // d1 != d2 (asserted by get_view_tangential_pos_num_for_det_num_pair)
      ev.r1 = int(g.range(0, rings - 1));
      ev.r2 = int(g.range(0, rings - 1));
      ev.t = int(g.range(tmin, tmax));
      const DetectionPositionPair<> dp(DetectionPosition<>(ev.d1, ev.r1), DetectionPosition<>(ev.d2, ev.r2), ev.t);
      Bin bi, bo;
      if (pin->get_bin_for_det_pos_pair(bi, dp) != Succeeded::yes || !in_range(*pin, bi))
        continue; // not part of the input data
      ++n_in;
      ++h_in[key(bi)];
      const bool has_out = pout->get_bin_for_det_pos_pair(bo, dp) == Succeeded::yes && in_range(*pout, bo);
      if (pdirect)
        { // audit H: the bin of the pair at the coarse sampling, from the harness's own statement of that sampling
          Bin bd;
          const bool has_direct = pdirect->get_bin_for_det_pos_pair(bd, dp) == Succeeded::yes && in_range(*pdirect, bd);
          VF_CHECK(has_direct == has_out && (!has_out || key(bd) == key(bo)), "detector pair (det ", ev.d1, ", ring ", ev.r1, ")-(det ", ev.d2, ", ring ", ev.r2,
                   "), t=", ev.t, ": the output geometry of SSRB assigns ", has_out ? show(key(bo)) : std::string("no bin"),
                   ", the directly constructed coarse sampling ", has_direct ? show(key(bd)) : std::string("no bin"));
        }
      if (has_out)
        {
          ++n_out;
          ++h_out[key(bo)];
          continue;
        }
      // counts may only disappear through a range that the caller trimmed:
      //  * input segments beyond the last complete group / beyond max_in_segment_num_to_process,
      //  * tangential positions outside the (documented) output range,
      //  * TOF bins outside the output TOF range (number of output TOF bins = N/(mash) rounded down).
      const bool seg_trimmed = std::abs(bi.segment_num()) > grouped_max_in_seg;
      const bool tang_trimmed
          = bi.tangential_pos_num() < out_pdi->get_min_tangential_pos_num() || bi.tangential_pos_num() > out_pdi->get_max_tangential_pos_num();
      bool tof_trimmed = false;
      if (tof)
        {
          const int ko = stir::round(float(bi.timing_pos_num()) / float(ntof));
          tof_trimmed = ko < out_pdi->get_min_tof_pos_num() || ko > out_pdi->get_max_tof_pos_num();
        }
      if (seg_trimmed || tang_trimmed || tof_trimmed)
        ++n_lost_trim;
      else
        return Result::fail(cat("detector pair (det ", ev.d1, ", ring ", ev.r1, ")-(det ", ev.d2, ", ring ", ev.r2, "), t=", ev.t, " is in input ",
                                show(key(bi)), " and inside every kept range, but the output geometry has no bin for it (got ",
                                show(key(bo)), ")"));
    }
  stats().count("ssrb events in input", n_in);
  stats().count("ssrb events lost by requested trimming", n_lost_trim);

  const bool nothing_trimmed = trim <= 0 && grouped_max_in_seg == in_pdi->get_max_segment_num()
                               && (!tof || out_pdi->get_num_tof_poss() * pout->get_tof_mash_factor() >= in_pdi->get_num_tof_poss() * f_in);
  if (nothing_trimmed)
    {
      stats().cls("ssrb: nothing trimmed (total conserved)");
      VF_CHECK(n_out == n_in, "nothing is trimmed but only ", n_out, " of ", n_in, " counts have an output bin");
    }
  else
    stats().cls("ssrb: some range trimmed");

  shared_ptr<ExamInfo> exam(new ExamInfo(ImagingModality::PT));
  ProjDataInMemory in_data(exam, in_pdi); // zero initialised
  put_histogram(in_data, h_in);

  // ---- SSRB without normalisation: commuting square -------------------------------------------
  ProjDataInMemory out_data(exam, out_pdi);
  out_data.fill(5.F); // every output sinogram is documented to be 'put': stale values must not survive
  SSRB(out_data, in_data, false);
  double total = 0;
  {
    const Result r = compare_exact(out_data, h_out, "SSRB(do_norm=false)", total);
    if (r.failed())
      return r;
  }
  VF_CHECK(total == double(n_out), "total output counts ", total, " != counts of the list with an output bin ", n_out, " (input total ", n_in, ")");

  // ---- audit H: an output object whose geometry the CALLER made: SSRB's sampling with a reduced, possibly non-symmetric segment
  //      range and tangential range (SSRB(ProjData& out, const ProjData& in, bool): "out_proj_data ... its projection data info
  //      is used to determine output characteristics"); every output bin still holds the pairs its geometry assigns to it
  if (c.contains("out_restrict") && c["out_restrict"].is_array() && c["out_restrict"].size() == 4)
    {
      const json& R = c["out_restrict"];
      shared_ptr<ProjDataInfo> r_pdi(out_pdi->clone());
      const int ms = out_pdi->get_max_segment_num();
      // segment 0 stays (ProjData's standard segment order starts with it)
      const int slo = -int(R[0].get<long>() % (ms + 1)), shi = int(R[1].get<long>() % (ms + 1));
      r_pdi->reduce_segment_range(slo, shi);
      const int nt = out_pdi->get_num_tangential_poss();
      int cut_lo = int(R[2].get<long>() % 3), cut_hi = int(R[3].get<long>() % 3);
      if (cut_lo + cut_hi >= nt)
        cut_lo = cut_hi = 0;
      r_pdi->set_min_tangential_pos_num(out_pdi->get_min_tangential_pos_num() + cut_lo);
      r_pdi->set_max_tangential_pos_num(out_pdi->get_max_tangential_pos_num() - cut_hi);
      stats().cls("ssrb: caller-made output geometry");
      if (slo != -shi)
        stats().cls("ssrb: caller-made output geometry with a non-symmetric segment range");
      if (slo != -ms || shi != ms)
        stats().cls("ssrb: caller-made output geometry with fewer segments");
      if (cut_lo != cut_hi)
        stats().cls("ssrb: caller-made output geometry with a non-symmetric tangential range");
      std::map<BinKey, int> h_r;
      for (auto& kv : h_out)
        if (in_range(*r_pdi, Bin(std::get<0>(kv.first), std::get<2>(kv.first), std::get<1>(kv.first), std::get<3>(kv.first), std::get<4>(kv.first))))
          h_r.insert(kv);
      ProjDataInMemory r_data(exam, r_pdi);
      r_data.fill(3.F);
      SSRB(r_data, in_data, false);
      double total_r = 0;
      const Result r = compare_exact(r_data, h_r, cat("SSRB(do_norm=false) into a caller-made output (segments ", slo, "..", shi, ", tangential positions ",
                                                      r_pdi->get_min_tangential_pos_num(), "..", r_pdi->get_max_tangential_pos_num(), ")"),
                                     total_r);
      if (r.failed())
        return r;
    }

  // ---- SSRB with normalisation -----------------------------------------------------------------
  // number of input sinograms (ignoring TOF) that contribute to an output sinogram, from the ring-pair tables
  std::map<std::pair<int, int>, int> contributing;
  for (int s = pin->get_min_segment_num(); s <= pin->get_max_segment_num(); ++s)
    for (int a = pin->get_min_axial_pos_num(s); a <= pin->get_max_axial_pos_num(s); ++a)
      {
        const auto& rps = pin->get_all_ring_pairs_for_segment_axial_pos_num(s, a);
        std::set<std::pair<int, int>> targets;
        for (auto& rp : rps)
          {
            int so, ao;
            if (pout->get_segment_axial_pos_num_for_ring_pair(so, ao, rp.first, rp.second) == Succeeded::yes && so >= pout->get_min_segment_num()
                && so <= pout->get_max_segment_num() && ao >= pout->get_min_axial_pos_num(so) && ao <= pout->get_max_axial_pos_num(so))
              targets.insert(std::make_pair(so, ao));
            else
              targets.insert(std::make_pair(9999, 9999));
          }
        VF_CHECK(targets.size() <= 1, "ring pairs of input sinogram (seg ", s, ", ax ", a, ") are spread over ", targets.size(), " output sinograms");
        if (!targets.empty() && targets.begin()->first != 9999)
          ++contributing[*targets.begin()];
      }
  {
    ProjDataInMemory norm_data(exam, out_pdi);
    norm_data.fill(5.F);
    SSRB(norm_data, in_data, true);
    for (int s = pout->get_min_segment_num(); s <= pout->get_max_segment_num(); ++s)
      for (int k = pout->get_min_tof_pos_num(); k <= pout->get_max_tof_pos_num(); ++k)
        for (int a = pout->get_min_axial_pos_num(s); a <= pout->get_max_axial_pos_num(s); ++a)
          {
            auto it = contributing.find(std::make_pair(s, a));
            // "normalised" = average over the contributing input sinograms and over the views mashed together
            // (SSRB.h: do_normalisation; utilities/SSRB.cxx: "span=3 file with mashing factor 2, and would be normalised")
            const double factor = it == contributing.end() ? 1. : double(it->second) * nviews;
            if (nothing_trimmed || grouped_max_in_seg == in_pdi->get_max_segment_num())
              VF_CHECK(it != contributing.end(), "no input sinogram contributes to output sinogram (seg ", s, ", ax ", a, ") although all input segments are used");
            const Sinogram<float> sn = static_cast<const ProjData&>(norm_data).get_sinogram(Bin(s, 0, a, 0, k));
            const Sinogram<float> su = static_cast<const ProjData&>(out_data).get_sinogram(Bin(s, 0, a, 0, k));
            for (int v = pout->get_min_view_num(); v <= pout->get_max_view_num(); ++v)
              for (int t = pout->get_min_tangential_pos_num(); t <= pout->get_max_tangential_pos_num(); ++t)
                {
                  const double err = std::fabs(double(sn[v][t]) * factor - double(su[v][t]));
                  const double scale = std::max(1., double(su[v][t]));
                  stats().maxi("ssrb: max rel err normalised*factor vs un-normalised", err / scale);
                  // tolerance 1e-5: one float division (6e-8); a wrong count of sinograms changes the value by >= 1/17
                  VF_CHECK(err <= 1e-5 * scale, "do_norm=true: ", show(BinKey(s, a, v, t, k)), " = ", sn[v][t], ", times ", factor,
                           " (contributing input sinograms x views combined) != un-normalised value ", su[v][t]);
                }
          }
  }

  // ---- overload writing an Interfile file -------------------------------------------------------
  if (c.value("use_file", false))
    {
      stats().cls("ssrb: file-writing overload");
      const std::string stem = tmp_dir() + "/ssrb_out";
      struct Cleaner
      {
        std::string stem;
        ~Cleaner()
        {
          std::remove((stem + ".hs").c_str());
          std::remove((stem + ".s").c_str());
        }
      } cleaner{ stem };
      {
        AssertsOff guard(asserts_off_for_tof); // this overload builds the output geometry itself (same assertion as above)
        SSRB(stem, in_data, nseg, nviews, trim, false, max_in_seg, ntof);
      }
      shared_ptr<ProjData> back = ProjData::read_from_file(stem + ".hs");
      const ProjDataInfo& pb = *back->get_proj_data_info_sptr();
      VF_CHECK(pb.get_min_segment_num() == pout->get_min_segment_num() && pb.get_max_segment_num() == pout->get_max_segment_num()
                   && pb.get_num_views() == pout->get_num_views() && pb.get_min_tangential_pos_num() == pout->get_min_tangential_pos_num()
                   && pb.get_max_tangential_pos_num() == pout->get_max_tangential_pos_num() && pb.get_num_tof_poss() == pout->get_num_tof_poss(),
               "file written by SSRB(filename,...) has other ranges than SSRB(ProjDataInfo,...)");
      for (int s = pb.get_min_segment_num(); s <= pb.get_max_segment_num(); ++s)
        VF_CHECK(pb.get_min_axial_pos_num(s) == pout->get_min_axial_pos_num(s) && pb.get_max_axial_pos_num(s) == pout->get_max_axial_pos_num(s),
                 "file written by SSRB(filename,...): axial range of segment ", s, " differs");
      double total_file = 0;
      const Result r = compare_exact(*back, h_out, "SSRB(filename,...)", total_file);
      if (r.failed())
        return r;
    }
  return Result::pass();
}

// =================================================================================================
//                                             ZOOM
// =================================================================================================
typedef VoxelsOnCartesianGrid<float> Img;

struct Grid
{ // axis 0 = z, 1 = y, 2 = x
  int mn[3], mx[3];
  double v[3], o[3];
  int n(int a) const { return mx[a] - mn[a] + 1; }
  long size() const { return long(n(0)) * n(1) * n(2); }
  // physical coordinate of the centre of voxel i along axis a (zoom.h: x_phys = x_index*voxel_size.x + origin.x)
  double centre(int a, int i) const { return i * v[a] + o[a]; }
  double lo_edge(int a, int i) const { return (i - .5) * v[a] + o[a]; }
  double hi_edge(int a, int i) const { return (i + .5) * v[a] + o[a]; }
};

Grid
grid_of(const Img& im)
{
  Grid g;
  g.mn[0] = im.get_min_z();
  g.mx[0] = im.get_max_z();
  g.mn[1] = im.get_min_y();
  g.mx[1] = im.get_max_y();
  g.mn[2] = im.get_min_x();
  g.mx[2] = im.get_max_x();
  g.v[0] = im.get_voxel_size().z();
  g.v[1] = im.get_voxel_size().y();
  g.v[2] = im.get_voxel_size().x();
  g.o[0] = im.get_origin().z();
  g.o[1] = im.get_origin().y();
  g.o[2] = im.get_origin().x();
  return g;
}

struct Vol
{ // dense double copy of an image
  Grid g;
  std::vector<double> d;
  double& at(int z, int y, int x) { return d[(std::size_t(z - g.mn[0]) * g.n(1) + (y - g.mn[1])) * g.n(2) + (x - g.mn[2])]; }
  double at(int z, int y, int x) const { return d[(std::size_t(z - g.mn[0]) * g.n(1) + (y - g.mn[1])) * g.n(2) + (x - g.mn[2])]; }
  double sum() const
  {
    double s = 0;
    for (double x : d)
      s += x;
    return s;
  }
  double maxabs() const
  {
    double m = 0;
    for (double x : d)
      m = std::max(m, std::fabs(x));
    return m;
  }
};

Vol
vol_of(const Img& im)
{
  Vol v;
  v.g = grid_of(im);
  v.d.resize(std::size_t(v.g.size()));
  for (int z = v.g.mn[0]; z <= v.g.mx[0]; ++z)
    for (int y = v.g.mn[1]; y <= v.g.mx[1]; ++y)
      for (int x = v.g.mn[2]; x <= v.g.mx[2]; ++x)
        v.at(z, y, x) = im[z][y][x];
  return v;
}

//! weights of the count-preserving step-function resampling along one axis:
//! W[j][i] = fraction of input voxel i (a box of width v_in around its centre) that lies in output voxel j
std::vector<std::vector<double>>
overlap_weights(const Grid& in, const Grid& out, int a)
{
  std::vector<std::vector<double>> W(std::size_t(out.n(a)), std::vector<double>(std::size_t(in.n(a)), 0.));
  for (int j = out.mn[a]; j <= out.mx[a]; ++j)
    for (int i = in.mn[a]; i <= in.mx[a]; ++i)
      {
        const double lo = std::max(in.lo_edge(a, i), out.lo_edge(a, j));
        const double hi = std::min(in.hi_edge(a, i), out.hi_edge(a, j));
        if (hi > lo)
          W[std::size_t(j - out.mn[a])][std::size_t(i - in.mn[a])] = (hi - lo) / in.v[a];
      }
  return W;
}

//! reference: separable overlap interpolation in physical coordinates (sum preserving)
Vol
reference_zoom(const Vol& in, const Grid& out)
{
  const auto Wz = overlap_weights(in.g, out, 0), Wy = overlap_weights(in.g, out, 1), Wx = overlap_weights(in.g, out, 2);
  const int nzi = in.g.n(0), nyi = in.g.n(1), nxi = in.g.n(2);
  const int nzo = out.n(0), nyo = out.n(1), nxo = out.n(2);
  std::vector<double> t1(std::size_t(nzi) * nyi * nxo, 0.), t2(std::size_t(nzi) * nyo * nxo, 0.);
  for (int z = 0; z < nzi; ++z)
    for (int y = 0; y < nyi; ++y)
      for (int xo = 0; xo < nxo; ++xo)
        {
          double s = 0;
          for (int x = 0; x < nxi; ++x)
            s += Wx[xo][x] * in.d[(std::size_t(z) * nyi + y) * nxi + x];
          t1[(std::size_t(z) * nyi + y) * nxo + xo] = s;
        }
  for (int z = 0; z < nzi; ++z)
    for (int yo = 0; yo < nyo; ++yo)
      for (int xo = 0; xo < nxo; ++xo)
        {
          double s = 0;
          for (int y = 0; y < nyi; ++y)
            s += Wy[yo][y] * t1[(std::size_t(z) * nyi + y) * nxo + xo];
          t2[(std::size_t(z) * nyo + yo) * nxo + xo] = s;
        }
  Vol r;
  r.g = out;
  r.d.assign(std::size_t(nzo) * nyo * nxo, 0.);
  for (int zo = 0; zo < nzo; ++zo)
    for (int yo = 0; yo < nyo; ++yo)
      for (int xo = 0; xo < nxo; ++xo)
        {
          double s = 0;
          for (int z = 0; z < nzi; ++z)
            s += Wz[zo][z] * t2[(std::size_t(z) * nyo + yo) * nxo + xo];
          r.d[(std::size_t(zo) * nyo + yo) * nxo + xo] = s;
        }
  return r;
}

void
centre_of_mass(const Vol& v, double com[3])
{
  double s = 0, m[3] = { 0, 0, 0 };
  for (int z = v.g.mn[0]; z <= v.g.mx[0]; ++z)
    for (int y = v.g.mn[1]; y <= v.g.mx[1]; ++y)
      for (int x = v.g.mn[2]; x <= v.g.mx[2]; ++x)
        {
          const double w = v.at(z, y, x);
          s += w;
          m[0] += w * v.g.centre(0, z);
          m[1] += w * v.g.centre(1, y);
          m[2] += w * v.g.centre(2, x);
        }
  for (int a = 0; a < 3; ++a)
    com[a] = m[a] / s;
}

bool
same_index_range(const Grid& a, const Grid& b)
{
  for (int k = 0; k < 3; ++k)
    if (a.mn[k] != b.mn[k] || a.mx[k] != b.mx[k])
      return false;
  return true;
}

std::string
show(const Grid& g)
{
  return cat("[z ", g.mn[0], "..", g.mx[0], ", y ", g.mn[1], "..", g.mx[1], ", x ", g.mn[2], "..", g.mx[2], "; voxel (", g.v[0], ",", g.v[1], ",", g.v[2],
             "); origin (", g.o[0], ",", g.o[1], ",", g.o[2], ")]");
}

//! same sampling: identical index range; voxel sizes and origins equal up to float rounding of the origin computation
Result
same_grid(const Grid& a, const Grid& b, const std::string& what)
{
  VF_CHECK(same_index_range(a, b), what, ": index ranges differ: ", show(a), " vs ", show(b));
  for (int k = 0; k < 3; ++k)
    {
      VF_CHECK(std::fabs(a.v[k] - b.v[k]) <= 1e-6 * b.v[k], what, ": voxel sizes differ on axis ", k, ": ", show(a), " vs ", show(b));
      // origins are sums/differences of a few coordinates of magnitude <= extent: allow 1e-5 of the extent of the grid
      const double extent = std::fabs(b.o[k]) + b.v[k] * (std::abs(b.mn[k]) + std::abs(b.mx[k]) + 1);
      stats().maxi("zoom: max origin mismatch between overloads / extent", std::fabs(a.o[k] - b.o[k]) / extent);
      VF_CHECK(std::fabs(a.o[k] - b.o[k]) <= 1e-5 * extent, what, ": origins differ on axis ", k, ": ", show(a), " vs ", show(b));
    }
  return Result::pass();
}

//! max |a-b| / scale, scale = max(max|b|, floor_scale).
//! floor_scale is the natural magnitude of a zoomed voxel, (largest input value) x (output voxel volume / input voxel
//! volume) [x option factor]: when the new grid only touches the rim of the object, the whole result is rounding noise
//! of the grid positions (1e-7 of a voxel) and "relative to the largest reference value" would be meaningless.
Result
same_values(const Vol& a, const Vol& b, double tol, const std::string& what, const char* stat_name, double floor_scale)
{
  VF_CHECK(same_index_range(a.g, b.g), what, ": index ranges differ: ", show(a.g), " vs ", show(b.g));
  const double scale = std::max(std::max(b.maxabs(), floor_scale), 1e-30);
  double worst = 0;
  std::size_t where = 0;
  for (std::size_t i = 0; i < a.d.size(); ++i)
    {
      const double e = std::fabs(a.d[i] - b.d[i]);
      if (!(e <= worst))
        {
          worst = e;
          where = i;
        }
    }
  if (stat_name)
    stats().maxi(stat_name, worst / scale);
  if (!(worst <= tol * scale))
    {
      const int nx = b.g.n(2), ny = b.g.n(1);
      const int x = int(where % nx) + b.g.mn[2], y = int((where / nx) % ny) + b.g.mn[1], z = int(where / (std::size_t(nx) * ny)) + b.g.mn[0];
      return Result::fail(cat(what, ": at (z ", z, ", y ", y, ", x ", x, ") ", a.d[where], " vs ", b.d[where], " (difference ", worst, ", max of reference ", scale,
                              ", tolerance rel ", tol, "); output grid ", show(b.g)));
    }
  return Result::pass();
}

//! by how many (output) voxels two samplings of the same index range differ at most, summed over the axes in the mask:
//! |difference of origins| / voxel + (number of voxels) x |relative difference of voxel sizes|.
//! Resampling a step function on a grid shifted by d voxels changes every value by at most 2 d max|image|.
double
grid_shift(const Grid& a, const Grid& b, bool use_z = true, bool use_y = true, bool use_x = true)
{
  const bool use[3] = { use_z, use_y, use_x };
  double d = 0;
  for (int k = 0; k < 3; ++k)
    if (use[k])
      d += std::fabs(a.o[k] - b.o[k]) / b.v[k] + (std::max(std::abs(b.mn[k]), std::abs(b.mx[k])) + 1) * std::fabs(a.v[k] - b.v[k]) / b.v[k];
  return d;
}

#define VF_TRY(expr)                                                                                                             \
  do                                                                                                                             \
    {                                                                                                                            \
      const ::vf::Result vf_r_ = (expr);                                                                                         \
      if (vf_r_.failed())                                                                                                        \
        return vf_r_;                                                                                                            \
    }                                                                                                                            \
  while (0)

shared_ptr<Img>
make_input_image(const json& c)
{
  const json& j = c["img"];
  const int nz = j["n"][0], ny = j["n"][1], nx = j["n"][2];
  const int mz = j["min"][0], my = j["min"][1], mx = j["min"][2];
  shared_ptr<ExamInfo> exam(new ExamInfo(ImagingModality::PT));
  shared_ptr<Img> im(new Img(exam, IndexRange3D(mz, mz + nz - 1, my, my + ny - 1, mx, mx + nx - 1),
                             CartesianCoordinate3D<float>(j["o"][0].get<float>(), j["o"][1].get<float>(), j["o"][2].get<float>()),
                             CartesianCoordinate3D<float>(j["v"][0].get<float>(), j["v"][1].get<float>(), j["v"][2].get<float>())));
  im->fill(0.F);
  // random non-negative data inside the support box
  const json& s = c["sup"];
  SplitMix g(c["data_seed"].get<uint64_t>());
  const double amp = c["amp"];
  const int fill_percent = c["fill_percent"];
  for (int z = s["lo"][0].get<int>(); z <= s["hi"][0].get<int>(); ++z)
    for (int y = s["lo"][1].get<int>(); y <= s["hi"][1].get<int>(); ++y)
      for (int x = s["lo"][2].get<int>(); x <= s["hi"][2].get<int>(); ++x)
        {
          const bool on = g.range(1, 100) <= fill_percent;
          const double val = g.real(0.05, 1.) * amp;
          if (on)
            (*im)[mz + z][my + y][mx + x] = float(val);
        }
  if (c["blk"].is_object())
    {
      const json& b = c["blk"];
      for (int z = b["lo"][0].get<int>(); z <= b["hi"][0].get<int>(); ++z)
        for (int y = b["lo"][1].get<int>(); y <= b["hi"][1].get<int>(); ++y)
          for (int x = b["lo"][2].get<int>(); x <= b["hi"][2].get<int>(); ++x)
            (*im)[mz + z][my + y][mx + x] = float(b["c"].get<double>() * amp);
    }
  return im;
}

const ZoomOptions::Scaling all_options[3] = { ZoomOptions::preserve_sum, ZoomOptions::preserve_values, ZoomOptions::preserve_projections };
const char* const option_names[3] = { "preserve_sum", "preserve_values", "preserve_projections" };

// Tolerances (rel = relative to the largest value of the reference image), see the report / stats maxima:
const double TOL_REF = 1e-4;      // STIR result vs. the harness's double-precision overlap resampling
const double TOL_SUM = 1e-4;      // property text
const double TOL_UNIFORM = 1e-4;  // property text / DESIGN
const double TOL_FACTOR = 1e-5;   // DESIGN: options differ by the global factor only
const double TOL_OVERLOAD = 1e-5; // DESIGN: all overloads and the two-step composition agree
const double TOL_ROUTES = 5e-5;   // routes through the transaxial overloads (different arithmetic: per-plane 2D zoom, z not resampled)

// ---- the library's centre-of-gravity functions vs the harness's own centre of mass ---------------------------------
// Tolerance: the library accumulates sum_i i*a_i and the sums in float over up to 60^3 voxels; compared relative to the
// extent of the grid (|origin| + size): observed maxima see stats; a voxel index off by one moves the result by >= extent/61.
const double TOL_COG = 1e-5;

Result
check_centre_of_gravity(const Img& im, const Vol& v, const std::string& which)
{
  const double sum = v.sum();
  if (sum == 0)
    { // centre_of_gravity.h, find_centre_of_gravity: "When the sum is 0, error() is called"
      bool reported = false;
      try
        {
          find_centre_of_gravity_in_mm(im);
        }
      catch (const std::runtime_error&)
        {
          reported = true;
        }
      VF_CHECK(reported, "find_centre_of_gravity_in_mm(", which, "): the image sums to 0 but no error() was raised");
      stats().cls("cog: all-zero image reported with error()");
      return Result::pass();
    }
  double com[3];
  centre_of_mass(v, com);
  double extent[3];
  for (int a = 0; a < 3; ++a)
    extent[a] = v.g.v[a] * v.g.n(a) + std::fabs(v.g.o[a]) + v.g.v[a] * std::max(std::abs(v.g.mn[a]), std::abs(v.g.mx[a]));
  double abs_sum = 0;
  for (double x : v.d)
    abs_sum += std::fabs(x);
  const bool non_negative = abs_sum == sum; // with cancelling signs the quotient is ill-conditioned: only the per-plane part then
  const CartesianCoordinate3D<float> lib = find_centre_of_gravity_in_mm(im);
  const BasicCoordinate<3, float> lib_idx = find_centre_of_gravity(static_cast<const Array<3, float>&>(im));
  const BasicCoordinate<3, float> lib_unw = find_unweighted_centre_of_gravity(static_cast<const Array<3, float>&>(im));
  for (int a = 0; a < 3 && non_negative; ++a)
    {
      stats().maxi("cog: max |find_centre_of_gravity_in_mm - own| / extent", std::fabs(double(lib[a + 1]) - com[a]) / extent[a]);
      VF_CHECK(std::fabs(double(lib[a + 1]) - com[a]) <= TOL_COG * extent[a], "find_centre_of_gravity_in_mm(", which, ") on axis ", a, " = ", lib[a + 1],
               " mm, the centre of mass of the voxel centres is ", com[a], " mm; grid ", show(v.g));
      // index units: x_phys = x_index*voxel_size + origin (zoom.h)
      const double idx = (com[a] - v.g.o[a]) / v.g.v[a];
      const double idx_scale = std::max(std::abs(v.g.mn[a]), std::abs(v.g.mx[a])) + v.g.n(a);
      stats().maxi("cog: max |find_centre_of_gravity - own| / index extent", std::fabs(double(lib_idx[a + 1]) - idx) / idx_scale);
      VF_CHECK(std::fabs(double(lib_idx[a + 1]) - idx) <= TOL_COG * idx_scale, "find_centre_of_gravity(", which, ") on axis ", a, " = ", lib_idx[a + 1],
               " (index units), the centre of mass is at index ", idx);
      // "C_k = sum i_k A": the centre of gravity times the sum
      stats().maxi("cog: max |find_unweighted_centre_of_gravity - own*sum| / (index extent*sum)", std::fabs(double(lib_unw[a + 1]) - idx * sum) / (idx_scale * sum));
      VF_CHECK(std::fabs(double(lib_unw[a + 1]) - idx * sum) <= TOL_COG * idx_scale * sum, "find_unweighted_centre_of_gravity(", which, ") on axis ", a, " = ",
               lib_unw[a + 1], ", sum_i i*a_i = ", idx * sum);
    }
  // per plane
  VectorWithOffset<CartesianCoordinate3D<float>> all;
  VectorWithOffset<float> weights;
  find_centre_of_gravity_in_mm_per_plane(all, weights, im);
  VF_CHECK(all.get_min_index() == v.g.mn[0] && all.get_max_index() == v.g.mx[0] && weights.get_min_index() == v.g.mn[0] && weights.get_max_index() == v.g.mx[0],
           "find_centre_of_gravity_in_mm_per_plane(", which, "): results are indexed ", all.get_min_index(), "..", all.get_max_index(), ", the planes are ", v.g.mn[0], "..",
           v.g.mx[0]);
  for (int z = v.g.mn[0]; z <= v.g.mx[0]; ++z)
    {
      double ps = 0, pa = 0, my = 0, mx = 0;
      for (int y = v.g.mn[1]; y <= v.g.mx[1]; ++y)
        for (int x = v.g.mn[2]; x <= v.g.mx[2]; ++x)
          {
            const double w = v.at(z, y, x);
            ps += w;
            pa += std::fabs(w);
            my += w * v.g.centre(1, y);
            mx += w * v.g.centre(2, x);
          }
      // "The weight is currently simply the sum of the voxel values in that plane, thresholded to be at least 0"
      const double want_w = std::max(ps, 0.);
      VF_CHECK(std::fabs(double(weights[z]) - want_w) <= 1e-5 * std::max(pa, 1e-30), "find_centre_of_gravity_in_mm_per_plane(", which, "): weight of plane ", z, " = ",
               weights[z], ", the plane sums to ", ps);
      VF_CHECK(std::fabs(double(all[z].z()) - v.g.centre(0, z)) <= TOL_COG * extent[0], "find_centre_of_gravity_in_mm_per_plane(", which, "): z of plane ", z, " = ",
               all[z].z(), " mm, the plane is at ", v.g.centre(0, z), " mm");
      if (ps > 0 && pa == ps && weights[z] > 0)
        { // (for a zero weight "the x,y coordinates are simply set to 0": nothing to compare with)
          stats().maxi("cog: max |per-plane centre - own| / extent",
                       std::max(std::fabs(double(all[z].y()) - my / ps) / extent[1], std::fabs(double(all[z].x()) - mx / ps) / extent[2]));
          VF_CHECK(std::fabs(double(all[z].y()) - my / ps) <= TOL_COG * extent[1] && std::fabs(double(all[z].x()) - mx / ps) <= TOL_COG * extent[2],
                   "find_centre_of_gravity_in_mm_per_plane(", which, "): plane ", z, " has its centre at (y ", all[z].y(), ", x ", all[z].x(),
                   ") mm, the centre of mass of the voxel centres is (y ", my / ps, ", x ", mx / ps, ") mm; grid ", show(v.g));
        }
    }
  stats().cls("cog: library vs own centre of mass");
  return Result::pass();
}

//! dense copy of a 2-D image as a one-plane volume at plane \a z with the z sampling of \a like
Vol
vol_of_plane(const PixelsOnCartesianGrid<float>& im, const Grid& like, int z)
{
  Vol v;
  v.g = like;
  v.g.mn[0] = v.g.mx[0] = z;
  v.g.mn[1] = im.get_min_y();
  v.g.mx[1] = im.get_max_y();
  v.g.mn[2] = im.get_min_x();
  v.g.mx[2] = im.get_max_x();
  v.g.v[1] = im.get_pixel_size().y();
  v.g.v[2] = im.get_pixel_size().x();
  v.g.o[1] = im.get_origin().y();
  v.g.o[2] = im.get_origin().x();
  v.d.resize(std::size_t(v.g.size()));
  for (int y = v.g.mn[1]; y <= v.g.mx[1]; ++y)
    for (int x = v.g.mn[2]; x <= v.g.mx[2]; ++x)
      v.at(z, y, x) = im[y][x];
  return v;
}

Result
check_zoom(const json& c)
{
  shared_ptr<Img> in_sptr = make_input_image(c);
  const Img& in = *in_sptr;
  const Vol vin = vol_of(in);
  const double in_sum = vin.sum();
  const CartesianCoordinate3D<float> zooms(c["zoom"][0].get<float>(), c["zoom"][1].get<float>(), c["zoom"][2].get<float>());
  const CartesianCoordinate3D<float> offs(c["off"][0].get<float>(), c["off"][1].get<float>(), c["off"][2].get<float>());
  const CartesianCoordinate3D<int> sizes(c["sizes"][0].get<int>(), c["sizes"][1].get<int>(), c["sizes"][2].get<int>());
  const bool standard_xy = vin.g.mn[1] == -(vin.g.n(1) / 2) && vin.g.mn[2] == -(vin.g.n(2) / 2);
  const bool standard_z = vin.g.mn[0] == 0;
  stats().cls("zoom");
  stats().cls(cat("zoom: size class '", c["size_class"].get<std::string>(), "'"));
  if (!standard_xy || !standard_z)
    stats().cls("zoom: input with non-standard index range");

  // support of the input (bounding box of the non-zero voxels)
  int smin[3] = { 1 << 20, 1 << 20, 1 << 20 }, smax[3] = { -(1 << 20), -(1 << 20), -(1 << 20) };
  for (int z = vin.g.mn[0]; z <= vin.g.mx[0]; ++z)
    for (int y = vin.g.mn[1]; y <= vin.g.mx[1]; ++y)
      for (int x = vin.g.mn[2]; x <= vin.g.mx[2]; ++x)
        if (vin.at(z, y, x) != 0)
          {
            const int idx[3] = { z, y, x };
            for (int a = 0; a < 3; ++a)
              {
                smin[a] = std::min(smin[a], idx[a]);
                smax[a] = std::max(smax[a], idx[a]);
              }
          }
  const bool empty = in_sum == 0;
  if (empty)
    stats().cls("zoom: empty image");

  // ---- overload A (new image returned), the three options -------------------------------------
  std::vector<Img> A;
  for (int o = 0; o < 3; ++o)
    A.push_back(zoom_image(in, zooms, offs, sizes, ZoomOptions(all_options[o])));
  const Grid gout = grid_of(A[0]);
  const Vol vA[3] = { vol_of(A[0]), vol_of(A[1]), vol_of(A[2]) };

  // geometry of the new image (zoom.h, zoom_image_in_place): sizes as asked, standard index ranges,
  // voxel size = old/zoom, geometric centre moved by the offsets
  for (int a = 0; a < 3; ++a)
    {
      const int want_min = a == 0 ? 0 : -(sizes[a + 1] / 2);
      VF_CHECK(gout.n(a) == sizes[a + 1] && gout.mn[a] == want_min, "new image index range on axis ", a, " is ", gout.mn[a], "..", gout.mx[a], " for new size ",
               sizes[a + 1]);
      VF_CHECK(std::fabs(gout.v[a] - vin.g.v[a] / double(zooms[a + 1])) <= 1e-5 * gout.v[a], "new voxel size on axis ", a, " is ", gout.v[a], ", expected ",
               vin.g.v[a], "/", zooms[a + 1]);
      const double old_mid = (vin.g.centre(a, vin.g.mn[a]) + vin.g.centre(a, vin.g.mx[a])) / 2;
      const double new_mid = (gout.centre(a, gout.mn[a]) + gout.centre(a, gout.mx[a])) / 2;
      const double extent = std::fabs(old_mid) + std::fabs(double(offs[a + 1])) + vin.g.v[a] * vin.g.n(a) + gout.v[a] * gout.n(a);
      stats().maxi("zoom: max |new_middle - old_middle - offset| / extent", std::fabs(new_mid - old_mid - double(offs[a + 1])) / extent);
      VF_CHECK(std::fabs(new_mid - old_mid - double(offs[a + 1])) <= 1e-5 * extent, "axis ", a, ": new middle ", new_mid, " - old middle ", old_mid,
               " != offset ", offs[a + 1], " (zoom.h: offsets_in_mm == new_middle - old_middle)");
    }
  for (int o = 1; o < 3; ++o)
    VF_TRY(same_grid(grid_of(A[o]), gout, cat("grid of option ", option_names[o], " vs preserve_sum")));

  // the factors as zoom_image documents/computes them: zoom = voxel_size_in / voxel_size_out
  const double zf[3] = { vin.g.v[0] / gout.v[0], vin.g.v[1] / gout.v[1], vin.g.v[2] / gout.v[2] };
  int non_unit = 0;
  for (int a = 0; a < 3; ++a)
    if (std::fabs(zf[a] - 1.) > 1e-3)
      ++non_unit;

  // natural magnitude of an output voxel per option (see same_values)
  const double S[3] = { vin.maxabs() / (zf[0] * zf[1] * zf[2]), vin.maxabs(), vin.maxabs() / zf[2] };

  // ---- clause Z0: physical positions: equals the step-function resampling on the physical grids --
  const Vol ref = reference_zoom(vin, gout);
  VF_TRY(same_values(vA[0], ref, TOL_REF, "zoom_image(preserve_sum) vs overlap resampling in physical coordinates", "zoom: max rel err vs reference resampling", S[0]));

  // ---- coverage: the new grid covers the support plus one (input) voxel on every side -----------
  bool covers = !empty;
  if (!empty)
    for (int a = 0; a < 3; ++a)
      {
        const double lo = vin.g.lo_edge(a, smin[a]) - vin.g.v[a], hi = vin.g.hi_edge(a, smax[a]) + vin.g.v[a];
        if (!(gout.lo_edge(a, gout.mn[a]) <= lo && gout.hi_edge(a, gout.mx[a]) >= hi))
          covers = false;
      }
  if (!empty)
    stats().cls(covers ? "zoom: new grid covers the object" : "zoom: new grid truncates the object");

  // ---- clause Z1: sum -----------------------------------------------------------------------------
  const double out_sum = vA[0].sum();
  if (covers)
    {
      stats().maxi("zoom: max rel err of the sum (covered)", std::fabs(out_sum - in_sum) / in_sum);
      VF_CHECK(std::fabs(out_sum - in_sum) <= TOL_SUM * in_sum, "preserve_sum: sum of the zoomed image ", out_sum, " != sum of the input ", in_sum,
               " although the new grid ", show(gout), " covers the object");
    }
  else if (!empty) // non-negative data: truncation can only lose counts
    VF_CHECK(out_sum <= in_sum * (1 + TOL_SUM), "preserve_sum: sum grew from ", in_sum, " to ", out_sum);
  else
    VF_CHECK(vA[0].maxabs() == 0, "zoom of an all-zero image is not zero");

  // ---- clause Z2: centre of mass -----------------------------------------------------------------
  if (covers)
    {
      double ci[3], co[3];
      centre_of_mass(vin, ci);
      centre_of_mass(vA[0], co);
      const CartesianCoordinate3D<float> stir_in = find_centre_of_gravity_in_mm(in), stir_out = find_centre_of_gravity_in_mm(A[0]);
      for (int a = 0; a < 3; ++a)
        {
          const double bound = (vin.g.v[a] + gout.v[a]) / 2;
          stats().maxi("zoom: max |centre of mass shift| / ((in voxel + out voxel)/2)", std::fabs(co[a] - ci[a]) / bound);
          VF_CHECK(std::fabs(co[a] - ci[a]) <= bound, "preserve_sum: centre of mass on axis ", a, " moved from ", ci[a], " mm to ", co[a], " mm (allowed ", bound,
                   " mm); new grid ", show(gout));
          // the same with the library's helper (float accumulation: allow 1e-3 of the voxel on top)
          const double extent_in = vin.g.v[a] * vin.g.n(a) + std::fabs(vin.g.o[a]), extent_out = gout.v[a] * gout.n(a) + std::fabs(gout.o[a]);
          stats().maxi("zoom: max |find_centre_of_gravity_in_mm - own| / extent",
                       std::max(std::fabs(double(stir_in[a + 1]) - ci[a]) / extent_in, std::fabs(double(stir_out[a + 1]) - co[a]) / extent_out));
          VF_CHECK(std::fabs(double(stir_out[a + 1]) - double(stir_in[a + 1])) <= bound + 1e-4 * (extent_in + extent_out),
                   "preserve_sum: find_centre_of_gravity_in_mm on axis ", a, " moved from ", stir_in[a + 1], " to ", stir_out[a + 1], " (allowed ", bound, ")");
        }
    }

  // ---- clause Z4: the options differ by the documented global factors only -------------------------
  {
    Vol want_v = vA[0], want_p = vA[0];
    for (auto& x : want_v.d)
      x *= zf[0] * zf[1] * zf[2];
    for (auto& x : want_p.d)
      x *= zf[0] * zf[1];
    VF_TRY(same_values(vA[1], want_v, TOL_FACTOR, "preserve_values vs zoom_x*zoom_y*zoom_z * preserve_sum", "zoom: max rel err of the option factors", S[1]));
    VF_TRY(same_values(vA[2], want_p, TOL_FACTOR, "preserve_projections vs zoom_y*zoom_z * preserve_sum", "zoom: max rel err of the option factors", S[2]));
  }

  // ---- clause Z3: preserve_values keeps uniform regions uniform -----------------------------------
  if (c["blk"].is_object())
    {
      const json& b = c["blk"];
      const double cval = double(float(b["c"].get<double>() * c["amp"].get<double>()));
      double blo[3], bhi[3];
      for (int a = 0; a < 3; ++a)
        {
          blo[a] = vin.g.lo_edge(a, vin.g.mn[a] + b["lo"][a].get<int>());
          bhi[a] = vin.g.hi_edge(a, vin.g.mn[a] + b["hi"][a].get<int>());
        }
      long interior = 0;
      for (int z = gout.mn[0]; z <= gout.mx[0]; ++z)
        for (int y = gout.mn[1]; y <= gout.mx[1]; ++y)
          for (int x = gout.mn[2]; x <= gout.mx[2]; ++x)
            {
              const int idx[3] = { z, y, x };
              bool inside = true;
              for (int a = 0; a < 3; ++a)
                { // kernel support (the output voxel's own box: overlap interpolation) plus one input voxel on every side
                  const double margin = vin.g.v[a];
                  if (!(gout.lo_edge(a, idx[a]) - margin >= blo[a] && gout.hi_edge(a, idx[a]) + margin <= bhi[a]))
                    inside = false;
                }
              if (!inside)
                continue;
              ++interior;
              const double got = vA[1].at(z, y, x);
              stats().maxi("zoom: max rel err of a uniform region (preserve_values)", std::fabs(got - cval) / cval);
              VF_CHECK(std::fabs(got - cval) <= TOL_UNIFORM * cval, "preserve_values: output voxel (z ", z, ", y ", y, ", x ", x, ") = ", got,
                       " lies well inside a region of constant value ", cval, "; new grid ", show(gout));
            }
      stats().count("zoom: interior voxels of uniform regions checked", interior);
      if (interior > 0)
        stats().cls("zoom: uniform region with interior output voxels");
    }

  // ---- clause Z5: overloads ---------------------------------------------------------------------------
  for (int o = 0; o < 3; ++o)
    {
      const ZoomOptions opt(all_options[o]);
      // B: in place
      {
        Img b(in);
        zoom_image_in_place(b, zooms, offs, sizes, opt);
        VF_TRY(same_grid(grid_of(b), gout, cat("zoom_image_in_place (", option_names[o], ") grid")));
        VF_TRY(same_values(vol_of(b), vA[o], TOL_OVERLOAD, cat("zoom_image_in_place (", option_names[o], ") vs zoom_image returning a new image"),
                           "zoom: max rel diff in-place/output-image overloads vs returning overload", S[o]));
      }
      // C: output image given (same sampling as A), filled with stale values that must be replaced
      {
        Img out(A[o].get_exam_info_sptr(), A[o].get_index_range(), A[o].get_origin(), A[o].get_voxel_size());
        out.fill(float(123. * c["amp"].get<double>()));
        zoom_image(out, in, opt);
        VF_TRY(same_values(vol_of(out), vA[o], TOL_OVERLOAD, cat("zoom_image(out,in) (", option_names[o], ") vs zoom_image returning a new image"),
                           "zoom: max rel diff in-place/output-image overloads vs returning overload", S[o]));
      }
      // E2: two steps through the output-image overload: x,y first (input planes kept), then z
      {
        Img mid(in.get_exam_info_sptr(), IndexRange3D(vin.g.mn[0], vin.g.mx[0], gout.mn[1], gout.mx[1], gout.mn[2], gout.mx[2]),
                CartesianCoordinate3D<float>(in.get_origin().z(), A[o].get_origin().y(), A[o].get_origin().x()),
                CartesianCoordinate3D<float>(in.get_voxel_size().z(), A[o].get_voxel_size().y(), A[o].get_voxel_size().x()));
        zoom_image(mid, in, opt);
        Img out(A[o].get_exam_info_sptr(), A[o].get_index_range(), A[o].get_origin(), A[o].get_voxel_size());
        zoom_image(out, mid, opt);
        VF_TRY(same_values(vol_of(out), vA[o], TOL_OVERLOAD, cat("two steps (xy then z) through zoom_image(out,in) (", option_names[o], ") vs one call"),
                           "zoom: max rel diff two-step (output image given) vs one call", S[o]));
      }
    }

  // ---- clause Z5b: the defaulted ZoomOptions argument is preserve_sum (zoom.h) ------------------------------------------
  {
    const Img dflt = zoom_image(in, zooms, offs, sizes);
    VF_TRY(same_values(vol_of(dflt), vA[0], 0., "zoom_image(image,zooms,offsets,sizes) without ZoomOptions vs preserve_sum", nullptr, S[0]));
    Img b(in);
    zoom_image_in_place(b, zooms, offs, sizes);
    VF_TRY(same_values(vol_of(b), vA[0], 0., "zoom_image_in_place(image,zooms,offsets,sizes) without ZoomOptions vs preserve_sum", nullptr, S[0]));
    Img out(A[0].get_exam_info_sptr(), A[0].get_index_range(), A[0].get_origin(), A[0].get_voxel_size());
    out.fill(float(55. * c["amp"].get<double>()));
    zoom_image(out, in);
    VF_TRY(same_values(vol_of(out), vA[0], 0., "zoom_image(out,in) without ZoomOptions vs preserve_sum", nullptr, S[0]));
    // ZoomOptions.h: "calls error() if out-of-range"
    bool reported = false;
    try
      {
        ZoomOptions bad(static_cast<ZoomOptions::Scaling>(3 + int(c["sizes"][0].get<int>() % 3)));
        (void)bad;
      }
    catch (const std::runtime_error&)
      {
        reported = true;
      }
    VF_CHECK(reported, "ZoomOptions accepted an out-of-range scaling value");
  }

  // ---- clause Z6: the 2-D overload zoom_image(PixelsOnCartesianGrid& out, const PixelsOnCartesianGrid& in, ZoomOptions) ----
  //   called directly on one plane of the input with independent x and y zooms, offsets, sizes and index ranges (the
  //   y,x sampling of the new image of this case, and of the free output grid if there is one), output pre-filled.
  //   Oracles: (i) the step-function resampling of the plane in physical coordinates, times the global factor that the
  //   3-D documentation gives for a volume whose z sampling is not changed (1, zoom_x*zoom_y, zoom_y);
  //   (ii) the 3-D overload on the same data held as a one-plane volume.
  {
    const int zp = vin.g.mn[0] + int(c.value("plane2d", 0) % vin.g.n(0));
    const PixelsOnCartesianGrid<float> in2 = in.get_plane(zp);
    Img in3(in.get_exam_info_sptr(), IndexRange3D(zp, zp, vin.g.mn[1], vin.g.mx[1], vin.g.mn[2], vin.g.mx[2]), in.get_origin(), in.get_voxel_size());
    in3[zp] = in[zp];
    const Vol vin3 = vol_of(in3);
    struct G2
    {
      int mny, ny, mnx, nx;
      float oy, ox, vy, vx;
      const char* name;
    };
    std::vector<G2> grids;
    grids.push_back({ gout.mn[1], gout.n(1), gout.mn[2], gout.n(2), A[0].get_origin().y(), A[0].get_origin().x(), A[0].get_voxel_size().y(),
                      A[0].get_voxel_size().x(), "y,x sampling of the new image" });
    if (c["out2"].is_object())
      {
        const json& j = c["out2"];
        grids.push_back({ j["min"][1].get<int>(), j["n"][1].get<int>(), j["min"][2].get<int>(), j["n"][2].get<int>(), j["o"][1].get<float>(), j["o"][2].get<float>(),
                          j["v"][1].get<float>(), j["v"][2].get<float>(), "y,x sampling of the free output grid" });
      }
    { // the sampling of the input itself on another (or, one time in four, the same) index range: the "nothing to do" shortcut
      // of the 2-D overload applies only when the index ranges agree as well
      const int k = c.value("plane2d", 0) + vin.g.n(1) + 2 * vin.g.n(2);
      const int dy0 = k % 4 == 0 ? 0 : (k % 3) - 1, dy1 = k % 4 == 0 ? 0 : ((k / 3) % 3) - 1, dx0 = k % 4 == 0 ? 0 : ((k / 9) % 3) - 1,
                dx1 = k % 4 == 0 ? 0 : ((k / 27) % 3) - 1;
      const int mny = vin.g.mn[1] + dy0, mxy = std::max(mny, vin.g.mx[1] + dy1), mnx = vin.g.mn[2] + dx0, mxx = std::max(mnx, vin.g.mx[2] + dx1);
      grids.push_back({ mny, mxy - mny + 1, mnx, mxx - mnx + 1, in.get_origin().y(), in.get_origin().x(), in.get_voxel_size().y(), in.get_voxel_size().x(),
                        "sampling of the input on another index range" });
      stats().cls(k % 4 == 0 ? "zoom: 2-D overload with nothing to do" : "zoom: 2-D overload, same sampling, other index range");
    }
    for (const G2& g2 : grids)
      {
        const double zy = vin.g.v[1] / double(g2.vy), zx = vin.g.v[2] / double(g2.vx);
        if (std::fabs(zy - zx) > 1e-3 * zx)
          stats().cls("zoom: 2-D overload called directly with zoom_x != zoom_y");
        else
          stats().cls("zoom: 2-D overload called directly with zoom_x == zoom_y");
        const double f2[3] = { 1., zx * zy, zy };
        Vol ref2;
        for (int o = 0; o < 3; ++o)
          {
            const ZoomOptions opt(all_options[o]);
            PixelsOnCartesianGrid<float> out2(IndexRange2D(g2.mny, g2.mny + g2.ny - 1, g2.mnx, g2.mnx + g2.nx - 1),
                                              CartesianCoordinate3D<float>(in.get_origin().z(), g2.oy, g2.ox), Coordinate2D<float>(g2.vy, g2.vx));
            out2.fill(float(321. * c["amp"].get<double>()));
            if (o == 0 && c.value("plane2d", 0) % 2 == 1)
              zoom_image(out2, in2); // defaulted ZoomOptions
            else
              zoom_image(out2, in2, opt);
            VF_CHECK(out2.get_min_y() == g2.mny && out2.get_y_size() == g2.ny && out2.get_min_x() == g2.mnx && out2.get_x_size() == g2.nx,
                     "2-D zoom_image changed the index range of the output image");
            const Vol got = vol_of_plane(out2, vin.g, zp);
            if (o == 0)
              ref2 = reference_zoom(vin3, got.g);
            Vol want = ref2;
            for (auto& x : want.d)
              x *= f2[o];
            const double S2 = vin3.maxabs() / (zx * zy) * f2[o];
            VF_TRY(same_values(got, want, TOL_REF,
                               cat("2-D zoom_image(out,in) (", option_names[o], ", ", g2.name, ", zoom_x ", zx, ", zoom_y ", zy,
                                   ") vs overlap resampling of the plane in physical coordinates x ", f2[o]),
                               "zoom: max rel err of the 2-D overload vs reference resampling", S2));
            Img out3(in.get_exam_info_sptr(), IndexRange3D(zp, zp, g2.mny, g2.mny + g2.ny - 1, g2.mnx, g2.mnx + g2.nx - 1),
                     CartesianCoordinate3D<float>(in.get_origin().z(), g2.oy, g2.ox), CartesianCoordinate3D<float>(in.get_voxel_size().z(), g2.vy, g2.vx));
            out3.fill(float(-17. * c["amp"].get<double>()));
            zoom_image(out3, in3, opt);
            VF_TRY(same_values(got, vol_of(out3), TOL_OVERLOAD,
                               cat("2-D zoom_image(out,in) (", option_names[o], ", ", g2.name, ", zoom_x ", zx, ", zoom_y ", zy,
                                   ") vs the 3-D overload on the same plane held as a one-plane volume"),
                               "zoom: max rel diff 2-D overload vs 3-D overload on a one-plane volume", S2));
          }
      }
  }

  // ---- clause Z7: the library's centre-of-gravity functions (used as observation point by the library's own tests) -------
  VF_TRY(check_centre_of_gravity(in, vin, "input image"));
  VF_TRY(check_centre_of_gravity(A[0], vA[0], "zoomed image"));
  if (vin.g.n(0) >= 2 && !empty)
    { // a plane with a negative sum: its weight is documented to be 0
      Img neg(in);
      const int zn = vin.g.mn[0] + int(c.value("plane2d", 0) % vin.g.n(0));
      neg[zn] *= -1.F;
      const Vol vneg = vol_of(neg);
      if (vneg.sum() != 0)
        VF_TRY(check_centre_of_gravity(neg, vneg, "input image with one plane negated"));
    }

  // ---- clause Z8: indices <-> millimetres (DiscretisedDensityOnCartesianGrid.inl): the relation every clause above rests on ---
  //   zoom.h: x_phys = x_index*voxel_size.x + origin.x, via DiscretisedDensity::get_physical_coordinates_for_indices
  {
    SplitMix gi(c["data_seed"].get<uint64_t>() ^ 0x5bd1e995ULL);
    const Img* both[2] = { &in, &A[0] };
    for (const Img* im : both)
      {
        const Grid g = grid_of(*im);
        for (int k = 0; k < 3; ++k)
          {
            BasicCoordinate<3, float> fi;
            for (int a = 0; a < 3; ++a)
              fi[a + 1] = float(gi.real(g.mn[a] - 2., g.mx[a] + 2.));
            const CartesianCoordinate3D<float> ph = im->get_physical_coordinates_for_indices(fi);
            const BasicCoordinate<3, float> back = im->get_index_coordinates_for_physical_coordinates(ph);
            const BasicCoordinate<3, int> closest = im->get_indices_closest_to_physical_coordinates(ph);
            for (int a = 0; a < 3; ++a)
              {
                const double want = double(fi[a + 1]) * g.v[a] + g.o[a];
                const double extent = std::fabs(g.o[a]) + g.v[a] * (std::max(std::abs(g.mn[a]), std::abs(g.mx[a])) + 3);
                VF_CHECK(std::fabs(double(ph[a + 1]) - want) <= 1e-5 * extent, "get_physical_coordinates_for_indices: index ", fi[a + 1], " on axis ", a, " is at ",
                         ph[a + 1], " mm, index*voxel_size+origin = ", want, "; grid ", show(g));
                // back to indices: the difference of two numbers of size `extent` divided by the voxel size
                VF_CHECK(std::fabs(double(back[a + 1]) - double(fi[a + 1])) <= 1e-5 * extent / g.v[a], "get_index_coordinates_for_physical_coordinates(", ph[a + 1],
                         " mm) on axis ", a, " = ", back[a + 1], ", the point was made from index ", fi[a + 1]);
                const double frac = double(fi[a + 1]) - std::floor(double(fi[a + 1]));
                if (std::fabs(frac - .5) > 1e-3 + 1e-5 * extent / g.v[a])
                  VF_CHECK(closest[a + 1] == int(std::floor(double(fi[a + 1]) + .5)), "get_indices_closest_to_physical_coordinates on axis ", a, " = ", closest[a + 1],
                           " for a point made from index ", fi[a + 1]);
              }
          }
      }
  }

  // C2: an arbitrary output grid (index range, origin and voxel sizes not following the conventions of the
  //     parameter overloads): zoom.h promises "physical coordinates of a point remain the same"
  if (c["out2"].is_object())
    {
      const json& j = c["out2"];
      const int nz = j["n"][0], ny = j["n"][1], nx = j["n"][2];
      const int mz = j["min"][0], my = j["min"][1], mx = j["min"][2];
      Img out(in.get_exam_info_sptr(), IndexRange3D(mz, mz + nz - 1, my, my + ny - 1, mx, mx + nx - 1),
              CartesianCoordinate3D<float>(j["o"][0].get<float>(), j["o"][1].get<float>(), j["o"][2].get<float>()),
              CartesianCoordinate3D<float>(j["v"][0].get<float>(), j["v"][1].get<float>(), j["v"][2].get<float>()));
      out.fill(float(77. * c["amp"].get<double>()));
      zoom_image(out, in, ZoomOptions(ZoomOptions::preserve_sum));
      const Vol got = vol_of(out);
      const Vol want = reference_zoom(vin, got.g);
      stats().cls("zoom: free output grid");
      const double S2 = vin.maxabs() * (got.g.v[0] / vin.g.v[0]) * (got.g.v[1] / vin.g.v[1]) * (got.g.v[2] / vin.g.v[2]);
      if (want.maxabs() > 0)
        VF_TRY(same_values(got, want, TOL_REF, "zoom_image(out,in) on a free output grid vs overlap resampling in physical coordinates",
                           "zoom: max rel err vs reference resampling", S2));
      else
        VF_CHECK(got.maxabs() == 0, "output grid does not meet the object but the result is not zero");
    }

  // C3: the sampling of the input itself on another (one time in four: the same) index range, output pre-filled: the
  //     "nothing to do" shortcut of zoom_image(out,in) applies only when the index ranges agree as well
  {
    const int k = c.value("plane2d", 0) + vin.g.n(0) + 2 * vin.g.n(1) + 5 * vin.g.n(2);
    int d[6];
    for (int i = 0, kk = k; i < 6; ++i, kk /= 3)
      d[i] = k % 4 == 0 ? 0 : (kk % 3) - 1;
    const int mz = vin.g.mn[0] + d[0], Mz = std::max(mz, vin.g.mx[0] + d[1]), my = vin.g.mn[1] + d[2], My = std::max(my, vin.g.mx[1] + d[3]),
              mx = vin.g.mn[2] + d[4], Mx = std::max(mx, vin.g.mx[2] + d[5]);
    stats().cls(k % 4 == 0 ? "zoom: 3-D output-image overload with nothing to do" : "zoom: 3-D output-image overload, same sampling, other index range");
    for (int o = 0; o < 3; ++o)
      {
        Img out(in.get_exam_info_sptr(), IndexRange3D(mz, Mz, my, My, mx, Mx), in.get_origin(), in.get_voxel_size());
        out.fill(float(-9. * c["amp"].get<double>()));
        zoom_image(out, in, ZoomOptions(all_options[o]));
        const Vol got = vol_of(out);
        VF_CHECK(got.g.mn[0] == mz && got.g.mx[0] == Mz && got.g.mn[1] == my && got.g.mx[1] == My && got.g.mn[2] == mx && got.g.mx[2] == Mx,
                 "zoom_image(out,in) changed the index range of the output image to ", show(got.g));
        Vol want = got; // all zoom factors are 1: the three options agree; voxels outside the input are 0
        for (int z = mz; z <= Mz; ++z)
          for (int y = my; y <= My; ++y)
            for (int x = mx; x <= Mx; ++x)
              want.at(z, y, x) = (z >= vin.g.mn[0] && z <= vin.g.mx[0] && y >= vin.g.mn[1] && y <= vin.g.mx[1] && x >= vin.g.mn[2] && x <= vin.g.mx[2]) ? vin.at(z, y, x) : 0.;
        VF_TRY(same_values(got, want, 1e-6, cat("zoom_image(out,in) (", option_names[o], ") onto the sampling of the input with index range ", show(got.g)), nullptr,
                           vin.maxabs()));
      }
  }

  // D/E1: the transaxial overloads (one zoom for x and y, one new size, planes kept).
  //   They index the planes of the new image (z from 0, "standard STIR conventions") with the input plane
  //   numbers and use get_x_size() for "nothing to do": only standard index ranges are in their domain.
  if (c.value("iso_xy", false) && standard_xy && standard_z)
    {
      stats().cls("zoom: transaxial (2D-parameter) overloads");
      const float zxy = zooms.x();
      const int nxy = sizes.x();
      // zoom_image(image, zoom, x_off, y_off, new_size) returns the input unchanged when there is nothing to do
      // (zoom==1, offsets==0 and new_size equal to both the x and the y size)
      if (zxy == 1.F && offs.x() == 0.F && offs.y() == 0.F && nxy == vin.g.n(2) && vin.g.n(1) != vin.g.n(2))
        stats().cls("zoom: transaxial overload, unit zoom, new size == x size != y size");
      for (int o = 0; o < 3; ++o)
        {
          const ZoomOptions opt(all_options[o]);
          const CartesianCoordinate3D<float> z3(1.F, zxy, zxy), o3(0.F, offs.y(), offs.x());
          const CartesianCoordinate3D<int> s3(vin.g.n(0), nxy, nxy);
          const Img want = zoom_image(in, z3, o3, s3, opt);
          const Vol vwant = vol_of(want);
          const double SD = vin.maxabs() / (zf[1] * zf[2]) * (o == 0 ? 1. : (o == 1 ? zf[1] * zf[2] : zf[1]));
          const Img d = zoom_image(in, zxy, offs.x(), offs.y(), nxy, opt);
          VF_TRY(same_grid(grid_of(d), vwant.g, cat("zoom_image(image,zoom,x_off,y_off,size) (", option_names[o], ") grid vs 3D overload with zoom_z=1")));
          // The 3D overload resamples z as well, with zoom_z = v_in/(v_in/1) and an offset from the recomputed origin, which
          // are 1 and 0 only up to float rounding (STIR is compiled with -ffast-math): the two routes sample grids that
          // differ by `shift` voxels, so they may differ by 2*shift*max; allowed: TOL_ROUTES + 8*shift.
          const double shift_d = grid_shift(grid_of(d), vwant.g) + grid_shift(vwant.g, vin.g, true, false, false);
          const double tol_d = TOL_ROUTES + 8 * shift_d;
          stats().maxi("zoom: max allowed rel diff transaxial overloads vs 3D overload", tol_d);
          if (same_index_range(grid_of(d), vwant.g))
            {
              const Vol vd = vol_of(d);
              double worst = 0;
              for (std::size_t i = 0; i < vd.d.size(); ++i)
                worst = std::max(worst, std::fabs(vd.d[i] - vwant.d[i]));
              stats().maxi("zoom: max (observed / allowed) transaxial overloads vs 3D overload", worst / std::max(std::max(vwant.maxabs(), SD), 1e-30) / tol_d);
            }
          VF_TRY(same_values(vol_of(d), vwant, tol_d, cat("zoom_image(image,zoom,x_off,y_off,size) (", option_names[o], ") vs 3D overload with zoom_z=1"),
                             "zoom: max rel diff transaxial overloads vs 3D overload", SD));
          if (o == 0)
            { // defaulted ZoomOptions
              const Img dd = zoom_image(in, zxy, offs.x(), offs.y(), nxy);
              VF_TRY(same_values(vol_of(dd), vol_of(d), 0., "zoom_image(image,zoom,x_off,y_off,size) without ZoomOptions vs preserve_sum", nullptr, SD));
              Img ddip(in);
              zoom_image_in_place(ddip, zxy, offs.x(), offs.y(), nxy);
              VF_TRY(same_values(vol_of(ddip), vol_of(d), 0., "zoom_image_in_place(image,zoom,x_off,y_off,size) without ZoomOptions vs preserve_sum", nullptr, SD));
            }
          Img dip(in);
          zoom_image_in_place(dip, zxy, offs.x(), offs.y(), nxy, opt);
          VF_TRY(same_grid(grid_of(dip), vwant.g, cat("zoom_image_in_place(image,zoom,x_off,y_off,size) (", option_names[o], ") grid")));
          VF_TRY(same_values(vol_of(dip), vwant, tol_d, cat("zoom_image_in_place(image,zoom,x_off,y_off,size) (", option_names[o], ") vs 3D overload"),
                             "zoom: max rel diff transaxial overloads vs 3D overload", SD));
          // E1: xy with the transaxial overload, then z with the 3D in-place overload, vs one 3D call
          Img two(dip);
          zoom_image_in_place(two, CartesianCoordinate3D<float>(zooms.z(), 1.F, 1.F), CartesianCoordinate3D<float>(offs.z(), 0.F, 0.F),
                              CartesianCoordinate3D<int>(sizes.z(), nxy, nxy), opt);
          VF_TRY(same_grid(grid_of(two), gout, cat("two steps (transaxial overload then z) (", option_names[o], ") grid vs one call")));
          // the grids of the two routes agree only up to float rounding of the recomputed origins and voxel sizes, and the
          // second step resamples x,y once more at zoom 1 +- rounding: allowed TOL_ROUTES + 8*(shift in voxels)
          const double shift_e = grid_shift(grid_of(two), gout) + grid_shift(grid_of(dip), grid_of(two), false, true, true)
                                 + grid_shift(grid_of(dip), vin.g, true, false, false);
          const double tol_e = TOL_ROUTES + 8 * shift_e;
          stats().maxi("zoom: max allowed rel diff two-step (parameter overloads) vs one call", tol_e);
          {
            const Vol vtwo = vol_of(two);
            double worst = 0;
            for (std::size_t i = 0; i < vtwo.d.size(); ++i)
              worst = std::max(worst, std::fabs(vtwo.d[i] - vA[o].d[i]));
            stats().maxi("zoom: max (observed / allowed) two-step (parameter overloads) vs one call", worst / std::max(std::max(vA[o].maxabs(), S[o]), 1e-30) / tol_e);
          }
          VF_TRY(same_values(vol_of(two), vA[o], tol_e, cat("two steps (transaxial overload then z) (", option_names[o], ") vs one call"),
                             "zoom: max rel diff two-step (parameter overloads) vs one call", S[o]));
        }
    }
  if (non_unit >= 2)
    stats().cls("zoom: non-unit factor on >= 2 axes");
  return Result::pass();
}

// =================================================================================================
//                                           generators
// =================================================================================================
json
gen_ssrb(Src& s, int size)
{
  json c;
  c["part"] = "ssrb";
  vg::ScannerOpts so;
  so.max_ndet = size < 30 ? 16 : (size < 70 ? 32 : 48);
  so.max_rings = size < 30 ? 4 : 9;
  so.allow_blocks = false; // SSRB: "in_proj_data_info has to be (at least) of type ProjDataInfoCylindrical"; detector pairs need NoArcCorr
  so.allow_predefined = false;
  so.allow_tof = true;
  c["scanner"] = vg::gen_scanner(s, so);
  if (s.chance(2, 3))
    { // more axial buckets (rings = crystals per block x blocks per bucket x buckets): combining segments needs rings
      const int per_bucket = c["scanner"]["ax_cryst_per_block"].get<int>() * c["scanner"]["ax_blocks_per_bucket"].get<int>();
      const int top = size < 30 ? 5 : (size < 70 ? 9 : 12);
      if (top / per_bucket >= 1)
        c["scanner"]["rings"] = per_bucket * int(s.range(std::max(1, top / per_bucket / 2), top / per_bucket));
    }
  if (c["scanner"]["tof_poss"].get<int>() == 0 && s.chance(1, 3))
    { // more TOF scanners; sizes derived from the FOV exactly as vg::gen_scanner does (Scanner::check_consistency:
      // coincidence window within [1/2,2] x FOV diameter, within [10,10000] ps, not smaller than the timing resolution)
      const double fov_d = 2. * vg::make_scanner(c["scanner"])->get_max_FOV_radius();
      const int poss = int(s.pick(std::vector<int>{ 3, 5, 7, 9, 11, 13, 15, 9, 15 }));
      const double w_ps = std::min(9000., std::max(20., fov_d * s.pick(std::vector<double>{ 0.6, 0.75, 1., 1.25, 1.5, 1.9 }) / 0.149896229));
      c["scanner"]["tof_poss"] = poss;
      c["scanner"]["tof_size"] = w_ps / poss;
      c["scanner"]["tof_res"] = w_ps * s.pick(std::vector<double>{ 0.05, 0.1, 0.25, 0.5, 0.9 });
    }
  shared_ptr<Scanner> sc = vg::make_scanner(c["scanner"]);
  const int rings = sc->get_num_rings(), ndet = sc->get_num_detectors_per_ring();

  // input sampling: span 1/3/5 with ALL segments complete (SSRB.h: "can only handle in_proj_data_info where all
  // segments have identical 'num_segments_to_combine'", i.e. the same axial compression)
  std::vector<int> spans;
  for (int sp : { 1, 1, 3, 3, 5 })
    if ((sp - 1) / 2 <= rings - 1 && sp <= 2 * rings - 1)
      spans.push_back(sp);
  const int span = s.pick(spans);
  const int kmax = (rings - 1 - (span - 1) / 2) / span;
  const int max_seg = s.chance(1, 2) ? kmax : int(s.range(0, kmax));
  json p;
  p["span"] = span;
  p["max_delta"] = (span - 1) / 2 + span * max_seg;
  int mash = 1;
  if (s.chance(1, 3))
    mash = s.pick(vg::divisors(ndet / 2));
  const int views = ndet / 2 / mash;
  p["views"] = views;
  const int max_tang = sc->get_max_num_non_arccorrected_bins();
  const int tang = int(s.range(std::min(2, max_tang), max_tang));
  p["tang"] = tang;
  p["arccorr"] = false;
  int f_in = 0;
  const int N = sc->get_max_num_timing_poss();
  if (sc->is_tof_ready())
    {
      std::vector<int> ok; // ProjDataInfo::set_tof_mash_factor: error() unless the number of TOF bins N/f is odd
      for (int m = 1; m <= N; ++m)
        if ((N / m) % 2 == 1)
          ok.push_back(m);
      ok.push_back(0);
      f_in = s.chance(1, 2) ? ok.front() : s.pick(ok); // the smallest legal factor leaves most room for combining TOF bins
    }
  p["tof_mash"] = f_in;
  p["trim"] = json::object();
  c["pdi"] = p;

  // SSRB parameters
  const int max_in_seg = s.chance(1, 3) ? int(s.range(0, max_seg)) : -1;
  const int eff = max_in_seg >= 0 ? max_in_seg : max_seg;
  std::vector<int> nsegs; // odd (error() otherwise), and at least one complete output segment: nseg/2 <= last processed segment
  for (int k = 1; k / 2 <= eff; k += 2)
    nsegs.push_back(k);
  c["nseg"] = (nsegs.size() > 1 && s.chance(3, 4)) ? nsegs[std::size_t(s.range(1, long(nsegs.size()) - 1))] : 1;
  c["max_in_seg"] = max_in_seg;
  if (s.chance(1, 15))
    { // no complete output segment: SSRB.cxx reports it with error() ("No output segments")
      c["nseg"] = 2 * eff + 3;
      c["expect_error"] = true;
    }
  c["nviews"] = s.chance(1, 3) ? 1 : s.pick(vg::divisors(views)); // SSRB.cxx:187 error() unless out views divide in views
  int ntof = 1;
  if (f_in > 0 && s.chance(3, 4))
    {
      // odd numbers of TOF bins to combine with an odd number of output TOF bins (error() otherwise, ProjDataInfo.cxx:221).
      // Even factors are not generated: the library states it cannot handle even TOF mashing in the detector-pair
      // dictionary (ProjDataInfo.cxx:214 "TODO cope with even numbers!", ProjDataInfoCylindricalNoArcCorr.cxx:346)
      std::vector<int> ok;
      for (int n = 1; f_in * n <= N; n += 2)
        if ((N / (f_in * n)) % 2 == 1)
          ok.push_back(n);
      ntof = (ok.size() > 1 && s.chance(1, 2)) ? ok[std::size_t(s.range(1, long(ok.size()) - 1))] : s.pick(ok);
    }
  c["ntof"] = ntof;
  // tangential trim: < number of positions (error() otherwise); negative adds empty bins
  int trim = 0;
  if (s.chance(1, 2))
    trim = s.chance(1, 3) ? -int(s.range(1, 4)) : int(s.range(1, std::max(1, std::min(tang - 1, 6))));
  if (trim >= tang)
    trim = 0;
  // the class invariant of ProjDataInfoCylindricalNoArcCorr (constructor, .cxx:66: error() when the number of tangential
  // positions exceeds the scanner's max_num_non_arccorrected_bins) also bounds what may be added with a negative trim:
  // SSRB itself does not test it, but the file it writes cannot be read back otherwise (observation O2 in the notes)
  if (tang - trim > max_tang)
    trim = no_exclude ? trim : tang - max_tang;
  c["trim"] = trim;
  c["n_events"] = s.pick(std::vector<long>{ 1, 5, 40, 300, 300, 2000, 2000 });
  c["events_seed"] = s.seed64();
  c["use_file"] = s.chance(1, 6);
  {
    // audit H: an output object with a geometry of the caller (interpreted modulo the output's ranges); more often when the
    // output has oblique segments, so that reduced and non-symmetric segment ranges are not rare
    const int k = c["nseg"].get<int>();
    const int out_ms = eff >= k / 2 ? (eff - k / 2) / k : 0;
    if (out_ms >= 1 ? s.chance(3, 4) : s.chance(1, 5))
      c["out_restrict"] = json::array({ s.range(0, 6), s.range(0, 6), s.range(0, 2), s.range(0, 2) });
  }
  return c;
}

json
gen_zoom(Src& s, int size)
{
  json c;
  c["part"] = "zoom";
  const int max_xy = size < 30 ? 7 : 14, max_z = size < 30 ? 4 : 10;
  int n[3] = { int(s.range(1, max_z)), int(s.range(2, max_xy)), 0 };
  n[2] = s.chance(1, 2) ? n[1] : int(s.range(2, max_xy));
  int mn[3] = { 0, -(n[1] / 2), -(n[2] / 2) };
  if (s.chance(1, 5))
    { // non-standard index ranges are fine for the 3D overloads (physical coordinates are used throughout)
      mn[0] = int(s.range(-3, 3));
      mn[1] = int(s.range(-8, 3));
      mn[2] = int(s.range(-8, 3));
    }
  double v[3], o[3];
  for (int a = 0; a < 3; ++a)
    {
      v[a] = s.nice_real(0.5, 5.);
      o[a] = s.chance(1, 3) ? 0. : s.nice_real(-30., 30.);
    }
  if (s.chance(1, 2))
    v[1] = v[2];
  c["img"] = { { "n", { n[0], n[1], n[2] } }, { "min", { mn[0], mn[1], mn[2] } }, { "v", { v[0], v[1], v[2] } }, { "o", { o[0], o[1], o[2] } } };
  // compact support: a sub-box; uniform block inside the image
  int lo[3], hi[3];
  for (int a = 0; a < 3; ++a)
    {
      lo[a] = int(s.range(0, n[a] - 1));
      hi[a] = int(s.range(lo[a], n[a] - 1));
      if (s.chance(1, 2))
        {
          lo[a] = std::min(1, n[a] - 1);
          hi[a] = std::max(lo[a], n[a] - 2);
        }
    }
  c["sup"] = { { "lo", { lo[0], lo[1], lo[2] } }, { "hi", { hi[0], hi[1], hi[2] } } };
  c["fill_percent"] = int(s.pick(std::vector<int>{ 15, 30, 60, 100, 100 }));
  c["amp"] = s.pick(std::vector<double>{ 1., 1., 1000., 1e-3 });
  c["data_seed"] = s.seed64();
  c["blk"] = nullptr;
  if (s.chance(1, 2))
    {
      int bl[3], bh[3];
      const bool big = s.chance(2, 3); // a block over (nearly) the whole image leaves interior output voxels at any zoom
      for (int a = 0; a < 3; ++a)
        {
          bl[a] = big ? int(s.range(0, std::min(1, n[a] - 1))) : int(s.range(0, std::max(0, n[a] / 3)));
          bh[a] = big ? int(s.range(std::max(bl[a], n[a] - 2), n[a] - 1)) : int(s.range(std::min(n[a] - 1, bl[a] + n[a] / 2), n[a] - 1));
        }
      c["blk"] = { { "lo", { bl[0], bl[1], bl[2] } }, { "hi", { bh[0], bh[1], bh[2] } }, { "c", s.nice_real(0.5, 4.) } };
    }
  // zoom factors in [0.3,3]
  double z[3];
  for (int a = 0; a < 3; ++a)
    z[a] = s.chance(1, 3) ? s.pick(std::vector<double>{ 1., 0.5, 2., 1.5, 0.3, 3., 0.75, 1.25 }) : s.real(0.3, 3.);
  const bool iso = s.chance(1, 2);
  if (iso)
    z[1] = z[2];
  if (s.chance(1, 6))
    z[0] = 1.;
  double off[3];
  for (int a = 0; a < 3; ++a)
    off[a] = s.chance(1, 3) ? 0. : s.nice_real(-3., 3.) * v[a];
  // new sizes
  const std::string cls = s.pick(std::vector<std::string>{ "cover", "cover", "cover", "same amount", "too small" });
  int ns[3];
  for (int a = 0; a < 3; ++a)
    {
      const double vout = v[a] / z[a];
      // half extent needed: half input extent + |offset| + one input voxel; new grid is centred on old middle + offset
      const int cover = int(std::ceil((n[a] * v[a] + 2 * std::fabs(off[a]) + 2 * v[a]) / vout)) + 1 + int(s.range(0, 2));
      if (cls == "cover")
        ns[a] = cover;
      else if (cls == "same amount") // zoom.h: "If size is equal to zoom*old_size, the same amount of data is represented"
        ns[a] = std::max(1, int(std::lround(z[a] * n[a])));
      else
        ns[a] = std::max(1, int(cover * s.real(0.2, 0.8)));
      ns[a] = std::min(ns[a], 60);
    }
  if (iso)
    ns[1] = ns[2];
  c["zoom"] = { z[0], z[1], z[2] };
  c["off"] = { off[0], off[1], off[2] };
  c["sizes"] = { ns[0], ns[1], ns[2] };
  c["size_class"] = cls;
  c["iso_xy"] = iso;
  c["out2"] = nullptr;
  if (s.chance(1, 2))
    { // a free output grid
      int on[3], omn[3];
      double ov[3], oo[3];
      for (int a = 0; a < 3; ++a)
        {
          ov[a] = v[a] / s.real(0.3, 3.);
          on[a] = std::min(60, std::max(1, int(n[a] * v[a] / ov[a] * s.real(0.5, 1.6)) + 1));
          omn[a] = int(s.range(-12, 4));
          // centre the grid roughly on the input image, then shift
          const double in_mid = (mn[a] + (n[a] - 1) / 2.) * v[a] + o[a];
          oo[a] = in_mid - (omn[a] + (on[a] - 1) / 2.) * ov[a] + s.real(-2., 2.) * v[a];
        }
      c["out2"] = { { "n", { on[0], on[1], on[2] } }, { "min", { omn[0], omn[1], omn[2] } }, { "v", { ov[0], ov[1], ov[2] } }, { "o", { oo[0], oo[1], oo[2] } } };
    }
  // the plane handed to the 2-D overload: mostly one inside the support
  c["plane2d"] = s.chance(3, 4) ? int(s.range(lo[0], hi[0])) : int(s.range(0, n[0] - 1));
  return c;
}

json
gen(Src& s, int size)
{
  const long k = s.range(1, 100);
  if (k <= 30)
    return gen_ssrb(s, size);
  if (k <= 60)
    return gen_zoom(s, size);
  if (k <= 76)
    return c15x::gen_overlap(s, size);
  if (k <= 86)
    return c15x::gen_viewgram(s, size);
  if (k <= 93)
    return c15x::gen_issrb(s, size);
  return c15x::gen_extend(s, size);
}

Result
check(const json& c)
{
  vg::quiet();
  const std::string part = c["part"].get<std::string>();
  if (part == "ssrb")
    return check_ssrb(c);
  if (part == "overlap")
    return c15x::check_overlap(c);
  if (part == "viewgram")
    return c15x::check_viewgram(c);
  if (part == "issrb")
    return c15x::check_issrb(c);
  if (part == "extend")
    return c15x::check_extend(c);
  try
    {
      return check_zoom(c);
    }
  catch (const stir_verif::AssertionFailure& e)
    {
      // see is_overlap_interpolate_epsilon_assertion(): the case is re-run with the assertions off (all oracles still apply)
      if (!is_overlap_interpolate_epsilon_assertion(e))
        throw;
      stats().cls("zoom: epsilon-less assertion of overlap_interpolate fired, re-run with assertions off");
      AssertsOff guard(true);
      return check_zoom(c);
    }
}

bool
nontrivial(const json& c)
{
  if (c["part"].get<std::string>() == "ssrb")
    { // changing >= 2 of (segments, views, TOF)
      const int changed = (c["nseg"].get<int>() > 1) + (c["nviews"].get<int>() > 1) + (c["ntof"].get<int>() > 1);
      return changed >= 2 && c["n_events"].get<long>() >= 5;
    }
  const std::string part = c["part"].get<std::string>();
  if (part == "overlap") // a real resampling: zoom != 1 (or irregular boxes) and a shift
    return c["form"].get<std::string>() == "iter" ? true : (std::fabs(c["zoom"].get<double>() - 1.) > 1e-3 && c["offset"].get<double>() != 0.);
  if (part == "viewgram")
    return c["pdi"]["arccorr"].get<bool>() && std::fabs(c["zoom"].get<double>() - 1.) > 1e-3 && (c["xoff"].get<double>() != 0. || c["yoff"].get<double>() != 0.);
  if (part == "issrb") // oblique output segments
    return c["pdi4"]["max_delta"].get<int>() > (c["pdi4"]["span"].get<int>() - 1) / 2;
  if (part == "extend")
    return (c["view_ext"].get<int>() > 0) + (c["axial_ext"].get<int>() > 0) + (c["tang_ext"].get<int>() > 0) >= 2;
  // zoom with non-unit factors on >= 2 axes and a non-zero offset
  int non_unit = 0;
  bool offset = false;
  for (int a = 0; a < 3; ++a)
    {
      if (std::fabs(c["zoom"][a].get<double>() - 1.) > 1e-3)
        ++non_unit;
      if (c["off"][a].get<double>() != 0.)
        offset = true;
    }
  return non_unit >= 2 && offset;
}

//! known findings (see c15_more.h); the generator keeps these input classes out by construction, the probes under
//! known/C15/ are replayed with VERIF_NO_EXCLUDE=1
std::string
known_signature(const json& c)
{
  if (no_exclude)
    return "";
  if (c15x::overlap_is_known_F5(c))
    return c15x::SIG_F5;
  // BEGIN-KNOWN-F6
  if (c15x::extend_is_known_F6(c))
    return c15x::SIG_F6;
  // END-KNOWN-F6
  // BEGIN-KNOWN-F7
  if (c15x::overlap_is_known_F7(c))
    return c15x::SIG_F7;
  // END-KNOWN-F7
  return "";
}

std::vector<json>
fixed_cases(int tier)
{
  std::vector<json> v;
  // SSRB on predefined scanners (sizes kept moderate through max_delta)
  struct F
  {
    int type, span, max_delta, mash, nseg, nviews, trim, max_in_seg, tang_less;
  };
  std::vector<F> fs = { { int(Scanner::E931), 1, 4, 1, 3, 4, 0, -1, 0 },
                        { int(Scanner::E931), 3, 4, 2, 3, 2, 10, -1, 0 },
                        { int(Scanner::RATPET), 1, 7, 1, 5, 4, -3, 6, 6 } };
  if (tier == 1)
    fs.push_back({ int(Scanner::E953), 3, 7, 1, 5, 2, 0, -1, 0 });
  for (auto& f : fs)
    {
      shared_ptr<Scanner> sc(new Scanner(static_cast<Scanner::Type>(f.type)));
      const int rings = sc->get_num_rings(), ndet = sc->get_num_detectors_per_ring();
      if (f.max_delta > rings - 1 || (ndet / 2) % f.mash != 0 || (ndet / 2 / f.mash) % f.nviews != 0)
        continue;
      json c;
      c["part"] = "ssrb";
      c["scanner"] = { { "type", f.type } };
      c["pdi"] = { { "span", f.span },
                   { "max_delta", f.max_delta },
                   { "views", ndet / 2 / f.mash },
                   { "tang", sc->get_max_num_non_arccorrected_bins() - f.tang_less },
                   { "arccorr", false },
                   { "tof_mash", 0 },
                   { "trim", json::object() } };
      c["nseg"] = f.nseg;
      c["nviews"] = f.nviews;
      c["ntof"] = 1;
      c["trim"] = f.trim;
      c["max_in_seg"] = f.max_in_seg;
      c["n_events"] = 5000;
      c["events_seed"] = 12345 + f.type;
      c["use_file"] = false;
      v.push_back(c);
    }
  return v;
}

} // namespace

const Property&
the_property()
{
  static Property p;
  p.id = "C15";
  p.gen = gen;
  p.check = check;
  p.nontrivial = nontrivial;
  p.fixed_cases = fixed_cases;
  p.known_signature = known_signature;
  p.rule = "ssrb: at least two of (segments, views, TOF bins) combined and >= 5 detector pairs; zoom: non-unit factor on >= 2 axes and a non-zero offset; "
           "overlap: zoom != 1 and offset != 0, or irregular boxes; viewgram: arc-corrected data, zoom != 1 and a non-zero offset; issrb: output with oblique "
           "segments; extend: at least two of the three extensions > 0";
  return p;
}

// C03 — system-matrix rows do not depend on symmetries, caching or request history.
//
// A Case is a configuration (two data geometries A/B, two image grids A/B, the 2^5 do_symmetry
// switches, cache mode, num_tangential_LORs, FOV shape, use_actual_detector_boundaries) and a
// history of events on ONE ProjMatrixByBinUsingRayTracing object.  After every get() the row is
// compared with the row of a fresh matrix with all symmetries off and the cache disabled
// ("computed directly") for the geometry/image/options current at that moment, and the validity
// predicate (non-negative, no duplicates, x/y inside the image, stored bin == requested bin)
// is evaluated on the returned row itself.
//
// Tie screen (property text): bins for which the choice of the first/last voxel, or of the
// column of a ray parallel to a grid axis, is a floating-point rounding tie are skipped BEFORE
// any row is computed.  The screen is a double-precision mirror of the geometry set up in
// ProjMatrixByBinUsingRayTracing::calculate_proj_matrix_elems_for_one_bin / ray_trace_one_lor
// (s, phi, t, tan(theta), voxel sizes, FOV radius only); it never looks at a computed row.
//
// Extension (third session): the SAME histories are run on every ProjMatrixByBin implementation that can be set up on
// generated data (Case key "kind"):
//   "rt"     ProjMatrixByBinUsingRayTracing (as before; optionally configured through parse() instead of the setters,
//            key "via_parse"), oracle: fresh symmetry-free cache-free ray-tracing matrix + tie screen;
//   "interp" ProjMatrixByBinUsingInterpolation (relies on ProjMatrixByBin::set_up for its cache; switches only through
//            parse()), oracles: (1) row == row of a FRESH interpolation matrix with the same settings and the cache disabled,
//            to 1e-6 of the row maximum (same arithmetic, other history), (2) row == row of a fresh interpolation matrix with
//            all symmetries off (tolerance TOL_INTERP_SYMFREE, no tie screen: the interpolation kernel is continuous);
//   "file"   ProjMatrixByBinFromFile reading a matrix that the library wrote itself (write_to_file) from a ray-tracing
//            matrix with the switches of the case, oracles: (1) row == row of a fresh cache-free ray-tracing matrix with the
//            same switches (the matrix that was written), to 1e-6, (2) the symmetry-free ray-tracing row as for "rt".
//   "spect"  ProjMatrixByBinSPECTUB (no symmetries; computes a whole view at a time INTO the cache) on generated single-segment
//            arc-corrected data, oracle: row == row of a fresh object with the same settings (requested twice, see finding S1).
// New events: clone() of the used object (OP_CLONE), cache-mode switches WITHOUT a following set_up, re-parse of the
// parameters on the used object; new clauses on every get: find_basic_bin / is_basic / transform_bin_coordinates agree with
// find_symmetry_operation_from_basic_bin (DataSymmetriesForBins.h documents all four).
#include "explicit_p.h"
#include "stir/recon_buildblock/DataSymmetriesForBins.h"
#include "stir/recon_buildblock/DataSymmetriesForBins_PET_CartesianGrid.h"
#include "stir/recon_buildblock/SymmetryOperation.h"
#include "stir/recon_buildblock/ProjMatrixByBinUsingInterpolation.h"
#include "stir/recon_buildblock/ProjMatrixByBinFromFile.h"
#include "stir/recon_buildblock/ProjMatrixByBinSPECTUB.h"
#include "stir/ProjDataInterfile.h"
#include "stir/ExamInfo.h"
#include "stir/IO/OutputFileFormat.h"
#include "stir/IO/read_from_file.h"
#include "stir/DiscretisedDensity.h"
#include <typeinfo>
#include <iostream>
#include <fstream>
#include <sstream>
#include <filesystem>
#include <unistd.h>
#include "stir/ProjDataInfoCylindrical.h"
#include "stir/ProjDataInfoCylindricalNoArcCorr.h"
#include "stir/ProjDataInfoSubsetByView.h"
#include <algorithm>
#include <map>
#include <set>
#include <tuple>

using namespace vf;
using namespace stir;

namespace {

enum OpCode
{
  OP_GET = 0,    // [0,a,b,c,d,e]   one bin, coordinates modulo the current ranges
  OP_GETN = 1,   // [1,seed,n]      n pseudo-random bins
  OP_REGET = 2,  // [2,k,n]         request again n of the bins requested before (starting k back)
  OP_ORBIT = 3,  // [3,a,b,c,d,e,rev] all bins related to the basic bin of a bin (optionally in reverse order)
  OP_CLEAR = 4,  // [4]             clear_cache
  OP_SETUP = 5,  // [5,g,i]         set_up(geometry g, image i)
  OP_SYM = 6,    // [6,k]           flip do_symmetry switch k, then set_up(current)
  OP_CACHE = 7,  // [7,mode]        cache mode 0 disabled /1 basic bins only /2 all, then set_up(current)
  OP_OPT = 8,    // [8,k,v]         k=0: num_tangential_LORs=1+v%4, k=1: flip restrict_to_cylindrical_FOV; then set_up(current)
  OP_SWEEP = 9,  // [9,seed]        ALL bins of the current geometry in a pseudo-random order
  OP_CLONE = 10  // [10]            the object under test is replaced by its clone() (the original is destroyed)
};
// OP_CACHE takes an optional third element: [7,mode,1] = switch the cache mode WITHOUT calling set_up afterwards
// (enable_cache / store_only_basic_bins_in_cache do not document that a set_up is needed)

enum Kind
{
  K_RT = 0,
  K_INTERP = 1,
  K_FILE = 2,
  K_SPECT = 3
};
inline Kind
kind_of(const json& c)
{
  const std::string k = c.value("kind", std::string("rt"));
  return k == "interp" ? K_INTERP : (k == "file" ? K_FILE : (k == "spect" ? K_SPECT : K_RT));
}
inline const char*
kind_name(Kind k)
{
  return k == K_INTERP ? "interp" : (k == K_FILE ? "file" : (k == K_SPECT ? "spect" : "rt"));
}
//! exclusions of known classes are switched off by VERIF_NO_EXCLUDE=1 (all) or C03_NO_EXCLUDE=<tags> (e.g. "F3,S1": only these).
//! REPAIRED lists the tags of findings whose repair has been committed in /repo: their exclusions are off for good, the
//! classes are part of the normal search and their former probes are regression inputs under replays/C03/fixed_*.json.
const char* const REPAIRED = "F3,F5";
inline bool
no_exclude(const char* tag = nullptr)
{
  const char* e = std::getenv("VERIF_NO_EXCLUDE");
  if (e && *e && std::string(e) != "0")
    return true;
  if (tag && std::string(REPAIRED).find(tag) != std::string::npos)
    return true;
  const char* t = std::getenv("C03_NO_EXCLUDE");
  return tag && t && std::string(t).find(tag) != std::string::npos;
}

// same arithmetic, other history (cache / set-up sequence / clone / file round trip): rows must agree to float printing noise
const double TOL_SAME = 1e-6;
// interpolation matrix, symmetry-derived row vs directly computed row (calibrated, see props.d/C03.py)
inline double
tol_interp_symfree()
{
  static const double t = std::getenv("C03_TOL_INTERP") ? std::atof(std::getenv("C03_TOL_INTERP")) : 3e-4;
  return t;
}

// ---- temporary files (kind "file"): one directory per case under VERIF_TMP, removed at the end of the case ----
struct CaseDir
{
  std::string path;
  CaseDir()
  {
    static long counter = 0;
    const char* e = std::getenv("VERIF_TMP");
    const std::string root = (e && *e) ? std::string(e) : cat("/tmp/verif_", long(getpid()));
    path = cat(root, "/c03_", long(getpid()), "_", counter++);
    std::error_code ec;
    std::filesystem::remove_all(path, ec);
    std::filesystem::create_directories(path, ec);
  }
  ~CaseDir()
  {
    std::error_code ec;
    if (!std::getenv("C03_KEEP_TMP"))
      std::filesystem::remove_all(path, ec);
  }
};

const double SCREEN = 1e-3; // voxel units, from the property text / DESIGN "Tie screen"

// calibrated tolerance (see props.d/C03.py level_note and the final report): relative to the row maximum
double
row_tolerance(double kappa)
{
  static const double tol = std::getenv("C03_TOL") ? std::atof(std::getenv("C03_TOL")) : 2e-3;
  static const double per_kappa = std::getenv("C03_TOL_KAPPA") ? std::atof(std::getenv("C03_TOL_KAPPA")) : 4e-5;
  return std::max(tol, per_kappa * kappa);
}

inline bool
near_half(double x)
{
  return std::fabs(x - std::floor(x) - 0.5) < SCREEN;
}

// ---- the geometric description a fresh matrix is built from ---------------------------------
struct RefKey
{
  int g, i, lors;
  bool cyl, adb;
  bool operator<(const RefKey& o) const { return std::tie(g, i, lors, cyl, adb) < std::tie(o.g, o.i, o.lors, o.cyl, o.adb); }
};

struct Ref
{
  shared_ptr<ProjMatrixByBinUsingRayTracing> m; // all symmetries off, cache disabled, set up once
  shared_ptr<const ProjDataInfo> pdi;
  CartesianCoordinate3D<float> voxel_size, origin;
  CartesianCoordinate3D<int> imin, imax;
  int lors;
  bool cyl_fov;
  bool adb; // effective value after set_up (set_up documents that it resets the flag for compressed data)
};

// ---- tie screen: mirror of ray_trace_one_lor's end points, in double ---------------------------
// returns true when the bin has to be skipped
//
// Conditioning: the position at which a ray leaves a voxel through a plane perpendicular to direction d is
// (boundary - start_d)/|difference_d|; a rounding error e in start_d (float, ~1e-6 grid units) moves it by e/|difference_d|
// of the chord, i.e. changes an element by ~ e * max_d|difference_d| / |difference_d| relative to the row maximum.
// kappa = max_d |difference_d| / min_{d not parallel} |difference_d| (grid units) is returned so that the comparison
// tolerance can follow the conditioning of nearly-parallel rays (small tan(theta) with thick planes, small view offsets).
bool
screen_one_ray(const Ref& R, double s, double t, double cphi, double sphi, double costheta, double tantheta, double offset_in_z, double fovrad, double& kappa)
{
  const double vx = R.voxel_size.x(), vy = R.voxel_size.y(), vz = R.voxel_size.z();
  const double tol_mm = SCREEN * std::min(vx, vy);
  double max_a, min_a;
  if (R.cyl_fov)
    {
      if (std::fabs(std::fabs(s) - fovrad) < tol_mm)
        return true; // ray tangent to the FOV cylinder: empty/non-empty is a rounding tie
      if (std::fabs(s) > fovrad)
        return false; // empty row, no end points
      max_a = std::sqrt(fovrad * fovrad - s * s);
      min_a = -max_a;
    }
  else
    {
      // the code switches formula at |cos|,|sin| < 1e-3
      if (std::fabs(std::fabs(cphi) - 1e-3) < 1e-5 || std::fabs(std::fabs(sphi) - 1e-3) < 1e-5)
        return true;
      if (std::fabs(cphi) < 1e-3 || std::fabs(sphi) < 1e-3)
        {
          if (std::fabs(std::fabs(s) - fovrad) < tol_mm)
            return true;
          if (fovrad < std::fabs(s))
            return false;
          max_a = fovrad;
          min_a = -fovrad;
        }
      else
        {
          const double sg_s = sphi < 0 ? -1. : 1., sg_c = cphi < 0 ? -1. : 1.;
          max_a = std::min((fovrad * sg_s - s * cphi) / sphi, (fovrad * sg_c + s * sphi) / cphi);
          min_a = std::max((-fovrad * sg_s - s * cphi) / sphi, (-fovrad * sg_c + s * sphi) / cphi);
          const double d = max_a - min_a; // the code returns an empty row if d < 1e-3*vx
          if (d < -tol_mm)
            return false;
          if (d < 1e-2 * vx)
            return true;
        }
    }
  const double p0[3] = { (t / costheta + offset_in_z - max_a * tantheta) / vz, (s * sphi - max_a * cphi) / vy, (s * cphi + max_a * sphi) / vx };
  const double p1[3] = { (t / costheta + offset_in_z - min_a * tantheta) / vz, (s * sphi - min_a * cphi) / vy, (s * cphi + min_a * sphi) / vx };
  double n2 = 0;
  for (int d = 0; d < 3; ++d)
    n2 += (p1[d] - p0[d]) * (p1[d] - p0[d]);
  if (std::sqrt(n2) < 1e-2)
    return true; // (nearly) coinciding end points: the ray tracer returns nothing below 1e-5
  {
    double dmax = 0, dmin = 1e30;
    for (int d = 0; d < 3; ++d)
      {
        const double ad = std::fabs(p1[d] - p0[d]);
        dmax = std::max(dmax, ad);
        if (ad > 1e-4)
          dmin = std::min(dmin, ad);
      }
    if (dmin < 1e29)
      kappa = std::max(kappa, dmax / dmin);
  }
  for (int d = 0; d < 3; ++d)
    {
      const double ad = std::fabs(p1[d] - p0[d]);
      if (ad > 0.3e-4 && ad < 3e-4)
        return true; // "parallel to a coordinate plane" is decided at 1e-4 grid units: tie
      if (ad <= 1e-4)
        { // parallel: which column/plane the whole ray runs in
          if (near_half(p0[d]))
            return true;
        }
      else if (near_half(p0[d]) || near_half(p1[d]))
        return true; // end point on a voxel boundary: which voxel is first/last is a rounding tie
    }
  return false;
}

bool
screen_one_bin(const Ref& R, const Bin& bin, double& kappa)
{
  const ProjDataInfo& pdi = *R.pdi;
  double s = pdi.get_s(bin);
  double phi;
  if (!R.adb)
    phi = pdi.get_phi(bin);
  else
    { // ProjMatrixByBinUsingRayTracing.cxx: use_actual_detector_boundaries, cylindrical branch
      const ProjDataInfoCylindricalNoArcCorr& nac = dynamic_cast<const ProjDataInfoCylindricalNoArcCorr&>(pdi);
      const int ndet = pdi.get_scanner_ptr()->get_num_detectors_per_ring();
      const double R_eff = pdi.get_scanner_ptr()->get_effective_ring_radius();
      int d1 = 0, d2 = 0;
      nac.get_det_num_pair_for_view_tangential_pos_num(d1, d2, bin.view_num(), bin.tangential_pos_num());
      phi = (d1 + d2) * _PI / ndet - _PI / 2 + nac.get_azimuthal_angle_offset();
      s = R_eff * std::sin((d1 - d2) * _PI / ndet + _PI / 2);
      // detector numbers are modulo ndet: (phi +- pi, -s) is brought back to the branch of get_phi (as the matrix does)
      const double old_phi = pdi.get_phi(bin);
      if (std::fabs(phi - old_phi) > _PI / 2)
        {
          phi += phi > old_phi ? -_PI : _PI;
          s = -s;
        }
    }
  const double cphi = std::cos(phi), sphi = std::sin(phi);
  const double tantheta = pdi.get_tantheta(bin);
  const double costheta = 1 / std::sqrt(1 + tantheta * tantheta);
  const double t = pdi.get_t(bin);
  const double vx = R.voxel_size.x(), vy = R.voxel_size.y(), vz = R.voxel_size.z();
  const double samp_z = pdi.get_sampling_in_t(bin) / costheta;
  const int nz_lors = int(std::ceil(samp_z / vz - 1e-3));
  if (nz_lors < 1)
    return true;
  double offset_in_z = -samp_z / (2 * nz_lors) * (nz_lors - 1) - R.origin.z() + (R.imax.z() + R.imin.z()) / 2. * vz;
  if (tantheta == 0)
    {
      // "make sure we don't ray-trace exactly between 2 planes": shifted by .1 voxel when within 1e-3 of a boundary
      const double zc = (t + offset_in_z) / vz;
      const double dist = std::fabs(zc - std::floor(zc) - 0.5);
      if (std::fabs(dist - 1e-3) < 3e-4)
        return true; // the decision itself would be a tie (does not occur for z spacing = sampling / k)
      if (dist < 1e-3)
        offset_in_z -= .1 * vz;
    }
  const double fovrad = std::min(std::min(R.imax.x(), -R.imin.x()) * vx, std::min(R.imax.y(), -R.imin.y()) * vy);
  if (R.lors == 1)
    return screen_one_ray(R, s, t, cphi, sphi, costheta, tantheta, offset_in_z, fovrad, kappa);
  const double s_inc = (!R.adb ? 1 : 2) * double(pdi.get_sampling_in_s(bin)) / R.lors;
  double cur = s - s_inc * (R.lors - 1) / 2.;
  for (int k = 1; k <= R.lors; ++k, cur += s_inc)
    if (screen_one_ray(R, cur, t, cphi, sphi, costheta, tantheta, offset_in_z, fovrad, kappa))
      return true;
  return false;
}

//! the bin and its images under the full symmetry group (whether or not the symmetry is enabled: screening more is always sound)
bool
screen_bin(const Ref& R, const Bin& bin, double& kappa)
{
  kappa = 1;
  const ProjDataInfo& p = *R.pdi;
  const int nv = p.get_num_views();
  std::vector<int> views = { bin.view_num(), nv - bin.view_num() };
  if (nv % 2 == 0)
    {
      views.push_back(nv / 2 - bin.view_num());
      views.push_back(nv / 2 + bin.view_num());
      views.push_back(bin.view_num() - nv / 2);
      views.push_back(3 * nv / 2 - bin.view_num());
    }
  std::sort(views.begin(), views.end());
  views.erase(std::unique(views.begin(), views.end()), views.end());
  for (int sg = 0; sg < 2; ++sg)
    {
      const int seg = sg ? -bin.segment_num() : bin.segment_num();
      if (sg && (seg == bin.segment_num() || seg < p.get_min_segment_num() || seg > p.get_max_segment_num()))
        continue;
      if (bin.axial_pos_num() < p.get_min_axial_pos_num(seg) || bin.axial_pos_num() > p.get_max_axial_pos_num(seg))
        continue;
      for (int tg = 0; tg < 2; ++tg)
        {
          const int tang = tg ? -bin.tangential_pos_num() : bin.tangential_pos_num();
          if (tg && tang == bin.tangential_pos_num())
            continue;
          for (int v : views)
            {
              if (v < p.get_min_view_num() || v > p.get_max_view_num())
                continue;
              if (R.adb && (tang < p.get_min_tangential_pos_num() || tang > p.get_max_tangential_pos_num()))
                continue;
              if (screen_one_bin(R, Bin(seg, v, bin.axial_pos_num(), tang, bin.timing_pos_num()), kappa))
                return true;
            }
        }
    }
  return false;
}

// ---- the interpreter ---------------------------------------------------------------------------
struct Geo
{
  shared_ptr<Scanner> sc;
  shared_ptr<ProjDataInfo> pdi;
};

// ---- domain audit (AUD_C): the data geometry may be a ProjDataInfoSubsetByView of a cylindrical geometry ------------------
// DataSymmetriesForBins_PET_CartesianGrid.cxx:253-270 has a "special handling of subset case" (the two phi symmetries are
// switched off, the others stay), and src/test/test_proj_data_info_subsets.cxx drives the ray-tracing matrix with such data:
// a documented, supported data geometry.  Case key pdiX["subset_views"] = list of ORIGINAL view numbers (absent/empty = none).
inline const ProjDataInfoCylindrical*
cyl_of(const ProjDataInfo* p)
{
  if (const ProjDataInfoSubsetByView* sub = dynamic_cast<const ProjDataInfoSubsetByView*>(p))
    return dynamic_cast<const ProjDataInfoCylindrical*>(sub->get_original_proj_data_info_sptr().get());
  return dynamic_cast<const ProjDataInfoCylindrical*>(p);
}
inline bool
has_subset(const json& pj)
{
  return pj.contains("subset_views") && pj["subset_views"].is_array() && !pj["subset_views"].empty();
}
//! the subset of a full geometry (the full one when the case has no subset)
inline shared_ptr<ProjDataInfo>
subset_of(const shared_ptr<ProjDataInfo>& full, const json& pj)
{
  if (!has_subset(pj))
    return full;
  std::vector<int> views;
  const int nv = full->get_num_views();
  for (const json& v : pj["subset_views"])
    { // interpreted modulo the number of views, duplicates dropped (any shrunk list stays a valid subset)
      const int w = int(((v.get<long>() % nv) + nv) % nv);
      if (std::find(views.begin(), views.end(), w) == views.end())
        views.push_back(w);
    }
  return shared_ptr<ProjDataInfo>(new ProjDataInfoSubsetByView(full, views));
}

typedef std::tuple<int, int, int, int, int> BinKey;
inline BinKey
key(const Bin& b)
{
  return BinKey(b.segment_num(), b.view_num(), b.axial_pos_num(), b.tangential_pos_num(), b.timing_pos_num());
}
inline std::string
show(const Bin& b)
{
  return cat("bin(seg=", b.segment_num(), ",view=", b.view_num(), ",ax=", b.axial_pos_num(), ",tang=", b.tangential_pos_num(), ",tof=", b.timing_pos_num(), ")");
}

// ---- sparse rows ----------------------------------------------------------------------------------
struct SparseRow
{
  std::vector<std::pair<std::tuple<int, int, int>, double>> e; // sorted by voxel (z,y,x)
  double mx = 0;
};
inline void
to_sparse(const ProjMatrixElemsForOneBin& r, SparseRow& out)
{
  out.e.clear();
  out.mx = 0;
  for (auto it = r.begin(); it != r.end(); ++it)
    {
      out.e.emplace_back(std::make_tuple(it->coord1(), it->coord2(), it->coord3()), double(it->get_value()));
      out.mx = std::max(out.mx, double(it->get_value()));
    }
  std::sort(out.e.begin(), out.e.end());
}
struct Diff
{
  double worst = 0;
  std::tuple<int, int, int> at{ 0, 0, 0 };
  double wa = 0, wb = 0;
};
//! largest |a_v - b_v| on the union of the voxels
inline Diff
max_diff(const SparseRow& A, const SparseRow& B)
{
  Diff d;
  const auto &a = A.e, &b = B.e;
  for (std::size_t ia = 0, ib = 0; ia < a.size() || ib < b.size();)
    {
      double va = 0, vb = 0;
      std::tuple<int, int, int> at;
      if (ib >= b.size() || (ia < a.size() && a[ia].first < b[ib].first))
        {
          at = a[ia].first;
          va = a[ia++].second;
        }
      else if (ia >= a.size() || b[ib].first < a[ia].first)
        {
          at = b[ib].first;
          vb = b[ib++].second;
        }
      else
        {
          at = a[ia].first;
          va = a[ia++].second;
          vb = b[ib++].second;
        }
      if (std::fabs(va - vb) > d.worst)
        {
          d.worst = std::fabs(va - vb);
          d.at = at;
          d.wa = va;
          d.wb = vb;
        }
    }
  return d;
}

struct Run
{
  Kind kind = K_RT;
  bool via_parse = false;      // rt: the object is configured through parse() (keywords) instead of the setters
  bool pli = true, jac = true; // interp: use_piecewise_linear_interpolation / use_exact_Jacobian as requested
  int psf = 0;                 // spect: psf type 0 Geometrical / 1 2D / 2 3D
  int mask = 0;                // spect: mask type 0 No / 1 Cylinder
  bool keep = true;            // spect: keep_all_views_in_cache
  Geo geo[2];
  shared_ptr<VoxelsOnCartesianGrid<float>> img[2];
  int g = 0, i = 0;
  bool sym[5];
  int cache = 1;
  int lors = 1;
  bool cyl = true;
  bool adb = false;
  shared_ptr<ProjMatrixByBin> m;
  std::map<RefKey, Ref> refs;
  // fresh cache-free objects of the class under test: (g, i, symmetry bits, pli, jac, lors, cylFOV, adb) -> object set up once
  typedef std::tuple<int, int, int, int, int, int, int, int> ClsKey;
  std::map<ClsKey, shared_ptr<ProjMatrixByBin>> cls_refs;
  std::map<ClsKey, double> scales; // interp_scale()
  // kind "file": the matrix file written by the library at the start of the case (geometry A, image A, the switches at that moment)
  std::unique_ptr<CaseDir> dir;
  std::string hpm;
  // model of the interpolation matrix' use_piecewise_linear_interpolation member (finding C03-F3, see do_setup)
  bool interp_pli_member = true;
  std::vector<BinKey> requested; // all bins requested so far (for OP_REGET)
  std::set<BinKey> since_event;  // bins requested since the last clear/set_up/flip (statistics only)
  std::set<BinKey> basics_via_related; // basic bins of the NON-basic bins requested since the last event (statistics only)
  bool had_event = false;        // a clear/set_up/flip happened after at least one get
  long n_gets = 0, n_screened = 0, n_nontrivial = 0;
  std::string trail; // short description of the events so far, for messages
  // ---- domain audit (AUD_C) -------------------------------------------------------------------------------------------
  // reuse_row: the output argument of get_proj_matrix_elems_for_one_bin is ONE long-lived row object that still holds the
  //   previous answer (another bin, possibly another geometry/image), as the projectors use it
  //   (ForwardProjectorByBinUsingProjMatrixByBin.cxx:116,147: one proj_matrix_row for all bins); never empty at the call.
  // own_objs: every set_up of the object under test gets its OWN ProjDataInfo clone and its own image object with the
  //   same grid but arbitrary non-zero voxel values, dropped by the harness right after the call ("determined by the bin, the
  //   data geometry and the image grid alone"); the references keep using the harness's zero-valued objects.
  bool reuse_row = false, own_objs = false;
  ProjMatrixElemsForOneBin held;
  uint64_t own_counter = 0;

  //! m->set_up for (geometry gg, image ii), see own_objs
  void set_up_m(int gg, int ii)
  {
    if (!own_objs)
      {
        m->set_up(geo[gg].pdi, img[ii]);
        return;
      }
    shared_ptr<ProjDataInfo> p(geo[gg].pdi->clone());
    shared_ptr<VoxelsOnCartesianGrid<float>> im(img[ii]->clone());
    vg::fill_random(*im, 0x9e3779b97f4a7c15ULL + (++own_counter), -3., 3.);
    m->set_up(p, im);
    im->fill(-1.F); // (the caller may do what it likes with its image after set_up: ProjMatrixByBin::set_up clones it)
    stats().count("set_up calls with own clones of the data geometry and a non-zero image of the same grid");
  }

  ProjMatrixByBinUsingRayTracing& rt() const { return dynamic_cast<ProjMatrixByBinUsingRayTracing&>(*m); }

  int symbits(bool with_sym) const
  {
    int b = 0;
    for (int k = 0; k < 5; ++k)
      if (with_sym && sym[k])
        b |= 1 << k;
    return b;
  }

  void apply_cache_mode(ProjMatrixByBin& mm, int cache_mode) const
  {
    mm.enable_cache(cache_mode != 0);
    mm.store_only_basic_bins_in_cache(cache_mode == 1);
  }

  void apply_switches(ProjMatrixByBinUsingRayTracing& mm) const { apply_switches(mm, true, cache); }
  void apply_switches(ProjMatrixByBinUsingRayTracing& mm, bool with_sym, int cache_mode) const
  {
    mm.set_num_tangential_LORs(lors);
    mm.set_restrict_to_cylindrical_FOV(cyl);
    mm.set_do_symmetry_90degrees_min_phi(with_sym && sym[0]);
    mm.set_do_symmetry_180degrees_min_phi(with_sym && sym[1]);
    mm.set_do_symmetry_swap_segment(with_sym && sym[2]);
    mm.set_do_symmetry_swap_s(with_sym && sym[3]);
    mm.set_do_symmetry_shift_z(with_sym && sym[4]);
    apply_cache_mode(mm, cache_mode);
  }

  std::string sym_keys(bool with_sym) const
  {
    std::ostringstream s;
    auto on = [&](int k) { return (with_sym && sym[k]) ? 1 : 0; };
    s << "do_symmetry_90degrees_min_phi:=" << on(0) << "\n"
      << "do_symmetry_180degrees_min_phi:=" << on(1) << "\n"
      << "do_symmetry_swap_segment:=" << on(2) << "\n"
      << "do_symmetry_swap_s:=" << on(3) << "\n"
      << "do_symmetry_shift_z:=" << on(4) << "\n";
    return s.str();
  }
  //! keywords of ProjMatrixByBinUsingRayTracing::initialise_keymap (+ the two of ProjMatrixByBin)
  std::string rt_par(bool with_sym, int cache_mode) const
  {
    std::ostringstream s;
    s << "Ray Tracing Matrix Parameters:=\n"
      << "disable caching:=" << (cache_mode == 0 ? 1 : 0) << "\n"
      << "store_only_basic_bins_in_cache:=" << (cache_mode == 1 ? 1 : 0) << "\n"
      << "restrict to cylindrical FOV:=" << (cyl ? 1 : 0) << "\n"
      << "number of rays in tangential direction to trace for each bin:=" << lors << "\n"
      << "use actual detector boundaries:=" << (adb ? 1 : 0) << "\n"
      << sym_keys(with_sym) << "End Ray Tracing Matrix Parameters:=\n";
    return s.str();
  }
  //! keywords of ProjMatrixByBinUsingInterpolation::initialise_keymap
  std::string interp_par(bool with_sym, int cache_mode) const
  {
    std::ostringstream s;
    s << "Interpolation Matrix Parameters:=\n"
      << "use_piecewise_linear_interpolation:=" << (pli ? 1 : 0) << "\n"
      << "use_exact_Jacobian:=" << (jac ? 1 : 0) << "\n"
      << "disable caching:=" << (cache_mode == 0 ? 1 : 0) << "\n"
      << "store_only_basic_bins_in_cache:=" << (cache_mode == 1 ? 1 : 0) << "\n"
      << sym_keys(with_sym) << "End Interpolation Matrix Parameters:=\n";
    return s.str();
  }

  //! keywords of ProjMatrixByBinSPECTUB::initialise_keymap (no attenuation: that needs an attenuation image file)
  std::string spect_par(int cache_mode) const
  {
    std::ostringstream s;
    s << "Projection Matrix By Bin SPECT UB Parameters:=\n"
      << "disable caching:=" << (cache_mode == 0 ? 1 : 0) << "\n"
      << "store_only_basic_bins_in_cache:=" << (cache_mode == 1 ? 1 : 0) << "\n"
      << "maximum number of sigmas:= 2.0\n"
      << "psf type:=" << (psf == 0 ? "Geometrical" : (psf == 1 ? "2D" : "3D")) << "\n"
      << "collimator slope := " << (psf == 0 ? 0. : 0.0163) << "\n"
      << "collimator sigma 0(cm) := " << (psf == 0 ? 0. : 0.1466) << "\n"
      << "attenuation type := No\n"
      << "mask type := " << (mask == 0 ? "No" : "Cylinder") << "\n"
      << "keep_all_views_in_cache:=" << (keep ? 1 : 0) << "\n"
      << "End Projection Matrix By Bin SPECT UB Parameters:=\n";
    return s.str();
  }

  //! (re-)configure an object of the class under test with the current switches (the only way for "interp" and "file")
  void configure(ProjMatrixByBin& mm, bool with_sym, int cache_mode) const
  {
    switch (kind)
      {
      case K_RT:
        {
          ProjMatrixByBinUsingRayTracing& r = dynamic_cast<ProjMatrixByBinUsingRayTracing&>(mm);
          if (via_parse)
            {
              std::istringstream is(rt_par(with_sym, cache_mode));
              if (!r.parse(is))
                error("harness: cannot parse the ray tracing matrix parameters");
            }
          else
            {
              r.set_use_actual_detector_boundaries(adb);
              apply_switches(r, with_sym, cache_mode);
            }
          break;
        }
      case K_INTERP:
        {
          std::istringstream is(interp_par(with_sym, cache_mode));
          if (!dynamic_cast<ProjMatrixByBinUsingInterpolation&>(mm).parse(is))
            error("harness: cannot parse the interpolation matrix parameters");
          break;
        }
      case K_SPECT:
        {
          std::istringstream is(spect_par(cache_mode));
          if (!dynamic_cast<ProjMatrixByBinSPECTUB&>(mm).parse(is))
            error("harness: cannot parse the SPECT UB matrix parameters");
          break;
        }
      case K_FILE:
        {
          // the header written by ProjMatrixByBinFromFile::write_to_file (symmetries, templates, data file); it has no cache keywords
          if (!dynamic_cast<ProjMatrixByBinFromFile&>(mm).parse(hpm.c_str()))
            error("harness: cannot parse the matrix file header");
          apply_cache_mode(mm, cache_mode);
          break;
        }
      }
  }
  shared_ptr<ProjMatrixByBin> make_object(bool with_sym, int cache_mode) const
  {
    shared_ptr<ProjMatrixByBin> p;
    switch (kind)
      {
      case K_RT: p.reset(new ProjMatrixByBinUsingRayTracing()); break;
      case K_INTERP: p.reset(new ProjMatrixByBinUsingInterpolation()); break;
      case K_FILE: p.reset(new ProjMatrixByBinFromFile()); break;
      case K_SPECT: p.reset(new ProjMatrixByBinSPECTUB()); break;
      }
    configure(*p, with_sym, cache_mode);
    return p;
  }

  //! would a FRESH object of the class under test with the current switches accept (geometry gg, image ii)?  (error() at set_up = rejected configuration)
  bool probe(int gg, int ii, std::string& why) const
  {
    try
      {
        if (kind == K_FILE && hpm.empty())
          { // before the file exists: the ray-tracing matrix it will be written from
            ProjMatrixByBinUsingRayTracing fresh;
            apply_switches(fresh);
            fresh.set_up(geo[gg].pdi, img[ii]);
            ProjMatrixElemsForOneBin row;
            const ProjDataInfo& p = *geo[gg].pdi;
            for (int sg = p.get_min_segment_num(); sg <= p.get_max_segment_num(); ++sg)
              fresh.get_proj_matrix_elems_for_one_bin(row, Bin(sg, p.get_min_view_num(), p.get_min_axial_pos_num(sg), 0, 0));
            return true;
          }
        shared_ptr<ProjMatrixByBin> fresh = make_object(true, cache);
        fresh->set_up(geo[gg].pdi, img[ii]);
        // calculate_proj_matrix_elems_for_one_bin has one more error() ("need sampling distance in axial direction to be an
        // integer multiple of the voxel size", tested to 1e-3 per segment, while set_up tests to 1e-2): ask for one row per segment
        ProjMatrixElemsForOneBin row;
        const ProjDataInfo& p = *geo[gg].pdi;
        for (int sg = p.get_min_segment_num(); sg <= p.get_max_segment_num(); ++sg)
          fresh->get_proj_matrix_elems_for_one_bin(row, Bin(sg, p.get_min_view_num(), p.get_min_axial_pos_num(sg), 0, 0));
        if (kind == K_SPECT)
          { // the SPECT UB matrix computes a view when its first row is requested and has error()s of its own there
            // ("Error weight3d: psf length greater than maxszb in calc_psf_bin"): one row of every view
            for (int v = p.get_min_view_num(); v <= p.get_max_view_num(); ++v)
              fresh->get_proj_matrix_elems_for_one_bin(row, Bin(0, v, p.get_min_axial_pos_num(0), 0, 0));
          }
      }
    catch (const stir_verif::AssertionFailure&)
      {
        throw;
      }
    catch (const std::exception& e)
      {
        why = e.what();
        return false;
      }
    return true;
  }

  bool effective_adb() const { return kind == K_RT ? rt().get_use_actual_detector_boundaries() : false; }

  //! symmetry-free cache-free ray-tracing matrix + the geometry the tie screen needs (kinds "rt" and "file")
  const Ref& ref()
  {
    const RefKey k{ g, i, lors, cyl, effective_adb() };
    auto it = refs.find(k);
    if (it != refs.end())
      return it->second;
    Ref R;
    vp::MatrixOpts o;
    o.num_tangential_LORs = lors;
    o.restrict_to_cylindrical_FOV = cyl;
    o.use_actual_detector_boundaries = k.adb;
    R.m = vp::make_plain_matrix(o);
    R.m->set_up(geo[g].pdi, img[i]);
    R.pdi = geo[g].pdi;
    R.voxel_size = img[i]->get_voxel_size();
    R.origin = img[i]->get_origin();
    img[i]->get_regular_range(R.imin, R.imax);
    R.lors = lors;
    R.cyl_fov = cyl;
    R.adb = R.m->get_use_actual_detector_boundaries();
    return refs.emplace(k, R).first->second;
  }

  //! fresh cache-free object "same class, same settings" (with_sym) / "same class, all symmetries off" (!with_sym).
  //! For kind "file" it is the ray-tracing matrix the file was written from (with_sym only).
  ProjMatrixByBin& cls_ref(bool with_sym)
  {
    const ClsKey k(g, i, symbits(with_sym), kind == K_INTERP ? int(pli) : (kind == K_SPECT ? psf : 0), kind == K_INTERP ? int(jac) : (kind == K_SPECT ? mask : 0),
                   kind == K_INTERP ? 0 : (kind == K_SPECT ? int(keep) : lors), (kind == K_INTERP || kind == K_SPECT) ? 0 : int(cyl), int(effective_adb()));
    auto it = cls_refs.find(k);
    if (it != cls_refs.end())
      return *it->second;
    shared_ptr<ProjMatrixByBin> p;
    if (kind == K_FILE)
      {
        shared_ptr<ProjMatrixByBinUsingRayTracing> r(new ProjMatrixByBinUsingRayTracing());
        apply_switches(*r, with_sym, 0);
        p = r;
      }
    else
      p = make_object(with_sym, kind == K_SPECT ? 1 : 0);
    p->set_up(geo[g].pdi, img[i]);
    return *cls_refs.emplace(k, p).first->second;
  }

  Bin bin_from(long a, long b, long c, long d, long e) const
  {
    const ProjDataInfo& p = *geo[g].pdi;
    auto md = [](long x, long n) { return int(((x % n) + n) % n); };
    const int seg = p.get_min_segment_num() + md(a, p.get_num_segments());
    const int view = p.get_min_view_num() + md(b, p.get_num_views());
    const int ax = p.get_min_axial_pos_num(seg) + md(c, p.get_num_axial_poss(seg));
    const int tang = p.get_min_tangential_pos_num() + md(d, p.get_num_tangential_poss());
    const int tof = p.get_min_tof_pos_num() + md(e, p.get_num_tof_poss());
    return Bin(seg, view, ax, tang, tof);
  }
  Bin bin_from(const BinKey& k) const
  {
    const ProjDataInfo& p = *geo[g].pdi;
    return bin_from(std::get<0>(k) - p.get_min_segment_num(), std::get<1>(k) - p.get_min_view_num(), std::get<2>(k), std::get<3>(k) - p.get_min_tangential_pos_num(),
                    std::get<4>(k) - p.get_min_tof_pos_num());
  }

  void event(const std::string& what)
  {
    if (trail.size() < 600)
      trail += what + ";";
    since_event.clear();
    basics_via_related.clear();
    if (n_gets > 0)
      had_event = true;
  }

  //! does the interpolation matrix use piecewise-linear interpolation for this image (ProjMatrixByBinUsingInterpolation::set_up)?
  bool interp_pli_fits(int gg, int ii) const
  {
    const float rel = img[ii]->get_voxel_size().z() / geo[gg].pdi->get_sampling_in_m(Bin(0, 0, 0, 0));
    return std::fabs(rel - .5) < .01;
  }
  //! to be called just before m->set_up(geo[gg], img[ii]) for kind "interp".
  // FINDING C03-F3 (see REPORT): ProjMatrixByBinUsingInterpolation::set_up overwrites the PARSED member
  // use_piecewise_linear_interpolation_now with "false" when the image's z spacing is not half the axial sampling; a later
  // set_up of the same object for an image that does fit keeps linear interpolation, a fresh object uses piecewise-linear.
  // Narrow exclusion: exactly that event (requested, member already switched off, new image fits) is preceded by a re-parse
  // of the parameters (which resets the member); VERIF_NO_EXCLUDE=1 switches the work-around off.
  void interp_before_setup(int gg, int ii)
  {
    if (kind != K_INTERP)
      return;
    if (pli && !interp_pli_member && interp_pli_fits(gg, ii))
      {
        if (!no_exclude("F3"))
          {
            stats().excluded_known++;
            stats().count("excluded:C03:interpolation-matrix:piecewise-linear-switched-off-by-earlier-set_up");
            configure(*m, true, cache);
            interp_pli_member = pli;
          }
        else
          stats().count("known class executed: interpolation matrix, piecewise-linear switched off by an earlier set_up");
      }
    if (interp_pli_member && !interp_pli_fits(gg, ii))
      interp_pli_member = false;
  }
  // FINDING C03-F5 (see REPORT): ProjMatrixByBinUsingInterpolation::get_element takes the voxel extent along s as
  //   "cphi > sphi ? voxel_size.x() : voxel_size.y()"   (ProjMatrixByBinUsingInterpolation.cxx:243)
  // i.e. without absolute values: for views beyond 135 degrees (cphi < -sphi, the s axis is closer to the x axis) it takes
  // the y size, while the row derived from the mirrored basic view (0..45 degrees) was computed with the x size.  With
  // vx != vy (and a bin size below the larger of the two) the symmetry-derived row and the directly computed row are two
  // different interpolation kernels.  Narrow exclusion of oracle (2): exactly the gets for which the expression differs
  // between the bin and its basic bin AND changes the kernel width.
  bool interp_known_anisotropic(const Bin& bin) const
  {
    const CartesianCoordinate3D<float> vs = img[i]->get_voxel_size();
    if (vs.x() == vs.y())
      return false;
    Bin basic = bin;
    m->get_symmetries_ptr()->find_basic_bin(basic);
    const ProjDataInfo& p = *geo[g].pdi;
    auto width = [&](const Bin& b) {
      const float phi = p.get_phi(b);
      const float cphi = cos(phi), sphi = sin(phi);
      return std::max(cphi > sphi ? vs.x() : vs.y(), p.get_sampling_in_s(b));
    };
    return width(bin) != width(basic);
  }
  // FINDING C03-F7 (see REPORT): calculate_proj_matrix_elems_for_one_bin leaves its loops over x, y and z at the first zero
  // after a non-zero element ("In each dimension, we ASSUME that the non-zero range is CONNECTED",
  // ProjMatrixByBinUsingInterpolation.cxx:325-329).  The voxels with a non-zero element are the lattice points of a rectangle
  // of half-width s_max across the LOR and half-length m_width/|tan(theta)| along it, per plane.  The assumption fails
  //  (a) in y when one lattice step along s, max(vx|cos phi|, vy|sin phi|), exceeds the kernel half-width s_max = max(ONE of the
  //      two voxel sizes, bin size): only possible with different x and y voxel sizes;
  //  (b) in z when one transaxial lattice step changes the axial position of the LOR by more than a fraction of the axial
  //      kernel: max(vx,vy)|tan(theta)| vs max(vz, axial sampling): voxels of tens of mm (toy scanners with 4..8 detectors).
  // The row is then cut at the first gap - at the low-index end, which the symmetry operations map to the other end: the
  // symmetry-derived row keeps the voxels the directly computed row loses and vice versa.  Excluded from oracle (2): gets that
  // are served through a non-identity symmetry operation AND for which (a) or (b) does not hold with the margins below
  // (oracle (1) and the validity predicate stay on for them).
  bool interp_known_truncated(const Bin& bin) const
  {
    Bin basic = bin;
    if (!m->get_symmetries_ptr()->find_basic_bin(basic))
      return false; // served directly: object under test and reference run the same loops
    const CartesianCoordinate3D<float> vs = img[i]->get_voxel_size();
    const ProjDataInfo& p = *geo[g].pdi;
    const double phi = p.get_phi(bin), tantheta = std::fabs(p.get_tantheta(bin));
    const double step_s = std::max(vs.x() * std::fabs(std::cos(phi)), vs.y() * std::fabs(std::sin(phi)));
    const double s_max_low = std::max(double(std::min(vs.x(), vs.y())), double(p.get_sampling_in_s(bin)));
    const double m_max = std::max(double(vs.z()), double(p.get_sampling_in_m(bin)));
    const bool ok_a = step_s <= s_max_low * (1 + 1e-4);
    const bool ok_b = std::max(vs.x(), vs.y()) * tantheta <= 0.25 * m_max;
    return !(ok_a && ok_b);
  }
  void reconfigure_object()
  {
    configure(*m, true, cache);
    interp_pli_member = pli;
  }

  //! the property quantifies over image grids with "z-spacing = ring spacing / k".  STIR's set_up accepts a relative mismatch
  //! of up to 1e-2 (DataSymmetriesForBins_PET_CartesianGrid.cxx:73,99: "can currently only support z-grid spacing equal to the
  //! ring spacing of the scanner divided by an integer", tested to 1.E-2), for which the symmetry operations are only
  //! approximate.  An image laid out for geometry A is combined with geometry B only if the relation holds to float accuracy.
  bool commensurate(int gg, int ii) const
  {
    const ProjDataInfoCylindrical* cyl_pdi = cyl_of(geo[gg].pdi.get());
    if (!cyl_pdi)
      return true;
    const double vz = img[ii]->get_voxel_size().z();
    auto integral = [](double r) { return std::fabs(r - std::round(r)) <= 1e-5 * std::max(1., r); };
    if (!integral(cyl_pdi->get_ring_spacing() / vz))
      return false;
    for (int sg = cyl_pdi->get_min_segment_num(); sg <= cyl_pdi->get_max_segment_num(); ++sg)
      if (!integral(cyl_pdi->get_axial_sampling(sg) / vz))
        return false;
    return true;
  }

  //! largest relative deviation of (axial sampling / z voxel size) and (ring spacing / z voxel size) from an integer, current geometry
  double z_mismatch() const
  {
    const ProjDataInfoCylindrical* cyl_pdi = cyl_of(geo[g].pdi.get());
    if (!cyl_pdi)
      return 0;
    const double vz = img[i]->get_voxel_size().z();
    auto dev = [](double r) { return std::fabs(r - std::round(r)) / std::max(1., std::round(r)); };
    double e = dev(cyl_pdi->get_ring_spacing() / vz);
    for (int sg = cyl_pdi->get_min_segment_num(); sg <= cyl_pdi->get_max_segment_num(); ++sg)
      e = std::max(e, dev(cyl_pdi->get_axial_sampling(sg) / vz));
    return e;
  }

  Result do_setup(int gg, int ii, const char* what)
  {
    std::string why;
    if (kind == K_FILE)
      { // ProjMatrixByBinFromFile::set_up error()s for any image other than the stored one and for data that are not a sub-range
        // of the stored data ("set-up with image with wrong index range / voxel size / origin", "wrong characteristics"):
        // every set_up event is a set_up for (geometry A, image A) again
        gg = 0;
        ii = 0;
      }
    {
      // (class of the fixed defect C03-F1, replays/C03/fixed_resetup_index_range.json: same data, voxel size and origin, other index range)
      CartesianCoordinate3D<int> a0, a1, b0, b1;
      img[i]->get_regular_range(a0, a1);
      img[ii]->get_regular_range(b0, b1);
      if (*geo[g].pdi == *geo[gg].pdi && img[i]->get_voxel_size() == img[ii]->get_voxel_size() && img[i]->get_origin() == img[ii]->get_origin() && (a0 != b0 || a1 != b1))
        stats().count("set_up events for an image that differs only in its index range");
    }
    if (!probe(gg, ii, why))
      {
        stats().count("set_up events skipped (fresh matrix rejects the combination)");
        return Result::pass();
      }
    if (!commensurate(gg, ii))
      {
        stats().count("set_up events skipped (image z spacing is not ring spacing / k for this geometry)");
        return Result::pass();
      }
    if (kind == K_SPECT && !no_exclude("S2"))
      { // FINDING C03-S2: set_up for data and image with the characteristics of the current ones "reuses" the matrix, but
        // ProjMatrixByBin::set_up has emptied the cache (the only store) before: every row of an already computed view is empty
        CartesianCoordinate3D<int> a0, a1, b0, b1;
        img[i]->get_regular_range(a0, a1);
        img[ii]->get_regular_range(b0, b1);
        if (*geo[g].pdi == *geo[gg].pdi && img[i]->get_voxel_size() == img[ii]->get_voxel_size() && img[i]->get_origin() == img[ii]->get_origin() && a0 == b0 && a1 == b1)
          {
            stats().excluded_known++;
            stats().count("excluded:C03:SPECTUB-matrix:clear_cache-or-set_up-again");
            g = gg;
            i = ii;
            return Result::pass();
          }
      }
    interp_before_setup(gg, ii);
    {
      // statistics: a second set_up whose view/segment range overlaps the previous one (VectorWithOffset::resize would keep the
      // cache maps of the overlap if ProjMatrixByBin::set_up did not recycle them first)
      const ProjDataInfo &p0 = *geo[g].pdi, &p1 = *geo[gg].pdi;
      if ((g != gg || i != ii) && cache != 0 && std::max(p0.get_min_view_num(), p1.get_min_view_num()) <= std::min(p0.get_max_view_num(), p1.get_max_view_num()))
        stats().count(cat("set_up events for another geometry/image with an overlapping view range, cache on [", kind_name(kind), "]"));
    }
    g = gg;
    i = ii;
    set_up_m(g, i); // must not throw: a fresh matrix with the same settings accepted it
    event(cat(what, "(g", g, ",i", i, ")"));
    return Result::pass();
  }

  Result get(const Bin& bin, const char* how);
  Result compare(const SparseRow& a, const ProjMatrixElemsForOneBin& want, double tol, double kappa, const char* label, const char* stat, const std::string& ctx, double scale_floor = 0.);
  double interp_scale();
  Result run_op(const json& op, int tier);
};

//! magnitude of the interpolation matrix for the current geometry: the largest element of the rows of the central bins
//! (segment 0, every view, tangential positions -1..1, every axial position, central TOF bin) of the symmetry-free fresh object.
// An element is kernel_s(<=1) x kernel_m(<=1) x Jacobian; a float rounding error d in a kernel argument changes the element by
// <= d x Jacobian whatever the size of the row, so differences are measured against max(row maximum, this magnitude): rows that
// only touch a voxel at the very edge of the kernel (row maximum 1e-10 of the magnitude) are not compared with themselves.
double
Run::interp_scale()
{
  const ClsKey k(g, i, -1, int(pli), int(jac), 0, 0, 0);
  auto it = scales.find(k);
  if (it != scales.end())
    return it->second;
  ProjMatrixByBin& ref0 = cls_ref(false);
  const ProjDataInfo& p = *geo[g].pdi;
  double mx = 0;
  ProjMatrixElemsForOneBin row;
  for (int v = p.get_min_view_num(); v <= p.get_max_view_num(); ++v)
    for (int ax = p.get_min_axial_pos_num(0); ax <= p.get_max_axial_pos_num(0); ++ax)
      for (int t = std::max(-1, p.get_min_tangential_pos_num()); t <= std::min(1, p.get_max_tangential_pos_num()); ++t)
        {
          ref0.get_proj_matrix_elems_for_one_bin(row, Bin(0, v, ax, t, 0));
          for (auto e = row.begin(); e != row.end(); ++e)
            mx = std::max(mx, double(e->get_value()));
        }
  scales[k] = mx;
  return mx;
}

Result
Run::compare(const SparseRow& a, const ProjMatrixElemsForOneBin& want, double tol, double kappa, const char* label, const char* stat, const std::string& ctx, double scale_floor)
{
  SparseRow b;
  to_sparse(want, b);
  const double mx = std::max(std::max(a.mx, b.mx), scale_floor);
  if (mx <= 0)
    return Result::pass();
  const Diff d = max_diff(a, b);
  const double rel = d.worst / mx;
  stats().maxi(cat("max |row - ", stat, "| / row max"), rel);
  stats().maxi(cat("max |row - ", stat, "| / row max / tolerance"), rel / tol);
  if (rel > tol && std::getenv("C03_DUMP"))
    {
      std::cerr << "C03_DUMP " << label << "\n  got:";
      for (auto& e : a.e)
        std::cerr << " (" << std::get<0>(e.first) << "," << std::get<1>(e.first) << "," << std::get<2>(e.first) << ")=" << e.second;
      std::cerr << "\n  ref:";
      for (auto& e : b.e)
        std::cerr << " (" << std::get<0>(e.first) << "," << std::get<1>(e.first) << "," << std::get<2>(e.first) << ")=" << e.second;
      std::cerr << "\n";
    }
  VF_CHECK(rel <= tol, "row differs from ", label, ": voxel (z,y,x)=(", std::get<0>(d.at), ",", std::get<1>(d.at), ",", std::get<2>(d.at), ") has ", d.wa, ", reference ", d.wb, "; row max ", mx,
           " (rel ", rel, ", tolerance ", tol, ", kappa ", kappa, "); sizes ", a.e.size(), " / ", b.e.size(), "; ", ctx);
  return Result::pass();
}

#define C03_DO(expr)                                                                                                             \
  do                                                                                                                             \
    {                                                                                                                            \
      const Result r_ = (expr);                                                                                                  \
      if (r_.kind != Result::PASS)                                                                                               \
        return r_;                                                                                                               \
    }                                                                                                                            \
  while (0)

Result
Run::get(const Bin& bin, const char* how)
{
  ++n_gets;
  stats().count("gets");
  if (kind != K_RT)
    stats().count(cat("gets [", kind_name(kind), "]"));
  double kappa = 1;
  const Ref* R = nullptr;
  if (kind == K_RT || kind == K_FILE)
    { // the tie screen belongs to the ray tracer (end points on voxel boundaries); the interpolation kernel is continuous
      R = &ref();
      if (screen_bin(*R, bin, kappa))
        {
          ++n_screened;
          stats().count("gets screened (tie)");
          return Result::pass();
        }
    }
  requested.push_back(key(bin));
  const bool tof = geo[g].pdi->is_tof_data();
  const std::string ctx = cat(how, " ", show(bin), " [", kind_name(kind), via_parse ? "(parsed)" : "", " g", g, ",i", i, " sym=", sym[0], sym[1], sym[2], sym[3], sym[4], " cache=", cache, " lors=", lors,
                              " cylFOV=", cyl, " adb=", effective_adb(), kind == K_INTERP ? cat(" pli=", pli, " jac=", jac) : (kind == K_SPECT ? cat(" psf=", psf, " mask=", mask, " keep=", keep) : std::string()), "] after {", trail, "}");
  // statistics: non-trivial get = served through a non-identity symmetry operation, or (potentially) from the cache after an event
  {
    const DataSymmetriesForBins& S = *m->get_symmetries_ptr();
    Bin basic = bin;
    const unique_ptr<SymmetryOperation> sop = S.find_symmetry_operation_from_basic_bin(basic);
    const bool via_sym = !sop->is_trivial();
    {
      // coverage histogram of the symmetry-operation classes (statistics only)
      std::string n = typeid(*sop).name();
      const std::size_t pos = n.find("CartesianGrid_");
      stats().cls("symmetry operation: " + (pos == std::string::npos ? (via_sym ? n : std::string("trivial")) : n.substr(pos + 14, n.size() - pos - 15)));
    }
    // ---- the siblings of find_symmetry_operation_from_basic_bin (DataSymmetriesForBins.h: "find_basic_bin: sets 'b' to the
    // corresponding 'basic' bin and returns true if 'b' is changed", "is_basic", "returns the symmetry transformation from
    // 'basic' to 'b'"): the projectors group bins with these, the matrix derives rows with the operation - they must agree
    {
      Bin b1 = bin;
      const bool changed = S.find_basic_bin(b1);
      VF_CHECK(key(b1) == key(basic), "find_basic_bin gives ", show(b1), " but find_symmetry_operation_from_basic_bin gives ", show(basic), " for ", ctx);
      VF_CHECK(changed == (key(basic) != key(bin)), "find_basic_bin returns ", changed, " although the basic bin is ", show(basic), " for ", ctx);
      VF_CHECK(S.is_basic(basic), "is_basic(", show(basic), ") is false for the basic bin of ", ctx);
      VF_CHECK(S.is_basic(bin) == (key(basic) == key(bin)), "is_basic(bin) = ", S.is_basic(bin), " but the basic bin is ", show(basic), " for ", ctx);
      Bin b3 = basic;
      sop->transform_bin_coordinates(b3);
      VF_CHECK(key(b3) == key(bin), "the symmetry operation maps the basic bin ", show(basic), " to ", show(b3), " instead of the requested ", ctx);
    }
    const bool again = since_event.count(key(bin)) > 0;
    const bool nt = via_sym || (cache != 0 && had_event) || (cache != 0 && again);
    if (via_sym)
      stats().count("gets via non-identity symmetry");
    if (cache != 0 && again)
      stats().count("gets repeated with cache on");
    if (cache != 0 && had_event)
      stats().count("gets after clear/set_up/flip with cache on");
    if (nt)
      {
        ++n_nontrivial;
        stats().count("gets non-trivial");
        if (kind != K_RT)
          stats().count(cat("gets non-trivial [", kind_name(kind), "]"));
      }
    if (tof)
      { // TOF path of get_proj_matrix_elems_for_one_bin: which branch can serve this request
        stats().count(cat("TOF gets, cache mode ", cache));
        if (cache != 0)
          {
            const bool basic_seen = since_event.count(key(basic)) > 0;
            if (again)
              stats().count(cat("TOF gets, cache mode ", cache, ": bin requested before (row from the cache)"));
            else if (via_sym && basic_seen)
              stats().count(cat("TOF gets, cache mode ", cache, ": related bin AFTER its basic bin"));
            else if (!via_sym && basics_via_related.count(key(bin)) > 0)
              stats().count(cat("TOF gets, cache mode ", cache, ": basic bin AFTER a related bin"));
          }
      }
    if (via_sym)
      basics_via_related.insert(key(basic));
    since_event.insert(key(bin));
  }
  ProjMatrixElemsForOneBin fresh_row, want;
  ProjMatrixElemsForOneBin& got = reuse_row ? held : fresh_row;
  if (reuse_row)
    {
      if (held.size() == 0) // never hand over an empty row: an element far outside any image with a negative value
        held.push_back(ProjMatrixElemsForOneBin::value_type(Coordinate3D<int>(1000, -1000, 1000), -5.F));
      stats().count("gets into a reused row object (holds the previous answer)");
    }
  if (kind == K_SPECT && !no_exclude("S1"))
    { // FINDING C03-S1 (see REPORT): the FIRST request for a bin of a view that is not in the cache returns an EMPTY row
      // (ProjMatrixByBinSPECTUB::calculate_proj_matrix_elems_for_one_bin computes the view into the cache and ends with
      // lor.erase()); narrow exclusion: every request is made twice and the second answer is checked
      m->get_proj_matrix_elems_for_one_bin(want, bin);
      m->get_proj_matrix_elems_for_one_bin(got, bin);
      if (want.size() == 0 && got.size() != 0)
        {
          stats().excluded_known++;
          stats().count("excluded:C03:SPECTUB-matrix:first-request-of-a-view-returns-an-empty-row");
        }
    }
  else
    m->get_proj_matrix_elems_for_one_bin(got, bin);

  // ---- validity of the returned row (independent of the differential) ---------------------------
  {
    const Bin& sb = got.get_bin();
    VF_CHECK(sb.segment_num() == bin.segment_num() && sb.view_num() == bin.view_num() && sb.axial_pos_num() == bin.axial_pos_num()
                 && sb.tangential_pos_num() == bin.tangential_pos_num() && sb.timing_pos_num() == bin.timing_pos_num(),
             "row stores ", show(sb), " but was requested for ", ctx);
  }
  CartesianCoordinate3D<int> imin, imax;
  img[i]->get_regular_range(imin, imax);
  long out_of_z = 0;
  for (auto it = got.begin(); it != got.end(); ++it)
    {
      const double v = it->get_value();
      VF_CHECK(v >= 0 && std::isfinite(v), "negative or non-finite element ", v, " at voxel (z,y,x)=(", it->coord1(), ",", it->coord2(), ",", it->coord3(), ") in ", ctx);
      VF_CHECK(it->coord2() >= imin.y() && it->coord2() <= imax.y() && it->coord3() >= imin.x() && it->coord3() <= imax.x(), "element outside the image in x/y: (z,y,x)=(", it->coord1(), ",",
               it->coord2(), ",", it->coord3(), ") value ", v, ", image y ", imin.y(), "..", imax.y(), " x ", imin.x(), "..", imax.x(), " in ", ctx);
      if (it->coord1() < imin.z() || it->coord1() > imax.z())
        ++out_of_z;
    }
  SparseRow a;
  to_sparse(got, a);
  stats().count("elements", long(a.e.size()));
  stats().count("elements outside the axial range (skipped by the projectors; counted, not flagged)", out_of_z);
  for (std::size_t k = 1; k < a.e.size(); ++k)
    VF_CHECK(a.e[k].first != a.e[k - 1].first, "voxel (z,y,x)=(", std::get<0>(a.e[k].first), ",", std::get<1>(a.e[k].first), ",", std::get<2>(a.e[k].first), ") occurs twice in ", ctx);
  VF_CHECK(got.check_state() == Succeeded::yes, "check_state()==no for ", ctx);

  if (kind == K_SPECT)
    {
      if (a.e.empty())
        stats().count("gets with empty row");
      // fresh object, same settings (the cache is the only store of this class: basic-bin mode), asked twice (finding C03-S1)
      ProjMatrixByBin& fresh = cls_ref(true);
      fresh.get_proj_matrix_elems_for_one_bin(want, bin);
      fresh.get_proj_matrix_elems_for_one_bin(want, bin);
      C03_DO(compare(a, want, TOL_SAME, 1., "the row of a FRESH SPECT UB matrix with the same settings", "fresh same-settings row [spect]", ctx));
      return Result::pass();
    }
  if (kind == K_INTERP)
    {
      if (a.e.empty())
        stats().count("gets with empty row");
      // (1) fresh object, same settings, cache disabled: same arithmetic, only the history differs
      cls_ref(true).get_proj_matrix_elems_for_one_bin(want, bin);
      C03_DO(compare(a, want, TOL_SAME, 1., "the row of a FRESH interpolation matrix with the same settings", "fresh same-settings row [interp]", ctx));
      // (2) fresh object, all symmetries off: "computed directly"
      if (interp_known_anisotropic(bin))
        { // FINDING C03-F5 (see interp_known_anisotropic)
          if (!no_exclude("F5"))
            {
              stats().excluded_known++;
              stats().count("excluded:C03:interpolation-matrix:anisotropic-xy-voxels:view-beyond-135-degrees");
              return Result::pass();
            }
          stats().count("known class executed: interpolation matrix, anisotropic xy voxels, view beyond 135 degrees");
        }
      if (interp_known_truncated(bin))
        { // FINDING C03-F7 (see interp_known_truncated)
          if (!no_exclude("F7"))
            {
              stats().excluded_known++;
              stats().count("excluded:C03:interpolation-matrix:voxels-not-connected:row-via-symmetry");
              return Result::pass();
            }
          stats().count("known class executed: interpolation matrix, non-zero voxels not connected, row derived through a symmetry");
        }
      cls_ref(false).get_proj_matrix_elems_for_one_bin(want, bin);
      C03_DO(compare(a, want, tol_interp_symfree(), 1., "the directly computed row (fresh interpolation matrix, all symmetries off)", "direct row [interp]", ctx, interp_scale()));
      return Result::pass();
    }
  if (kind == K_FILE)
    {
      // (1) the matrix that was written: fresh cache-free ray-tracing matrix with the switches the file was written with
      cls_ref(true).get_proj_matrix_elems_for_one_bin(want, bin);
      C03_DO(compare(a, want, TOL_SAME, kappa, "the row of the ray-tracing matrix the file was written from", "written row [file]", ctx));
    }
  // ---- differential with the directly computed row (ray tracing, no symmetries, no cache) ---------------------
  R->m->get_proj_matrix_elems_for_one_bin(want, bin);
  SparseRow b;
  to_sparse(want, b);
  const double mx = std::max(a.mx, b.mx);
  if (a.e.empty() && b.e.empty())
    stats().count("gets with empty row");
  if (mx > 0)
    {
      const Diff d = max_diff(a, b);
      const double rel = d.worst / mx;
      stats().maxi(tof ? "max |row - direct row| / row max (TOF)" : "max |row - direct row| / row max (non-TOF)", rel);
      if (kappa < 30)
        stats().maxi(kind == K_FILE ? "max |row - direct row| / row max, well-conditioned rays (kappa<30) [file]" : "max |row - direct row| / row max, well-conditioned rays (kappa<30)", rel);
      else
        stats().maxi(kind == K_FILE ? "max |row - direct row| / row max / kappa, kappa>=30 [file]" : "max |row - direct row| / row max / kappa, kappa>=30", rel / kappa);
      stats().maxi("max kappa", kappa);
      // kind "file": data and image went through Interfile headers (about 6 significant digits), so "z spacing = axial sampling / k"
      // holds to eps ~ 1e-6 only (rt: float division, eps <= 1e-7; commensurate() admits up to 1e-5).  The z-shift / z-mirror
      // symmetries assume the relation exactly: a relative mismatch eps displaces plane crossings by up to eps x (number of
      // planes) voxels, which nearly-parallel rays amplify by kappa exactly like a rounding error of that size.
      // The same holds for the z origin, which has to be a whole number of planes (read back as e.g. -1.999994 planes).
      const double z_off_planes = std::fabs(img[i]->get_origin().z() / img[i]->get_voxel_size().z() - std::round(img[i]->get_origin().z() / img[i]->get_voxel_size().z()));
      const double misplaced = z_mismatch() * double(imax.z() - imin.z() + 1) + z_off_planes; // in planes
      const double tol = kind == K_FILE ? std::max(row_tolerance(kappa), (4e-5 + 25. * misplaced) * kappa) : row_tolerance(kappa);
      if (kind == K_FILE)
        stats().maxi("max displacement of planes through header precision (z spacing vs axial sampling / k, z origin), in planes [file]", misplaced);
      stats().maxi(kind == K_FILE ? "max |row - direct row| / row max / tolerance [file]" : "max |row - direct row| / row max / tolerance", rel / tol);
      if (std::getenv("C03_DEBUG") && rel > std::atof(std::getenv("C03_DEBUG")))
        std::cerr << "C03_DEBUG rel " << rel << " at (" << std::get<0>(d.at) << "," << std::get<1>(d.at) << "," << std::get<2>(d.at) << ") got " << d.wa << " direct " << d.wb << " max " << mx
                  << " sizes " << a.e.size() << "/" << b.e.size() << " " << ctx << " phi " << geo[g].pdi->get_phi(bin) << " s " << geo[g].pdi->get_s(bin) << " tanth " << geo[g].pdi->get_tantheta(bin)
                  << " vox " << R->voxel_size.x() << "," << R->voxel_size.y() << "," << R->voxel_size.z() << "\n";
      VF_CHECK(rel <= tol, "row differs from the directly computed row: voxel (z,y,x)=(", std::get<0>(d.at), ",", std::get<1>(d.at), ",", std::get<2>(d.at), ") has ", d.wa, ", direct ", d.wb,
               "; row max ", mx, " (rel ", rel, ", tolerance ", tol, ", kappa ", kappa, "); sizes ", a.e.size(), " / ", b.e.size(), "; ", ctx);
    }
  return Result::pass();
}

Result
Run::run_op(const json& op, int)
{
  auto arg = [&](std::size_t k) -> long { return k < op.size() && op[k].is_number() ? op[k].get<long>() : 0L; };
  const int code = int(arg(0));
  switch (code)
    {
    case OP_GET:
      return get(bin_from(arg(1), arg(2), arg(3), arg(4), arg(5)), "get");
    case OP_GETN:
      {
        SplitMix r(uint64_t(arg(1)));
        const long n = std::min(400L, std::max(0L, arg(2)));
        for (long k = 0; k < n; ++k)
          {
            const long a = r.range(0, 1 << 20), b = r.range(0, 1 << 20), c = r.range(0, 1 << 20), d = r.range(0, 1 << 20), e = r.range(0, 1 << 20);
            C03_DO(get(bin_from(a, b, c, d, e), "get(random)"));
          }
        return Result::pass();
      }
    case OP_REGET:
      {
        if (requested.empty())
          return Result::pass();
        const long n = std::min(100L, std::max(1L, arg(2)));
        const std::size_t total = requested.size();
        for (long k = 0; k < n; ++k)
          {
            const std::size_t idx = std::size_t((((arg(1) + k * 7) % long(total)) + long(total)) % long(total));
            C03_DO(get(bin_from(requested[total - 1 - idx]), "get(again)"));
          }
        return Result::pass();
      }
    case OP_ORBIT:
      {
        Bin b = bin_from(arg(1), arg(2), arg(3), arg(4), arg(5));
        Bin basic = b;
        m->get_symmetries_ptr()->find_basic_bin(basic);
        std::vector<Bin> rel;
        m->get_symmetries_ptr()->get_related_bins(rel, basic);
        stats().count("orbits requested");
        stats().maxi("largest orbit", double(rel.size()));
        const bool rev = arg(6) % 2 != 0;
        if (rev)
          std::reverse(rel.begin(), rel.end());
        const ProjDataInfo& p = *geo[g].pdi;
        if (p.is_tof_data() && rel.size() > 1)
          stats().count(cat("TOF orbits, cache mode ", cache, rev ? ": reverse order (related bins first)" : ": library order (basic bin first)"));
        for (const Bin& rb : rel)
          {
            // only bins of the data set are requested
            if (rb.segment_num() < p.get_min_segment_num() || rb.segment_num() > p.get_max_segment_num() || rb.view_num() < p.get_min_view_num()
                || rb.view_num() > p.get_max_view_num() || rb.axial_pos_num() < p.get_min_axial_pos_num(rb.segment_num())
                || rb.axial_pos_num() > p.get_max_axial_pos_num(rb.segment_num()) || rb.tangential_pos_num() < p.get_min_tangential_pos_num()
                || rb.tangential_pos_num() > p.get_max_tangential_pos_num() || rb.timing_pos_num() < p.get_min_tof_pos_num() || rb.timing_pos_num() > p.get_max_tof_pos_num())
              {
                stats().count("related bins outside the data (not requested)");
                continue;
              }
            Bin q(rb.segment_num(), rb.view_num(), rb.axial_pos_num(), rb.tangential_pos_num(), rb.timing_pos_num());
            C03_DO(get(q, "get(orbit)"));
          }
        return Result::pass();
      }
    case OP_CLEAR:
      if (kind == K_FILE && !no_exclude("F4"))
        { // FINDING C03-F4: the cache is the only store of a ProjMatrixByBinFromFile (see REPORT)
          stats().excluded_known++;
          stats().count("excluded:C03:from-file-matrix:clear_cache-or-cache-disabled");
          return Result::pass();
        }
      if (kind == K_SPECT && !no_exclude("S2"))
        { // FINDING C03-S2: the cache is the only store of a ProjMatrixByBinSPECTUB and "view already computed" survives clear_cache
          stats().excluded_known++;
          stats().count("excluded:C03:SPECTUB-matrix:clear_cache-or-set_up-again");
          return Result::pass();
        }
      m->clear_cache();
      event("clear_cache");
      return Result::pass();
    case OP_SETUP:
      return do_setup(int(((arg(1) % 2) + 2) % 2), int(((arg(2) % 2) + 2) % 2), "set_up");
    case OP_CLONE:
      {
        if (kind == K_SPECT)
          return Result::pass(); // ProjMatrixByBinSPECTUB::clone: error("... clone not implemented yet")
        m.reset(m->clone());
        stats().count(cat("clone events [", kind_name(kind), "]"));
        event("clone");
        return Result::pass();
      }
    case OP_SYM:
      {
        const int k = int(((arg(1) % 5) + 5) % 5);
        if (kind != K_FILE && kind != K_SPECT) // (the symmetries of a matrix file are part of the file, the SPECT matrix has none: the event is a re-parse)
          sym[k] = !sym[k];
        std::string why;
        if (!probe(g, i, why))
          { // (does not happen: the switches only ever disable checks) keep the object consistent
            sym[k] = !sym[k];
            return Result::pass();
          }
        if (kind == K_RT && !via_parse)
          apply_switches(rt());
        else
          reconfigure_object();
        interp_before_setup(g, i);
        set_up_m(g, i);
        event(cat("sym", k, "=", sym[k], kind == K_RT && !via_parse ? "" : "(parse)", "+set_up"));
        return Result::pass();
      }
    case OP_CACHE:
      {
        int mode = int(((arg(1) % 3) + 3) % 3);
        const bool no_setup = arg(2) % 2 != 0;
        if (kind == K_FILE && mode == 0 && !no_exclude("F4"))
          { // FINDING C03-F4 (see REPORT): with caching disabled a ProjMatrixByBinFromFile cannot store what it reads
            stats().excluded_known++;
            stats().count("excluded:C03:from-file-matrix:clear_cache-or-cache-disabled");
            mode = 1 + int(((arg(1) % 2) + 2) % 2);
          }
        if (kind == K_SPECT && mode == 0 && !no_exclude("S3"))
          { // FINDING C03-S3 (cache disabled: nothing is stored)
            stats().excluded_known++;
            stats().count("excluded:C03:SPECTUB-matrix:cache-disabled");
            mode = 1 + int(((arg(1) % 2) + 2) % 2);
          }
        cache = mode;
        apply_cache_mode(*m, cache);
        if (!no_setup && kind == K_SPECT && !no_exclude("S2"))
          { // FINDING C03-S2 (set_up again for the same data and image: the base class empties the cache, the rows are "reused")
            stats().excluded_known++;
            stats().count("excluded:C03:SPECTUB-matrix:clear_cache-or-set_up-again");
          }
        else if (!no_setup)
          {
            interp_before_setup(g, i);
            set_up_m(g, i); // (ray tracing: documented to be skipped when nothing relevant changed)
          }
        else
          stats().count(cat("cache mode switches without set_up [", kind_name(kind), "]"));
        event(cat("cache=", cache, no_setup ? "" : "+set_up"));
        return Result::pass();
      }
    case OP_OPT:
      {
        if (kind == K_FILE)
          return Result::pass(); // (no further options)
        const int old_lors = lors;
        const bool old_cyl = cyl, old_pli = pli, old_jac = jac;
        if (kind == K_SPECT && !no_exclude("S4"))
          { // FINDING C03-S4 (see REPORT): a ProjMatrixByBinSPECTUB that was set up with one PSF / mask type, is given another one
            // (parse() or the setters, both reset already_setup) and is set up again does not behave like a fresh object:
            // e.g. 2D PSF -> Geometrical stops with "Error weight3d: psf length greater than maxszb in calc_psf_bin" at the first row
            stats().excluded_known++;
            stats().count("excluded:C03:SPECTUB-matrix:other-psf-or-mask-type-on-a-used-object");
            return Result::pass();
          }
        if (kind == K_SPECT)
          { // (nothing a fresh object would reject)
            if (arg(1) % 2 == 0)
              psf = int(((arg(2) % 3) + 3) % 3);
            else
              mask = 1 - mask;
          }
        else if (kind == K_INTERP)
          {
            if (arg(1) % 2 == 0)
              pli = !pli;
            else
              jac = !jac;
          }
        else if (arg(1) % 2 == 0)
          lors = 1 + int(((arg(2) % 4) + 4) % 4);
        else
          cyl = !cyl;
        std::string why;
        if (!probe(g, i, why))
          {
            lors = old_lors;
            cyl = old_cyl;
            pli = old_pli;
            jac = old_jac;
            return Result::pass();
          }
        if (kind == K_RT && !via_parse)
          apply_switches(rt());
        else
          reconfigure_object();
        interp_before_setup(g, i);
        set_up_m(g, i);
        event(kind == K_INTERP ? cat("pli=", pli, ",jac=", jac, "(parse)+set_up")
                               : (kind == K_SPECT ? cat("psf=", psf, ",mask=", mask, "(parse)+set_up") : cat("lors=", lors, ",cylFOV=", cyl, "+set_up")));
        return Result::pass();
      }
    case OP_SWEEP:
      {
        std::vector<Bin> bins;
        vp::ExplicitP::enumerate_bins(*geo[g].pdi, bins);
        SplitMix r(uint64_t(arg(1)));
        for (std::size_t k = bins.size(); k > 1; --k)
          std::swap(bins[k - 1], bins[std::size_t(r.range(0, long(k) - 1))]);
        const std::size_t cap = 8000;
        if (bins.size() > cap)
          {
            bins.resize(cap);
            stats().count("sweeps truncated to 8000 bins");
          }
        else
          stats().count("complete sweeps of all bins");
        for (const Bin& b : bins)
          {
            Bin q(b.segment_num(), b.view_num(), b.axial_pos_num(), b.tangential_pos_num(), b.timing_pos_num());
            C03_DO(get(q, "get(sweep)"));
          }
        return Result::pass();
      }
    default:
      return Result::pass();
    }
}

Result
check(const json& c)
{
  vg::quiet();
  Run R;
  R.kind = kind_of(c);
  R.via_parse = c.value("via_parse", false);
  R.reuse_row = c.value("reuse_row", false);
  R.own_objs = c.value("own_objs", false);
  try
    {
      R.geo[0].sc = vg::make_scanner(c["scA"]);
      R.geo[1].sc = vg::make_scanner(c["scB"]);
      for (int k = 0; k < 2; ++k)
        if (R.geo[k].sc->check_consistency() != Succeeded::yes)
          return Result::reject("scanner inconsistent");
      // (images are laid out for the FULL geometries: a subset by view has the axial and tangential sampling of its original)
      shared_ptr<ProjDataInfo> full[2] = { vg::make_pdi(R.geo[0].sc, c["pdiA"]), vg::make_pdi(R.geo[1].sc, c["pdiB"]) };
      R.img[0] = vg::make_image(c["imgA"], *full[0]);
      R.img[1] = vg::make_image(c["imgB"], *full[c.value("imgB_ref", 1) ? 1 : 0]);
      R.geo[0].pdi = subset_of(full[0], c["pdiA"]);
      R.geo[1].pdi = subset_of(full[1], c["pdiB"]);
    }
  catch (const std::exception& e)
    {
      return Result::reject(std::string("construction rejected: ") + e.what());
    }
  for (int k = 0; k < 5; ++k)
    R.sym[k] = c["sym"][std::size_t(k)].get<int>() != 0;
  R.cache = c["cache"].get<int>();
  R.lors = c["lors"].get<int>();
  R.cyl = c["cyl_fov"].get<bool>();
  R.adb = c["adb"].get<bool>();
  if (R.kind != K_RT)
    R.adb = false; // (a ray-tracing option)
  if (R.kind == K_INTERP)
    {
      R.pli = c.value("pli", true);
      R.jac = c.value("jac", true);
      R.lors = 1;
      R.cyl = true;
    }
  if ((R.kind == K_FILE || R.kind == K_SPECT) && R.cache == 0 && !no_exclude(R.kind == K_FILE ? "F4" : "S3"))
    R.cache = 1; // (excluded classes C03-F4 / C03-S3, see OP_CACHE; generated cases never have it)
  if (R.kind == K_SPECT)
    {
      R.psf = c.value("psf", 0);
      R.mask = c.value("mask", 0);
      R.keep = c.value("keep", true);
      R.lors = 1;
      R.cyl = true;
    }
  if (R.kind == K_FILE)
    {
      // ProjMatrixByBinFromFile::set_up compares the data and the image EXACTLY with the templates it read from Interfile
      // headers (operator>= / != on floats), and headers carry about 6 significant digits: the geometry and the image of a
      // "file" case are what a user of a matrix file has - objects that were read from Interfile headers themselves.
      try
        {
          R.dir.reset(new CaseDir());
          {
            shared_ptr<ExamInfo> ex(new ExamInfo);
            ProjDataInterfile tmp(ex, R.geo[0].pdi, R.dir->path + "/stage1_proj_data");
          }
          shared_ptr<ProjData> pd = ProjData::read_from_file(R.dir->path + "/stage1_proj_data.hs");
          R.geo[0].pdi.reset(pd->get_proj_data_info_sptr()->clone());
          std::string fn = R.dir->path + "/stage1_image";
          if (OutputFileFormat<DiscretisedDensity<3, float>>::default_sptr()->write_to_file(fn, *R.img[0]) != Succeeded::yes)
            return Result::reject("cannot write the template image");
          shared_ptr<DiscretisedDensity<3, float>> d(read_from_file<DiscretisedDensity<3, float>>(fn));
          R.img[0] = dynamic_pointer_cast<VoxelsOnCartesianGrid<float>>(d);
          if (!R.img[0])
            return Result::reject("template image is not a VoxelsOnCartesianGrid");
          R.geo[1] = R.geo[0];
          R.img[1] = R.img[0];
        }
      catch (const stir_verif::AssertionFailure&)
        {
          throw;
        }
      catch (const std::exception& e)
        {
          return Result::reject(std::string("templates rejected: ") + std::string(e.what()).substr(0, 60));
        }
    }
  {
    std::string why;
    if (!R.probe(0, 0, why))
      return Result::reject("set_up rejected: " + why.substr(0, 60));
  }
  if (R.kind == K_FILE)
    {
      // the library writes the matrix itself: ProjMatrixByBinFromFile::write_to_file from a ray-tracing matrix with the switches of the case
      R.dir.reset(new CaseDir());
      ProjMatrixByBinUsingRayTracing src;
      R.apply_switches(src, true, 1);
      src.set_up(R.geo[0].pdi, R.img[0]);
      const std::string prefix = R.dir->path + "/matrix";
      if (ProjMatrixByBinFromFile::write_to_file(prefix, src, R.geo[0].pdi, *R.img[0]) != Succeeded::yes)
        return Result::fail("ProjMatrixByBinFromFile::write_to_file returned Succeeded::no");
      R.hpm = prefix + ".hpm";
      {
        // SIDE FINDING (not a clause of C03, see REPORT): write_to_file records "template proj data filename" WITHOUT the
        // ".hs" extension that ProjDataInterfile adds to the file it creates, so post_processing() of the reading class cannot
        // open it ("Error opening file ..._template_proj_data"): the header as written cannot be read back.  The harness
        // completes the file name (one line of the header), everything else is used as the library wrote it.
        std::ifstream in(R.hpm);
        std::stringstream all;
        all << in.rdbuf();
        std::string h = all.str();
        const std::string needle = "_template_proj_data\n";
        const std::size_t pos = h.find(needle);
        if (pos != std::string::npos)
          {
            h.replace(pos, needle.size(), "_template_proj_data.hs\n");
            stats().count("matrix file headers completed by the harness (template proj data filename lacks .hs)");
          }
        in.close();
        std::ofstream o(R.hpm);
        o << h;
      }
    }
  R.m = R.make_object(true, R.cache);
  R.interp_pli_member = R.pli;
  R.interp_before_setup(0, 0);
  R.set_up_m(0, 0);

  // class histogram
  {
    const ProjDataInfo& p = *R.geo[0].pdi;
    stats().cls(cat("matrix class: ", kind_name(R.kind), R.via_parse ? " (configured through parse())" : ""));
    stats().cls(p.is_tof_data() ? "geometry A: TOF" : "geometry A: non-TOF");
    if (p.is_tof_data())
      stats().cls(cat("geometry A: TOF [", kind_name(R.kind), "]"));
    for (int k = 0; k < 2; ++k)
      if (R.geo[k].pdi->get_min_segment_num() != -R.geo[k].pdi->get_max_segment_num())
        stats().cls(cat("geometry ", k ? "B" : "A", ": segment range not symmetric (", -R.geo[k].pdi->get_min_segment_num() > R.geo[k].pdi->get_max_segment_num() ? "negative side longer)" : "positive side longer)"));
    stats().cls(R.reuse_row ? "output row: one reused object (holds the previous answer)" : "output row: fresh object per request");
    stats().cls(R.own_objs ? "set_up arguments: own clones, non-zero image values" : "set_up arguments: the harness's shared objects");
    for (int k = 0; k < 2; ++k)
      if (const ProjDataInfoSubsetByView* sub = dynamic_cast<const ProjDataInfoSubsetByView*>(R.geo[k].pdi.get()))
        {
          const int nsub = sub->get_num_views(), nfull = sub->get_original_proj_data_info_sptr()->get_num_views();
          stats().cls(cat("geometry ", k ? "B" : "A", ": subset by view, ", nsub == 1 ? "a single view" : (nsub == nfull ? "all views" : "several views")));
          const std::vector<int> ov = sub->get_original_view_nums();
          if (!std::is_sorted(ov.begin(), ov.end()))
            stats().cls(cat("geometry ", k ? "B" : "A", ": subset by view, views not in increasing order"));
        }
    if (dynamic_cast<const ProjDataInfoCylindricalArcCorr*>(&p))
      stats().cls("geometry A: arc-corrected");
    if (c["pdiA"]["span"].get<int>() > 1)
      stats().cls(c["pdiA"]["span"].get<int>() % 2 ? "geometry A: odd span>1" : "geometry A: even span");
    if (p.get_num_views() != p.get_scanner_ptr()->get_num_detectors_per_ring() / 2)
      stats().cls("geometry A: view mashing");
    if (p.get_num_views() % 4 != 0)
      stats().cls("geometry A: views not a multiple of 4");
    if (std::fabs(p.get_phi(Bin(0, 0, 0, 0))) > 1e-4)
      stats().cls("geometry A: view offset (tilt)");
    stats().cls(cat("cache mode ", R.cache));
    if (R.kind != K_RT)
      stats().cls(cat("cache mode ", R.cache, " [", kind_name(R.kind), "]"));
    if (R.kind == K_SPECT)
      stats().cls(cat("SPECT UB matrix: psf type ", R.psf, ", mask ", R.mask, ", keep_all_views_in_cache ", R.keep));
    else if (R.kind != K_INTERP)
      {
        stats().cls(cat("tangential LORs ", R.lors));
        stats().cls(R.cyl ? "cylindrical FOV" : "square FOV");
      }
    else
      stats().cls(cat("interpolation matrix: piecewise linear requested ", R.pli, R.interp_pli_fits(0, 0) ? " (fits image A)" : " (switched off for image A)", ", exact Jacobian ", R.jac));
    if (R.adb)
      stats().cls("use_actual_detector_boundaries requested");
    const int nsym = R.sym[0] + R.sym[1] + R.sym[2] + R.sym[3] + R.sym[4];
    stats().cls(cat("symmetry switches on: ", nsym));
    if (R.kind != K_RT)
      stats().cls(cat("symmetry switches on: ", nsym, " [", kind_name(R.kind), "]"));
    const auto vs = R.img[0]->get_voxel_size();
    if (std::fabs(vs.x() - vs.y()) > 2e-3)
      stats().cls("image A: anisotropic xy voxels");
    if (c["imgA"]["nx"].get<int>() % 2 == 0)
      stats().cls("image A: even x size");
    if (c["imgA"]["z_div"].get<int>() > 1)
      stats().cls("image A: z spacing = sampling/k, k>1");
    if (c["imgA"]["z_shift_planes"].get<int>() != 0)
      stats().cls("image A: shifted z origin");
  }
  const int tier = c.value("tier", 0);
  Result res = Result::pass();
  for (const json& op : c["ops"])
    {
      if (!op.is_array() || op.empty())
        continue;
      res = R.run_op(op, tier);
      if (res.kind != Result::PASS)
        break;
    }
  stats().count("histories");
  if (R.n_gets > 0)
    stats().maxi("max screened fraction in one history (>=50 gets)", R.n_gets >= 50 ? double(R.n_screened) / double(R.n_gets) : 0.);
  return res;
}

// ---- known classes (excluded by construction, counted; VERIF_NO_EXCLUDE=1 switches the exclusion off) ----------------
// (a) known finding of C04 "C04:interpolation-matrix:sym90:image-nx!=ny" (known/C04/interpolation_sym90_nonsquare_image.json):
//     ProjMatrixByBinUsingInterpolation limits the voxels of a basic row to the symmetric part of the x range and of the y
//     range SEPARATELY; the x<->y swap of do_symmetry_90degrees_min_phi then gives voxels outside an image with nx != ny.
//     It breaks this property's clause "refers to a voxel inside the image" as well; same signature, same exclusion.
bool
may_enable_sym90(const json& c)
{
  if (c["sym"][std::size_t(0)].get<int>() != 0)
    return true;
  for (const json& op : c["ops"])
    if (op.is_array() && op.size() >= 2 && op[0].is_number() && op[0].get<int>() == OP_SYM && op[1].is_number() && ((op[1].get<long>() % 5) + 5) % 5 == 0)
      return true;
  return false;
}
bool
in_known_class_interp_nonsquare(const json& c)
{
  if (kind_of(c) != K_INTERP || !may_enable_sym90(c))
    return false;
  return c["imgA"]["nx"].get<int>() != c["imgA"]["ny"].get<int>() || c["imgB"]["nx"].get<int>() != c["imgB"]["ny"].get<int>();
}
// (b) FINDING C03-F6 (see REPORT): the matrix file format of ProjMatrixByBinFromFile has no timing position (write_lor /
//     read_lor store segment, view, axial and tangential position only) and write_to_file loops over timing position 0 only,
//     but neither write_to_file nor set_up rejects TOF data: every row of a TOF bin other than 0 comes back EMPTY.
bool
in_known_class_file_tof(const json& c)
{
  if (kind_of(c) != K_FILE)
    return false;
  const int mash = c["pdiA"]["tof_mash"].get<int>();
  const int poss = c["scA"].value("tof_poss", 0);
  return mash > 0 && poss > 0 && poss / mash > 1;
}
// (c) FINDING C03-A1 (domain audit AUD_C, see REPORT): DataSymmetriesForBins_PET_CartesianGrid keeps per-segment tables (deltas,
//     num_planes_per_axial_pos, axial_pos_to_z_offset) for the segments of the DATA (min_segment_num..max_segment_num), but
//     find_sym_op_bin0 / find_sym_op_general_bin index them with abs(segment_num) ("find_transform_z(abs(segment_num), ...)",
//     DataSymmetriesForBins_PET_CartesianGrid.inl:127,233, before looking at any switch), and with do_symmetry_swap_segment the row
//     of segment -n is computed for the basic bin of segment +n (ProjDataInfoCylindrical::get_average_ring_difference(+n)).  For data
//     whose segment range was reduced to min_segment_num < -max_segment_num (ProjDataInfo::reduce_segment_range accepts any
//     sub-range; the constructor of the symmetries loops over min(max_segment_num, -min_segment_num), i.e. expects such data)
//     segment +n does not exist: every request for a bin of such a segment reads the tables out of range - an assertion in this
//     build whatever the switches; in a Release build an out-of-bounds read whose value is unused without swap_segment and a row
//     for a garbage tan(theta) with it (the default).  Class: a data geometry with a negative segment without its positive partner.
bool
segment_range_lacks_positive_partner(const json& scj, const json& pj)
{
  if (!pj["trim"].contains("min_seg"))
    return false;
  try
    {
      shared_ptr<Scanner> sc = vg::make_scanner(scj);
      shared_ptr<ProjDataInfo> p = vg::make_pdi(sc, pj);
      return -p->get_min_segment_num() > p->get_max_segment_num();
    }
  catch (const std::exception&)
    {
      return false;
    }
}
bool
in_known_class_asym_segments(const json& c)
{
  return segment_range_lacks_positive_partner(c["scA"], c["pdiA"]) || segment_range_lacks_positive_partner(c["scB"], c["pdiB"]);
}
std::string
known_signature(const json& c)
{
  if (!no_exclude("A1") && in_known_class_asym_segments(c))
    return "C03:segment-range:negative-segment-without-positive-partner";
  if (!no_exclude("C04") && in_known_class_interp_nonsquare(c))
    return "C04:interpolation-matrix:sym90:image-nx!=ny";
  if (!no_exclude("F6") && in_known_class_file_tof(c))
    return "C03:from-file-matrix:TOF-data";
  return "";
}

// ---- generator -----------------------------------------------------------------------------------
json
gen_config(Src& s, int size, Kind kind = K_RT)
{
  json c;
  vg::ScannerOpts so;
  so.max_ndet = size < 35 ? 24 : 48;
  so.max_rings = size < 35 ? 3 : 5;
  if (kind != K_RT)
    { // the interpolation matrix visits every voxel of the planes a bin sees; a matrix file is written and read per case
      so.max_ndet = size < 35 ? 16 : 32;
      so.max_rings = 3;
    }
  so.allow_tof = kind != K_SPECT;
  so.allow_blocks = false; // (ProjMatrixByBinUsingInterpolation: "needs ProjDataInfoCylindrical for jacobian"; blocks are exercised in C04)
  so.allow_tilt = true;
  vg::PdiOpts po;
  po.allow_arccorr = true;
  vg::ImageOpts io;
  io.max_xy = size < 50 ? 17 : 33;
  if (kind != K_RT)
    io.max_xy = size < 50 ? 11 : 17;
  // bias (not a restriction): half of the cases get the geometry class in which all five symmetries can be active
  // (no view offset, number of views a multiple of 4, non-TOF) - DataSymmetriesForBins_PET_CartesianGrid disables them otherwise
  const bool want_full_sym = s.coin();
  c["scA"] = vg::gen_scanner(s, so);
  for (int tries = 0; want_full_sym && tries < 6 && c["scA"]["ndet"].get<int>() % 8 != 0; ++tries)
    c["scA"] = vg::gen_scanner(s, so);
  if (want_full_sym)
    c["scA"]["tilt"] = 0.;
  shared_ptr<Scanner> scA = vg::make_scanner(c["scA"]);
  c["pdiA"] = vg::gen_pdi(s, *scA, po);
  if (want_full_sym)
    {
      if (c["pdiA"]["views"].get<int>() % 4 != 0)
        c["pdiA"]["views"] = c["scA"]["ndet"].get<int>() / 2;
      if (s.chance(3, 4))
        c["pdiA"]["tof_mash"] = 0;
    }
  c["imgA"] = vg::gen_image(s, io);
  if (s.chance(2, 3))
    c["scB"] = c["scA"];
  else
    c["scB"] = vg::gen_scanner(s, so);
  shared_ptr<Scanner> scB = vg::make_scanner(c["scB"]);
  c["pdiB"] = vg::gen_pdi(s, *scB, po);
  c["imgB"] = vg::gen_image(s, io);
  c["imgB_ref"] = s.coin() ? 1 : 0; // image B is laid out for geometry B (1) or for geometry A (0)
  json sym = json::array();
  const int mode = int(s.range(0, 7));
  for (int k = 0; k < 5; ++k)
    sym.push_back(mode == 0 ? 1 : (mode == 1 ? 0 : (s.coin() ? 1 : 0)));
  c["sym"] = sym;
  c["cache"] = int(s.pick(std::vector<int>{ 0, 1, 1, 2, 2 }));
  c["lors"] = int(s.small(1, 4));
  c["cyl_fov"] = s.chance(3, 4);
  c["adb"] = s.chance(1, 8);
  // (the choices below are made after all choices of the ray-tracing configuration so that the fixed seeds of the
  // enumerated geometries keep giving the same geometries)
  if (kind != K_RT)
    {
      c["kind"] = kind_name(kind);
      c["adb"] = false;
    }
  if (kind == K_INTERP)
    {
      c["pli"] = s.chance(2, 3);
      c["jac"] = s.chance(2, 3);
      c["lors"] = 1;
      c["cyl_fov"] = true;
      if (s.chance(1, 2))
        { // bias: geometry B shares the view/segment ranges of geometry A (the cache of ProjMatrixByBin is a table over view x segment)
          c["scB"] = c["scA"];
          c["pdiB"] = c["pdiA"];
          c["imgB_ref"] = 1;
        }
    }
  if (kind == K_SPECT)
    {
      // ProjMatrixByBinSPECTUB::set_up: single-segment arc-corrected data (it dynamic_casts to ProjDataInfoCylindricalArcCorr and
      // uses segment 0 only), error()s "only works with equal z-sampling for projection data and image" and "equal number of
      // slices"; it reads ONE transaxial voxel size (voxel_size.x()) for x and y
      for (const char* pk : { "pdiA", "pdiB" })
        {
          c[pk]["span"] = 1;
          c[pk]["max_delta"] = 0;
          c[pk]["arccorr"] = true;
          c[pk]["tof_mash"] = 0;
          c[pk]["trim"] = json::object();
        }
      for (const char* ik : { "imgA", "imgB" })
        {
          c[ik]["vy_same"] = true;
          c[ik]["z_div"] = 1;
          c[ik]["nz_extra"] = 0;
          c[ik]["z_shift_planes"] = 0;
        }
      c["psf"] = int(s.range(0, 2));
      c["mask"] = int(s.range(0, 1));
      c["keep"] = s.chance(2, 3);
      c["lors"] = 1;
      c["cyl_fov"] = true;
    }
  if (kind == K_FILE)
    { // a matrix file belongs to ONE geometry and image (ProjMatrixByBinFromFile::set_up error()s otherwise)
      c["scB"] = c["scA"];
      c["pdiB"] = c["pdiA"];
      c["imgB"] = c["imgA"];
      c["imgB_ref"] = 0;
    }
  return c;
}

json
gen(Src& s, int size)
{
  const long kr = s.range(0, 99);
  // the matrix-file and SPECT-UB classes are implemented (kinds K_FILE, K_SPECT) but NOT generated: they are outside the anchor files of C03
  // and their defects (empty rows after clear_cache / with the cache disabled, TOF data accepted by the file format, ...) are not findings
  // of this property; set C03_ALL_KINDS=1 to generate them for exploration
  static const bool all_kinds = std::getenv("C03_ALL_KINDS") != nullptr;
  const Kind kind = all_kinds ? (kr < 47 ? K_RT : (kr < 78 ? K_INTERP : (kr < 93 ? K_FILE : K_SPECT))) : (kr < 58 ? K_RT : K_INTERP);
  json c = gen_config(s, size, kind);
  if (kind == K_RT && s.chance(1, 5))
    c["via_parse"] = true;
  // ---- domain audit (AUD_C), see struct Run and subset_of() ---------------------------------------------------------------
  c["reuse_row"] = s.coin();
  c["own_objs"] = s.chance(1, 3);
  // segment ranges that are not symmetric (ProjDataInfo::reduce_segment_range(min, max) accepts any sub-range, and the constructor of
  // DataSymmetriesForBins_PET_CartesianGrid checks the +-segment pairs up to min(max_segment_num, -min_segment_num) only)
  for (int k = 0; k < 2; ++k)
    if (s.chance(1, 6))
      {
        const char* pk = k ? "pdiB" : "pdiA";
        const char* sk = k ? "scB" : "scA";
        json trim = c[pk]["trim"];
        if (!trim.contains("tang_cut"))
          trim["tang_cut"] = 0;
        long lo = s.range(0, 3), hi = s.range(0, 3);
        if (lo == hi)
          hi = lo == 0 ? 1 : lo - 1;
        trim["max_seg"] = int(hi);
        trim["min_seg"] = -int(lo);
        c[pk]["trim"] = trim;
        if (!no_exclude("A1") && segment_range_lacks_positive_partner(c[sk], c[pk]))
          { // excluded by construction (finding C03-A1, see known_signature): the mirrored range (positive partner present)
            trim["max_seg"] = int(lo);
            trim["min_seg"] = -int(hi);
            c[pk]["trim"] = trim;
            stats().excluded_known++;
            stats().count("excluded:C03:segment-range:negative-segment-without-positive-partner (generator: segment range mirrored)");
          }
      }
  if (kind == K_RT)
    { // subsets by view (ray tracing only: ProjMatrixByBinUsingInterpolation::set_up error()s "needs ProjDataInfoCylindrical for jacobian")
      for (const char* pk : { "pdiA", "pdiB" })
        if (s.chance(1, 5))
          {
            const int nv = c[pk]["views"].get<int>();
            json v = json::array();
            const long form = s.range(0, 5);
            if (form == 0) // a single view (first / last / any)
              v.push_back(s.pick(std::vector<long>{ 0, long(nv - 1), s.range(0, nv - 1) }));
            else if (form == 1) // all views
              for (int k = 0; k < nv; ++k)
                v.push_back(k);
            else if (form <= 3)
              { // the regular subset k of n, as ProjData::get_subset users build it
                const int n = int(s.range(1, std::max(1, nv)));
                const int k0 = int(s.range(0, n - 1));
                for (int k = k0; k < nv; k += n)
                  v.push_back(k);
              }
            else
              { // an arbitrary subset in an arbitrary order (ProjDataInfoSubsetByView.cxx only demands range and uniqueness)
                std::vector<long> all;
                for (int k = 0; k < nv; ++k)
                  all.push_back(k);
                const int n = int(s.range(1, nv));
                for (int k = 0; k < n; ++k)
                  {
                    const std::size_t at = std::size_t(s.range(0, long(all.size()) - 1));
                    v.push_back(all[at]);
                    all.erase(all.begin() + long(at));
                  }
                if (form == 4)
                  std::sort(v.begin(), v.end());
              }
            c[pk]["subset_views"] = v;
          }
    }
  shared_ptr<Scanner> scA = vg::make_scanner(c["scA"]);
  // (only used to bias the bin choice towards the special views / central tangential positions of geometry A)
  const int nv = c["pdiA"]["views"].get<int>();
  const int ntang = c["pdiA"]["tang"].get<int>();
  const std::vector<long> special_views = { 0, nv / 4, nv / 4 + 1, nv / 2, nv / 2 + 1, 3 * nv / 4, 3 * nv / 4 + 1, nv - 1, 1 };
  json ops = json::array();
  const int n = int(s.range(3, 8 + size / 3));
  for (int k = 0; k < n; ++k)
    {
      const long r = s.range(0, 99);
      json op = json::array();
      auto bin_args = [&]() {
        op.push_back(s.range(0, 40));
        op.push_back(s.chance(1, 3) ? s.pick(special_views) : s.range(0, 63));
        op.push_back(s.range(0, 40));
        op.push_back(s.chance(1, 3) ? long(ntang / 2) + s.range(-1, 1) : s.range(0, 63));
        op.push_back(s.range(0, 20));
      };
      bool reget_next = false;
      if (r < 20)
        {
          op.push_back(OP_GET);
          bin_args();
        }
      else if (r < 41)
        {
          op.push_back(OP_GETN);
          op.push_back(long(s.seed64() & 0xffffffffULL));
          op.push_back(s.range(1, 10 + size / 2));
        }
      else if (r < 50)
        {
          op.push_back(OP_REGET);
          op.push_back(s.range(0, 50));
          op.push_back(s.range(1, 20));
        }
      else if (r < 62)
        {
          op.push_back(OP_ORBIT);
          bin_args();
          op.push_back(s.range(0, 1));
        }
      else if (r < 68)
        op.push_back(OP_CLEAR);
      else if (r < 79)
        {
          op.push_back(OP_SETUP);
          op.push_back(s.range(0, 1));
          op.push_back(s.range(0, 1));
          reget_next = s.coin(); // the bins requested before the set_up, again (same coordinates where the new ranges allow)
        }
      else if (r < 86)
        {
          op.push_back(OP_SYM);
          op.push_back(s.range(0, 4));
        }
      else if (r < 92)
        {
          op.push_back(OP_CACHE);
          op.push_back(s.range(0, 2));
          op.push_back(s.range(0, 1));
        }
      else if (r < 96)
        {
          op.push_back(OP_OPT);
          op.push_back(s.range(0, 1));
          op.push_back(s.range(0, 3));
        }
      else
        op.push_back(OP_CLONE);
      ops.push_back(op);
      if (reget_next)
        ops.push_back(json::array({ int(OP_REGET), s.range(0, 30), s.range(5, 30) }));
    }
  c["ops"] = ops;
  if (!no_exclude(kind == K_FILE ? "F4" : "S3") && (kind == K_FILE || kind == K_SPECT) && c["cache"].get<int>() == 0)
    { // excluded by construction (findings C03-F4 / C03-S3: the cache is the only store of these two classes)
      c["cache"] = int(s.range(1, 2));
      stats().excluded_known++;
      stats().count(kind == K_FILE ? "excluded:C03:from-file-matrix:clear_cache-or-cache-disabled" : "excluded:C03:SPECTUB-matrix:cache-disabled");
    }
  if (!no_exclude("F6") && in_known_class_file_tof(c))
    { // excluded by construction (finding C03-F6, see known_signature): non-TOF data for matrix files
      c["pdiA"]["tof_mash"] = 0;
      c["pdiB"]["tof_mash"] = 0;
      stats().excluded_known++;
      stats().count("excluded:C03:from-file-matrix:TOF-data (generator: data made non-TOF)");
    }
  if (!no_exclude("C04") && in_known_class_interp_nonsquare(c))
    { // excluded by construction (known finding, see known_signature): square images for this class
      c["imgA"]["ny"] = c["imgA"]["nx"];
      c["imgB"]["ny"] = c["imgB"]["nx"];
      stats().excluded_known++;
      stats().count("excluded:C04:interpolation-matrix:sym90:image-nx!=ny (generator: images made square)");
    }
  return c;
}

// ---- bounded-exhaustive part: ALL bins of fixed geometries x 2^5 switches x cache modes x LORs ---------------
// geometries are drawn once from fixed seeds (deterministic), kept if a fresh matrix accepts them and they have <= 4000 bins
long
count_bins(const ProjDataInfo& pdi)
{
  long nb = 0;
  for (int sg = pdi.get_min_segment_num(); sg <= pdi.get_max_segment_num(); ++sg)
    nb += long(pdi.get_num_axial_poss(sg)) * pdi.get_num_views() * pdi.get_num_tangential_poss() * pdi.get_num_tof_poss();
  return nb;
}

const std::vector<json>&
sweep_geometries(int tier)
{
  static std::vector<json> v[2];
  std::vector<json>& out = v[tier ? 1 : 0];
  if (!out.empty())
    return out;
  const std::size_t want = tier ? 12 : 4;
  for (uint64_t seed = 7001; out.size() < want && seed < 9000; ++seed)
    {
      PrngSrc s(seed);
      json c = gen_config(s, tier ? 80 : 40);
      c["scB"] = c["scA"];
      c["pdiB"] = c["pdiA"];
      c["imgB"] = c["imgA"];
      c["imgB_ref"] = 0;
      c["adb"] = false;
      try
        {
          shared_ptr<Scanner> sc = vg::make_scanner(c["scA"]);
          shared_ptr<ProjDataInfo> pdi = vg::make_pdi(sc, c["pdiA"]);
          const long nb = count_bins(*pdi);
          if (nb > 4000 || nb < 200)
            continue;
          auto img = vg::make_image(c["imgA"], *pdi);
          if (img->get_x_size() < 7 || img->get_y_size() < 7)
            continue;
          // the geometry classes the property names must be present: the first slots are reserved for them
          const bool tof = pdi->is_tof_data();
          const bool tilt = std::fabs(pdi->get_phi(Bin(0, 0, 0, 0))) > 1e-4;
          const int nv = pdi->get_num_views();
          const int nseg = pdi->get_num_segments();
          const auto vs = img->get_voxel_size();
          const bool aniso = std::fabs(vs.x() - vs.y()) > 2e-3;
          bool ok = true;
          switch (out.size())
            {
            case 0: ok = !tof && !tilt && nv % 4 == 0 && nseg >= 3 && !aniso; break; // all five symmetries can be active
            case 1: ok = tof && nseg >= 3; break;                                     // TOF: only shift_z survives
            case 2: ok = !tof && tilt && nseg >= 3; break;                            // view offset: swap_segment, swap_s, shift_z
            case 3: ok = !tof && !tilt && nv % 4 == 2 && aniso; break;               // 180-phi only, anisotropic voxels
            case 4: ok = !tof && !tilt && nv % 4 == 0 && c["pdiA"]["span"].get<int>() % 2 == 0 && nseg >= 3; break; // even span
            case 5: ok = !tof && !tilt && nv % 4 == 0 && c["pdiA"]["arccorr"].get<bool>(); break;
            default: break;
            }
          if (!ok)
            continue;
          ProjMatrixByBinUsingRayTracing fresh;
          fresh.set_up(pdi, img);
          ProjMatrixElemsForOneBin row;
          for (int sg = pdi->get_min_segment_num(); sg <= pdi->get_max_segment_num(); ++sg)
            fresh.get_proj_matrix_elems_for_one_bin(row, Bin(sg, 0, pdi->get_min_axial_pos_num(sg), 0, 0));
        }
      catch (const std::exception&)
        {
          continue;
        }
      out.push_back(c);
    }
  return out;
}

// geometries for the other matrix classes: kind "interp" (two images on one data geometry: the second sweep runs after a
// set_up of the used object for the other image) and kind "file"; slot 0 = all five symmetries possible, slot 1 = TOF
const std::vector<json>&
other_geometries(int tier)
{
  static std::vector<json> v[2];
  std::vector<json>& out = v[tier ? 1 : 0];
  if (!out.empty())
    return out;
  const std::size_t n_interp = tier ? 4 : 2, n_file = std::getenv("C03_ALL_KINDS") ? (tier ? 2 : 1) : 0;
  for (int pass = 0; pass < 2; ++pass)
    {
      const Kind kind = pass == 0 ? K_INTERP : K_FILE;
      std::size_t have = 0;
      for (uint64_t seed = 9001 + 4000 * uint64_t(pass); have < (pass == 0 ? n_interp : n_file) && seed < 12900 + 4000 * uint64_t(pass); ++seed)
        {
          PrngSrc s(seed);
          json c = gen_config(s, 40, kind);
          c["scB"] = c["scA"];
          c["pdiB"] = c["pdiA"];
          c["imgB_ref"] = 0;
          if (kind == K_INTERP)
            { // image B: another transaxial size and another z spacing on the same data (square images: see known_signature)
              c["imgA"]["ny"] = c["imgA"]["nx"];
              c["imgB"] = c["imgA"];
              c["imgB"]["nx"] = c["imgA"]["nx"].get<int>() + (c["imgA"]["nx"].get<int>() > 9 ? -2 : 2);
              c["imgB"]["ny"] = c["imgB"]["nx"];
              c["imgB"]["z_div"] = c["imgA"]["z_div"].get<int>() == 2 ? 1 : 2;
              c["pli"] = true;
              c["jac"] = true;
            }
          try
            {
              shared_ptr<Scanner> sc = vg::make_scanner(c["scA"]);
              shared_ptr<ProjDataInfo> pdi = vg::make_pdi(sc, c["pdiA"]);
              const long nb = count_bins(*pdi);
              if (nb > 1500 || nb < 150)
                continue;
              auto img = vg::make_image(c["imgA"], *pdi);
              if (img->get_x_size() < 5 || img->get_y_size() < 5)
                continue;
              const bool tof = pdi->is_tof_data();
              const bool tilt = std::fabs(pdi->get_phi(Bin(0, 0, 0, 0))) > 1e-4;
              const auto vs = img->get_voxel_size();
              const bool aniso = std::fabs(vs.x() - vs.y()) > 2e-3;
              bool ok = true;
              switch (have)
                {
                case 0: ok = !tof && !tilt && pdi->get_num_views() % 4 == 0 && pdi->get_num_segments() >= 3 && !aniso; break;
                case 1: ok = kind == K_INTERP ? (tof && pdi->get_num_segments() >= 3) : (!tof && !tilt); break;
                default: break;
                }
              if (!ok)
                continue;
              if (kind == K_INTERP)
                {
                  ProjMatrixByBinUsingInterpolation fresh;
                  fresh.set_up(pdi, img);
                  fresh.set_up(pdi, vg::make_image(c["imgB"], *pdi));
                }
              else
                {
                  ProjMatrixByBinUsingRayTracing fresh;
                  fresh.set_up(pdi, img);
                  ProjMatrixElemsForOneBin row;
                  for (int sg = pdi->get_min_segment_num(); sg <= pdi->get_max_segment_num(); ++sg)
                    fresh.get_proj_matrix_elems_for_one_bin(row, Bin(sg, 0, pdi->get_min_axial_pos_num(sg), 0, 0));
                }
            }
          catch (const std::exception&)
            {
              continue;
            }
          out.push_back(c);
          ++have;
        }
    }
  return out;
}

bool
enumerate(uint64_t idx, int tier, json& c)
{
  const auto& geos = sweep_geometries(tier);
  const uint64_t per_geo = tier ? 32 * 3 * 3 : 32;
  // (development aid: C03_ENUM_ONLY_OTHER=1 enumerates the interpolation / matrix-file part only)
  const uint64_t n_rt = std::getenv("C03_ENUM_ONLY_OTHER") ? 0 : per_geo * geos.size();
  if (idx >= n_rt)
    {
      // the other matrix classes: 2^5 switches, the cache mode cycles with the combination (quick) / x 3 cache modes (thorough)
      const auto& og = other_geometries(tier);
      const uint64_t per_other = tier ? 32 * 3 : 32;
      const uint64_t j = idx - n_rt;
      if (j >= per_other * og.size())
        return false;
      c = og[std::size_t(j / per_other)];
      const uint64_t r = j % per_other;
      json sym = json::array();
      for (int k = 0; k < 5; ++k)
        sym.push_back(int((r >> k) & 1));
      c["sym"] = sym;
      const Kind kind = kind_of(c);
      int cm = tier ? int(r >> 5) : int((r % 32) % 3);
      if (kind == K_FILE && cm == 0 && !no_exclude("F4"))
        cm = 2 - int(r % 2); // (excluded class: matrix file with caching disabled, see OP_CACHE)
      c["cache"] = cm;
      c["tier"] = tier;
      json ops = json::array();
      ops.push_back(json::array({ int(OP_SWEEP), long(idx * 2654435761ULL % 1000003ULL) }));
      if (kind == K_INTERP)
        { // the used object is set up for the other image and swept again, then back
          ops.push_back(json::array({ int(OP_SETUP), 0, 1 }));
          ops.push_back(json::array({ int(OP_SWEEP), long(idx * 40503ULL % 1000003ULL) + 1 }));
          if (r % 4 == 0)
            {
              ops.push_back(json::array({ int(OP_SETUP), 0, 0 }));
              ops.push_back(json::array({ int(OP_SWEEP), long(idx * 69069ULL % 1000003ULL) + 2 }));
            }
        }
      else
        {
          if (r % 4 == 1)
            ops.push_back(json::array({ int(OP_CLONE) }));
          if (r % 4 == 2)
            ops.push_back(json::array({ int(OP_SETUP), 0, 0 }));
          if (r % 4 == 3)
            ops.push_back(json::array({ int(OP_CACHE), cm == 1 ? 2 : 1, 1 }));
          ops.push_back(json::array({ int(OP_SWEEP), long(idx * 40503ULL % 1000003ULL) + 1 }));
        }
      c["ops"] = ops;
      c["reuse_row"] = idx % 2 == 1; // (AUD_C) every other sweep hands over one long-lived row object
      return true;
    }
  const std::size_t gi = std::size_t(idx / per_geo);
  uint64_t r = idx % per_geo;
  c = geos[gi];
  json sym = json::array();
  for (int k = 0; k < 5; ++k)
    sym.push_back(int((r >> k) & 1));
  c["sym"] = sym;
  r >>= 5;
  if (tier)
    {
      c["cache"] = int(r % 3);
      c["lors"] = 1 + int((r / 3) % 3);
    }
  else
    { // quick: cache mode and LORs cycle with the switch combination
      c["cache"] = int((idx % 32) % 3);
      c["lors"] = 1 + int(((idx % 32) / 3) % 3);
    }
  c["tier"] = tier;
  json ops = json::array();
  ops.push_back(json::array({ int(OP_SWEEP), long(idx * 2654435761ULL % 1000003ULL) }));
  if (c["cache"].get<int>() != 0)
    { // and once more in another order, now (partly) from the cache
      ops.push_back(json::array({ int(OP_SWEEP), long(idx * 40503ULL % 1000003ULL) + 1 }));
    }
  c["ops"] = ops;
  c["reuse_row"] = idx % 2 == 1; // (AUD_C)
  return true;
}

// ---- fixed cases: the TOF path of get_proj_matrix_elems_for_one_bin, both cache modes x both request orders ----------
// (only do_symmetry_shift_z survives for TOF data: the orbit of a basic bin is the set of its axial translates.)
// Per case: every orbit is requested in library order (basic bin first, then the related bins: in the complete-cache mode the
// related rows are derived from the CACHED basic row, which already carries the TOF kernel) or in reverse order (related bins
// first: the basic row is computed, kernel applied, transformed and only the transformed row is cached; the basic bin comes
// last), then the same bins again (now from the cache), then after clear_cache in the other order.
std::vector<json>
fixed_cases(int tier)
{
  std::vector<json> out;
  json tof_rt, tof_interp;
  for (const json& g : sweep_geometries(tier))
    {
      shared_ptr<Scanner> sc = vg::make_scanner(g["scA"]);
      if (vg::make_pdi(sc, g["pdiA"])->is_tof_data())
        {
          tof_rt = g;
          break;
        }
    }
  for (const json& g : other_geometries(tier))
    {
      shared_ptr<Scanner> sc = vg::make_scanner(g["scA"]);
      if (kind_of(g) == K_INTERP && vg::make_pdi(sc, g["pdiA"])->is_tof_data())
        {
          tof_interp = g;
          break;
        }
    }
  for (const json* base : { &tof_rt, &tof_interp })
    {
      if (base->is_null())
        continue;
      for (int cm = 1; cm <= 2; ++cm)
        for (int rev = 0; rev < 2; ++rev)
          for (int symz = 0; symz < 2; ++symz)
            {
              json c = *base;
              c["sym"] = json::array({ 1, 1, 1, 1, symz }); // (the four others are switched off by the library for TOF data)
              c["cache"] = cm;
              c["lors"] = 1;
              c["tier"] = tier;
              json ops = json::array();
              SplitMix r(uint64_t(1000 + cm * 10 + rev));
              for (int k = 0; k < 10; ++k)
                ops.push_back(json::array({ int(OP_ORBIT), r.range(0, 40), r.range(0, 63), 0, r.range(0, 63), r.range(0, 20), rev }));
              ops.push_back(json::array({ int(OP_REGET), 0, 100 }));
              ops.push_back(json::array({ int(OP_CLEAR) }));
              for (int k = 0; k < 10; ++k)
                ops.push_back(json::array({ int(OP_ORBIT), r.range(0, 40), r.range(0, 63), 0, r.range(0, 63), r.range(0, 20), 1 - rev }));
              ops.push_back(json::array({ int(OP_REGET), 3, 100 }));
              c["ops"] = ops;
              c["reuse_row"] = symz == 1; // (AUD_C)
              out.push_back(c);
            }
    }
  return out;
}

bool
nontrivial(const json& c)
{
  // Config with >= 1 symmetry switch on at some point of the history and at least one request
  // (SPECT UB matrix, which has no symmetries: a request after a set_up / re-parse / cache switch, or a repeated request)
  if (kind_of(c) == K_SPECT)
    {
      bool gets = false, ev = false;
      for (const json& op : c["ops"])
        {
          if (!op.is_array() || op.empty())
            continue;
          const int code = op[0].get<int>();
          if (code == OP_GET || code == OP_GETN || code == OP_ORBIT || code == OP_SWEEP)
            gets = true;
          if (gets && (code == OP_SETUP || code == OP_SYM || code == OP_CACHE || code == OP_OPT || code == OP_REGET))
            ev = true;
        }
      return gets && ev;
    }
  bool sym_on = false;
  for (const json& b : c["sym"])
    sym_on = sym_on || b.get<int>() != 0;
  bool gets = false;
  for (const json& op : c["ops"])
    {
      if (!op.is_array() || op.empty())
        continue;
      const int code = op[0].get<int>();
      if (code == OP_SYM)
        sym_on = true;
      if (code == OP_GET || code == OP_GETN || code == OP_ORBIT || code == OP_SWEEP)
        gets = true;
    }
  return sym_on && gets;
}

} // namespace

const Property&
the_property()
{
  static Property p;
  p.id = "C03";
  p.gen = gen;
  p.check = check;
  p.nontrivial = nontrivial;
  p.enumerate = enumerate;
  p.fixed_cases = fixed_cases;
  p.known_signature = known_signature;
  p.shrink_lists = { "ops" };
  p.rule = "history contains at least one request and at least one symmetry switch is on at some point";
  return p;
}

// C03 — system-matrix rows do not depend on symmetries, caching or request history.
//
// A Case is a configuration (two data geometries A/B, two image grids A/B, the 2^5 do_symmetry
// switches, cache mode, num_tangential_LORs, FOV shape, use_actual_detector_boundaries) and a
// history of events on ONE ProjMatrixByBinUsingRayTracing object.  After every get() the row is
// compared with the row of a fresh matrix with all symmetries off and the cache disabled
// ("computed directly") for the geometry/image/options current at that moment, and the validity
// predicate (non-negative, no duplicates, x/y inside the image, stored bin == requested bin)
// is evaluated on the returned row itself.
//
// Tie screen (property text): bins for which the choice of the first/last voxel, or of the
// column of a ray parallel to a grid axis, is a floating-point rounding tie are skipped BEFORE
// any row is computed.  The screen is a double-precision mirror of the geometry set up in
// ProjMatrixByBinUsingRayTracing::calculate_proj_matrix_elems_for_one_bin / ray_trace_one_lor
// (s, phi, t, tan(theta), voxel sizes, FOV radius only); it never looks at a computed row.
#include "explicit_p.h"
#include "stir/recon_buildblock/DataSymmetriesForBins.h"
#include "stir/recon_buildblock/SymmetryOperation.h"
#include <typeinfo>
#include <iostream>
#include "stir/ProjDataInfoCylindrical.h"
#include "stir/ProjDataInfoCylindricalNoArcCorr.h"
#include <algorithm>
#include <map>
#include <set>
#include <tuple>

using namespace vf;
using namespace stir;

namespace {

enum OpCode
{
  OP_GET = 0,    // [0,a,b,c,d,e]   one bin, coordinates modulo the current ranges
  OP_GETN = 1,   // [1,seed,n]      n pseudo-random bins
  OP_REGET = 2,  // [2,k,n]         request again n of the bins requested before (starting k back)
  OP_ORBIT = 3,  // [3,a,b,c,d,e,rev] all bins related to the basic bin of a bin (optionally in reverse order)
  OP_CLEAR = 4,  // [4]             clear_cache
  OP_SETUP = 5,  // [5,g,i]         set_up(geometry g, image i)
  OP_SYM = 6,    // [6,k]           flip do_symmetry switch k, then set_up(current)
  OP_CACHE = 7,  // [7,mode]        cache mode 0 disabled /1 basic bins only /2 all, then set_up(current)
  OP_OPT = 8,    // [8,k,v]         k=0: num_tangential_LORs=1+v%4, k=1: flip restrict_to_cylindrical_FOV; then set_up(current)
  OP_SWEEP = 9   // [9,seed]        ALL bins of the current geometry in a pseudo-random order
};

const double SCREEN = 1e-3; // voxel units, from the property text / DESIGN "Tie screen"

// calibrated tolerance (see props.d/C03.py level_note and the final report): relative to the row maximum
double
row_tolerance(double kappa)
{
  static const double tol = std::getenv("C03_TOL") ? std::atof(std::getenv("C03_TOL")) : 2e-3;
  static const double per_kappa = std::getenv("C03_TOL_KAPPA") ? std::atof(std::getenv("C03_TOL_KAPPA")) : 4e-5;
  return std::max(tol, per_kappa * kappa);
}

inline bool
near_half(double x)
{
  return std::fabs(x - std::floor(x) - 0.5) < SCREEN;
}

// ---- the geometric description a fresh matrix is built from ---------------------------------
struct RefKey
{
  int g, i, lors;
  bool cyl, adb;
  bool operator<(const RefKey& o) const { return std::tie(g, i, lors, cyl, adb) < std::tie(o.g, o.i, o.lors, o.cyl, o.adb); }
};

struct Ref
{
  shared_ptr<ProjMatrixByBinUsingRayTracing> m; // all symmetries off, cache disabled, set up once
  shared_ptr<const ProjDataInfo> pdi;
  CartesianCoordinate3D<float> voxel_size, origin;
  CartesianCoordinate3D<int> imin, imax;
  int lors;
  bool cyl_fov;
  bool adb; // effective value after set_up (set_up documents that it resets the flag for compressed data)
};

// ---- tie screen: mirror of ray_trace_one_lor's end points, in double ---------------------------
// returns true when the bin has to be skipped
//
// Conditioning: the position at which a ray leaves a voxel through a plane perpendicular to direction d is
// (boundary - start_d)/|difference_d|; a rounding error e in start_d (float, ~1e-6 grid units) moves it by e/|difference_d|
// of the chord, i.e. changes an element by ~ e * max_d|difference_d| / |difference_d| relative to the row maximum.
// kappa = max_d |difference_d| / min_{d not parallel} |difference_d| (grid units) is returned so that the comparison
// tolerance can follow the conditioning of nearly-parallel rays (small tan(theta) with thick planes, small view offsets).
bool
screen_one_ray(const Ref& R, double s, double t, double cphi, double sphi, double costheta, double tantheta, double offset_in_z, double fovrad, double& kappa)
{
  const double vx = R.voxel_size.x(), vy = R.voxel_size.y(), vz = R.voxel_size.z();
  const double tol_mm = SCREEN * std::min(vx, vy);
  double max_a, min_a;
  if (R.cyl_fov)
    {
      if (std::fabs(std::fabs(s) - fovrad) < tol_mm)
        return true; // ray tangent to the FOV cylinder: empty/non-empty is a rounding tie
      if (std::fabs(s) > fovrad)
        return false; // empty row, no end points
      max_a = std::sqrt(fovrad * fovrad - s * s);
      min_a = -max_a;
    }
  else
    {
      // the code switches formula at |cos|,|sin| < 1e-3
      if (std::fabs(std::fabs(cphi) - 1e-3) < 1e-5 || std::fabs(std::fabs(sphi) - 1e-3) < 1e-5)
        return true;
      if (std::fabs(cphi) < 1e-3 || std::fabs(sphi) < 1e-3)
        {
          if (std::fabs(std::fabs(s) - fovrad) < tol_mm)
            return true;
          if (fovrad < std::fabs(s))
            return false;
          max_a = fovrad;
          min_a = -fovrad;
        }
      else
        {
          const double sg_s = sphi < 0 ? -1. : 1., sg_c = cphi < 0 ? -1. : 1.;
          max_a = std::min((fovrad * sg_s - s * cphi) / sphi, (fovrad * sg_c + s * sphi) / cphi);
          min_a = std::max((-fovrad * sg_s - s * cphi) / sphi, (-fovrad * sg_c + s * sphi) / cphi);
          const double d = max_a - min_a; // the code returns an empty row if d < 1e-3*vx
          if (d < -tol_mm)
            return false;
          if (d < 1e-2 * vx)
            return true;
        }
    }
  const double p0[3] = { (t / costheta + offset_in_z - max_a * tantheta) / vz, (s * sphi - max_a * cphi) / vy, (s * cphi + max_a * sphi) / vx };
  const double p1[3] = { (t / costheta + offset_in_z - min_a * tantheta) / vz, (s * sphi - min_a * cphi) / vy, (s * cphi + min_a * sphi) / vx };
  double n2 = 0;
  for (int d = 0; d < 3; ++d)
    n2 += (p1[d] - p0[d]) * (p1[d] - p0[d]);
  if (std::sqrt(n2) < 1e-2)
    return true; // (nearly) coinciding end points: the ray tracer returns nothing below 1e-5
  {
    double dmax = 0, dmin = 1e30;
    for (int d = 0; d < 3; ++d)
      {
        const double ad = std::fabs(p1[d] - p0[d]);
        dmax = std::max(dmax, ad);
        if (ad > 1e-4)
          dmin = std::min(dmin, ad);
      }
    if (dmin < 1e29)
      kappa = std::max(kappa, dmax / dmin);
  }
  for (int d = 0; d < 3; ++d)
    {
      const double ad = std::fabs(p1[d] - p0[d]);
      if (ad > 0.3e-4 && ad < 3e-4)
        return true; // "parallel to a coordinate plane" is decided at 1e-4 grid units: tie
      if (ad <= 1e-4)
        { // parallel: which column/plane the whole ray runs in
          if (near_half(p0[d]))
            return true;
        }
      else if (near_half(p0[d]) || near_half(p1[d]))
        return true; // end point on a voxel boundary: which voxel is first/last is a rounding tie
    }
  return false;
}

bool
screen_one_bin(const Ref& R, const Bin& bin, double& kappa)
{
  const ProjDataInfo& pdi = *R.pdi;
  double s = pdi.get_s(bin);
  double phi;
  if (!R.adb)
    phi = pdi.get_phi(bin);
  else
    { // ProjMatrixByBinUsingRayTracing.cxx: use_actual_detector_boundaries, cylindrical branch
      const ProjDataInfoCylindricalNoArcCorr& nac = dynamic_cast<const ProjDataInfoCylindricalNoArcCorr&>(pdi);
      const int ndet = pdi.get_scanner_ptr()->get_num_detectors_per_ring();
      const double R_eff = pdi.get_scanner_ptr()->get_effective_ring_radius();
      int d1 = 0, d2 = 0;
      nac.get_det_num_pair_for_view_tangential_pos_num(d1, d2, bin.view_num(), bin.tangential_pos_num());
      phi = (d1 + d2) * _PI / ndet - _PI / 2 + nac.get_azimuthal_angle_offset();
      s = R_eff * std::sin((d1 - d2) * _PI / ndet + _PI / 2);
      // detector numbers are modulo ndet: (phi +- pi, -s) is brought back to the branch of get_phi (as the matrix does)
      const double old_phi = pdi.get_phi(bin);
      if (std::fabs(phi - old_phi) > _PI / 2)
        {
          phi += phi > old_phi ? -_PI : _PI;
          s = -s;
        }
    }
  const double cphi = std::cos(phi), sphi = std::sin(phi);
  const double tantheta = pdi.get_tantheta(bin);
  const double costheta = 1 / std::sqrt(1 + tantheta * tantheta);
  const double t = pdi.get_t(bin);
  const double vx = R.voxel_size.x(), vy = R.voxel_size.y(), vz = R.voxel_size.z();
  const double samp_z = pdi.get_sampling_in_t(bin) / costheta;
  const int nz_lors = int(std::ceil(samp_z / vz - 1e-3));
  if (nz_lors < 1)
    return true;
  double offset_in_z = -samp_z / (2 * nz_lors) * (nz_lors - 1) - R.origin.z() + (R.imax.z() + R.imin.z()) / 2. * vz;
  if (tantheta == 0)
    {
      // "make sure we don't ray-trace exactly between 2 planes": shifted by .1 voxel when within 1e-3 of a boundary
      const double zc = (t + offset_in_z) / vz;
      const double dist = std::fabs(zc - std::floor(zc) - 0.5);
      if (std::fabs(dist - 1e-3) < 3e-4)
        return true; // the decision itself would be a tie (does not occur for z spacing = sampling / k)
      if (dist < 1e-3)
        offset_in_z -= .1 * vz;
    }
  const double fovrad = std::min(std::min(R.imax.x(), -R.imin.x()) * vx, std::min(R.imax.y(), -R.imin.y()) * vy);
  if (R.lors == 1)
    return screen_one_ray(R, s, t, cphi, sphi, costheta, tantheta, offset_in_z, fovrad, kappa);
  const double s_inc = (!R.adb ? 1 : 2) * double(pdi.get_sampling_in_s(bin)) / R.lors;
  double cur = s - s_inc * (R.lors - 1) / 2.;
  for (int k = 1; k <= R.lors; ++k, cur += s_inc)
    if (screen_one_ray(R, cur, t, cphi, sphi, costheta, tantheta, offset_in_z, fovrad, kappa))
      return true;
  return false;
}

//! the bin and its images under the full symmetry group (whether or not the symmetry is enabled: screening more is always sound)
bool
screen_bin(const Ref& R, const Bin& bin, double& kappa)
{
  kappa = 1;
  const ProjDataInfo& p = *R.pdi;
  const int nv = p.get_num_views();
  std::vector<int> views = { bin.view_num(), nv - bin.view_num() };
  if (nv % 2 == 0)
    {
      views.push_back(nv / 2 - bin.view_num());
      views.push_back(nv / 2 + bin.view_num());
      views.push_back(bin.view_num() - nv / 2);
      views.push_back(3 * nv / 2 - bin.view_num());
    }
  std::sort(views.begin(), views.end());
  views.erase(std::unique(views.begin(), views.end()), views.end());
  for (int sg = 0; sg < 2; ++sg)
    {
      const int seg = sg ? -bin.segment_num() : bin.segment_num();
      if (sg && (seg == bin.segment_num() || seg < p.get_min_segment_num() || seg > p.get_max_segment_num()))
        continue;
      if (bin.axial_pos_num() < p.get_min_axial_pos_num(seg) || bin.axial_pos_num() > p.get_max_axial_pos_num(seg))
        continue;
      for (int tg = 0; tg < 2; ++tg)
        {
          const int tang = tg ? -bin.tangential_pos_num() : bin.tangential_pos_num();
          if (tg && tang == bin.tangential_pos_num())
            continue;
          for (int v : views)
            {
              if (v < p.get_min_view_num() || v > p.get_max_view_num())
                continue;
              if (R.adb && (tang < p.get_min_tangential_pos_num() || tang > p.get_max_tangential_pos_num()))
                continue;
              if (screen_one_bin(R, Bin(seg, v, bin.axial_pos_num(), tang, bin.timing_pos_num()), kappa))
                return true;
            }
        }
    }
  return false;
}

// ---- the interpreter ---------------------------------------------------------------------------
struct Geo
{
  shared_ptr<Scanner> sc;
  shared_ptr<ProjDataInfo> pdi;
};

typedef std::tuple<int, int, int, int, int> BinKey;
inline BinKey
key(const Bin& b)
{
  return BinKey(b.segment_num(), b.view_num(), b.axial_pos_num(), b.tangential_pos_num(), b.timing_pos_num());
}
inline std::string
show(const Bin& b)
{
  return cat("bin(seg=", b.segment_num(), ",view=", b.view_num(), ",ax=", b.axial_pos_num(), ",tang=", b.tangential_pos_num(), ",tof=", b.timing_pos_num(), ")");
}

struct Run
{
  Geo geo[2];
  shared_ptr<VoxelsOnCartesianGrid<float>> img[2];
  int g = 0, i = 0;
  bool sym[5];
  int cache = 1;
  int lors = 1;
  bool cyl = true;
  bool adb = false;
  shared_ptr<ProjMatrixByBinUsingRayTracing> m;
  std::map<RefKey, Ref> refs;
  std::vector<BinKey> requested; // all bins requested so far (for OP_REGET)
  std::set<BinKey> since_event;  // bins requested since the last clear/set_up/flip (statistics only)
  bool had_event = false;        // a clear/set_up/flip happened after at least one get
  long n_gets = 0, n_screened = 0, n_nontrivial = 0;
  std::string trail; // short description of the events so far, for messages

  void apply_switches(ProjMatrixByBinUsingRayTracing& mm) const
  {
    mm.set_num_tangential_LORs(lors);
    mm.set_restrict_to_cylindrical_FOV(cyl);
    mm.set_do_symmetry_90degrees_min_phi(sym[0]);
    mm.set_do_symmetry_180degrees_min_phi(sym[1]);
    mm.set_do_symmetry_swap_segment(sym[2]);
    mm.set_do_symmetry_swap_s(sym[3]);
    mm.set_do_symmetry_shift_z(sym[4]);
    mm.enable_cache(cache != 0);
    mm.store_only_basic_bins_in_cache(cache == 1);
  }

  //! would a FRESH matrix with the current switches accept (geometry gg, image ii)?  (error() at set_up = rejected configuration)
  bool probe(int gg, int ii, std::string& why) const
  {
    try
      {
        ProjMatrixByBinUsingRayTracing fresh;
        fresh.set_use_actual_detector_boundaries(adb);
        apply_switches(fresh);
        fresh.set_up(geo[gg].pdi, img[ii]);
        // calculate_proj_matrix_elems_for_one_bin has one more error() ("need sampling distance in axial direction to be an
        // integer multiple of the voxel size", tested to 1e-3 per segment, while set_up tests to 1e-2): ask for one row per segment
        ProjMatrixElemsForOneBin row;
        const ProjDataInfo& p = *geo[gg].pdi;
        for (int sg = p.get_min_segment_num(); sg <= p.get_max_segment_num(); ++sg)
          fresh.get_proj_matrix_elems_for_one_bin(row, Bin(sg, p.get_min_view_num(), p.get_min_axial_pos_num(sg), 0, 0));
      }
    catch (const stir_verif::AssertionFailure&)
      {
        throw;
      }
    catch (const std::exception& e)
      {
        why = e.what();
        return false;
      }
    return true;
  }

  const Ref& ref()
  {
    const RefKey k{ g, i, lors, cyl, m->get_use_actual_detector_boundaries() };
    auto it = refs.find(k);
    if (it != refs.end())
      return it->second;
    Ref R;
    vp::MatrixOpts o;
    o.num_tangential_LORs = lors;
    o.restrict_to_cylindrical_FOV = cyl;
    o.use_actual_detector_boundaries = k.adb;
    R.m = vp::make_plain_matrix(o);
    R.m->set_up(geo[g].pdi, img[i]);
    R.pdi = geo[g].pdi;
    R.voxel_size = img[i]->get_voxel_size();
    R.origin = img[i]->get_origin();
    img[i]->get_regular_range(R.imin, R.imax);
    R.lors = lors;
    R.cyl_fov = cyl;
    R.adb = R.m->get_use_actual_detector_boundaries();
    return refs.emplace(k, R).first->second;
  }

  Bin bin_from(long a, long b, long c, long d, long e) const
  {
    const ProjDataInfo& p = *geo[g].pdi;
    auto md = [](long x, long n) { return int(((x % n) + n) % n); };
    const int seg = p.get_min_segment_num() + md(a, p.get_num_segments());
    const int view = p.get_min_view_num() + md(b, p.get_num_views());
    const int ax = p.get_min_axial_pos_num(seg) + md(c, p.get_num_axial_poss(seg));
    const int tang = p.get_min_tangential_pos_num() + md(d, p.get_num_tangential_poss());
    const int tof = p.get_min_tof_pos_num() + md(e, p.get_num_tof_poss());
    return Bin(seg, view, ax, tang, tof);
  }
  Bin bin_from(const BinKey& k) const
  {
    const ProjDataInfo& p = *geo[g].pdi;
    return bin_from(std::get<0>(k) - p.get_min_segment_num(), std::get<1>(k) - p.get_min_view_num(), std::get<2>(k), std::get<3>(k) - p.get_min_tangential_pos_num(),
                    std::get<4>(k) - p.get_min_tof_pos_num());
  }

  void event(const std::string& what)
  {
    if (trail.size() < 600)
      trail += what + ";";
    since_event.clear();
    if (n_gets > 0)
      had_event = true;
  }

  Result do_setup(int gg, int ii, const char* what)
  {
    std::string why;
    {
      // (class of the fixed defect C03-F1, replays/C03/fixed_resetup_index_range.json: same data, voxel size and origin, other index range)
      CartesianCoordinate3D<int> a0, a1, b0, b1;
      img[i]->get_regular_range(a0, a1);
      img[ii]->get_regular_range(b0, b1);
      if (*geo[g].pdi == *geo[gg].pdi && img[i]->get_voxel_size() == img[ii]->get_voxel_size() && img[i]->get_origin() == img[ii]->get_origin() && (a0 != b0 || a1 != b1))
        stats().count("set_up events for an image that differs only in its index range");
    }
    if (!probe(gg, ii, why))
      {
        stats().count("set_up events skipped (fresh matrix rejects the combination)");
        return Result::pass();
      }
    g = gg;
    i = ii;
    m->set_up(geo[g].pdi, img[i]); // must not throw: a fresh matrix with the same settings accepted it
    event(cat(what, "(g", g, ",i", i, ")"));
    return Result::pass();
  }

  Result get(const Bin& bin, const char* how);
  Result run_op(const json& op, int tier);
};

Result
Run::get(const Bin& bin, const char* how)
{
  const Ref& R = ref();
  ++n_gets;
  stats().count("gets");
  double kappa = 1;
  if (screen_bin(R, bin, kappa))
    {
      ++n_screened;
      stats().count("gets screened (tie)");
      return Result::pass();
    }
  requested.push_back(key(bin));
  // statistics: non-trivial get = served through a non-identity symmetry operation, or (potentially) from the cache after an event
  {
    Bin basic = bin;
    const unique_ptr<SymmetryOperation> sop = m->get_symmetries_ptr()->find_symmetry_operation_from_basic_bin(basic);
    const bool via_sym = !sop->is_trivial();
    {
      // coverage histogram of the symmetry-operation classes (statistics only)
      std::string n = typeid(*sop).name();
      const std::size_t pos = n.find("CartesianGrid_");
      stats().cls("symmetry operation: " + (pos == std::string::npos ? (via_sym ? n : std::string("trivial")) : n.substr(pos + 14, n.size() - pos - 15)));
    }
    const bool again = since_event.count(key(bin)) > 0;
    const bool nt = via_sym || (cache != 0 && had_event) || (cache != 0 && again);
    if (via_sym)
      stats().count("gets via non-identity symmetry");
    if (cache != 0 && again)
      stats().count("gets repeated with cache on");
    if (cache != 0 && had_event)
      stats().count("gets after clear/set_up/flip with cache on");
    if (nt)
      {
        ++n_nontrivial;
        stats().count("gets non-trivial");
      }
    since_event.insert(key(bin));
  }
  ProjMatrixElemsForOneBin got, want;
  m->get_proj_matrix_elems_for_one_bin(got, bin);
  R.m->get_proj_matrix_elems_for_one_bin(want, bin);

  const std::string ctx = cat(how, " ", show(bin), " [g", g, ",i", i, " sym=", sym[0], sym[1], sym[2], sym[3], sym[4], " cache=", cache, " lors=", lors, " cylFOV=", cyl,
                              " adb=", R.adb, "] after {", trail, "}");
  // ---- validity of the returned row (independent of the differential) ---------------------------
  {
    const Bin& sb = got.get_bin();
    VF_CHECK(sb.segment_num() == bin.segment_num() && sb.view_num() == bin.view_num() && sb.axial_pos_num() == bin.axial_pos_num()
                 && sb.tangential_pos_num() == bin.tangential_pos_num() && sb.timing_pos_num() == bin.timing_pos_num(),
             "row stores ", show(sb), " but was requested for ", ctx);
  }
  std::vector<std::pair<std::tuple<int, int, int>, double>> a, b;
  long out_of_z = 0;
  double mx = 0;
  for (auto it = got.begin(); it != got.end(); ++it)
    {
      const double v = it->get_value();
      VF_CHECK(v >= 0 && std::isfinite(v), "negative or non-finite element ", v, " at voxel (z,y,x)=(", it->coord1(), ",", it->coord2(), ",", it->coord3(), ") in ", ctx);
      VF_CHECK(it->coord2() >= R.imin.y() && it->coord2() <= R.imax.y() && it->coord3() >= R.imin.x() && it->coord3() <= R.imax.x(), "element outside the image in x/y: (z,y,x)=(",
               it->coord1(), ",", it->coord2(), ",", it->coord3(), ") value ", v, ", image y ", R.imin.y(), "..", R.imax.y(), " x ", R.imin.x(), "..", R.imax.x(), " in ", ctx);
      if (it->coord1() < R.imin.z() || it->coord1() > R.imax.z())
        ++out_of_z;
      a.emplace_back(std::make_tuple(it->coord1(), it->coord2(), it->coord3()), v);
      mx = std::max(mx, v);
    }
  stats().count("elements", long(a.size()));
  stats().count("elements outside the axial range (skipped by the projectors; counted, not flagged)", out_of_z);
  std::sort(a.begin(), a.end());
  for (std::size_t k = 1; k < a.size(); ++k)
    VF_CHECK(a[k].first != a[k - 1].first, "voxel (z,y,x)=(", std::get<0>(a[k].first), ",", std::get<1>(a[k].first), ",", std::get<2>(a[k].first), ") occurs twice in ", ctx);
  VF_CHECK(got.check_state() == Succeeded::yes, "check_state()==no for ", ctx);
  // ---- differential with the directly computed row -------------------------------------------------
  for (auto it = want.begin(); it != want.end(); ++it)
    {
      b.emplace_back(std::make_tuple(it->coord1(), it->coord2(), it->coord3()), double(it->get_value()));
      mx = std::max(mx, double(it->get_value()));
    }
  std::sort(b.begin(), b.end());
  if (a.empty() && b.empty())
    stats().count("gets with empty row");
  double worst = 0;
  std::tuple<int, int, int> worst_at(0, 0, 0);
  double wa = 0, wb = 0;
  for (std::size_t ia = 0, ib = 0; ia < a.size() || ib < b.size();)
    {
      double va = 0, vb = 0;
      std::tuple<int, int, int> at;
      if (ib >= b.size() || (ia < a.size() && a[ia].first < b[ib].first))
        {
          at = a[ia].first;
          va = a[ia++].second;
        }
      else if (ia >= a.size() || b[ib].first < a[ia].first)
        {
          at = b[ib].first;
          vb = b[ib++].second;
        }
      else
        {
          at = a[ia].first;
          va = a[ia++].second;
          vb = b[ib++].second;
        }
      if (std::fabs(va - vb) > worst)
        {
          worst = std::fabs(va - vb);
          worst_at = at;
          wa = va;
          wb = vb;
        }
    }
  if (mx > 0)
    {
      const double rel = worst / mx;
      stats().maxi(geo[g].pdi->is_tof_data() ? "max |row - direct row| / row max (TOF)" : "max |row - direct row| / row max (non-TOF)", rel);
      if (kappa < 30)
        stats().maxi("max |row - direct row| / row max, well-conditioned rays (kappa<30)", rel);
      else
        stats().maxi("max |row - direct row| / row max / kappa, kappa>=30", rel / kappa);
      stats().maxi("max kappa", kappa);
      const double tol = row_tolerance(kappa);
      stats().maxi("max |row - direct row| / row max / tolerance", rel / tol);
      if (std::getenv("C03_DEBUG") && rel > std::atof(std::getenv("C03_DEBUG")))
        std::cerr << "C03_DEBUG rel " << rel << " at (" << std::get<0>(worst_at) << "," << std::get<1>(worst_at) << "," << std::get<2>(worst_at) << ") got " << wa << " direct " << wb
                  << " max " << mx << " sizes " << a.size() << "/" << b.size() << " " << ctx << " phi " << geo[g].pdi->get_phi(bin) << " s " << geo[g].pdi->get_s(bin) << " tanth "
                  << geo[g].pdi->get_tantheta(bin) << " vox " << R.voxel_size.x() << "," << R.voxel_size.y() << "," << R.voxel_size.z() << "\n";
      VF_CHECK(rel <= tol, "row differs from the directly computed row: voxel (z,y,x)=(", std::get<0>(worst_at), ",", std::get<1>(worst_at), ",", std::get<2>(worst_at),
               ") has ", wa, ", direct ", wb, "; row max ", mx, " (rel ", rel, ", tolerance ", tol, ", kappa ", kappa, "); sizes ", a.size(), " / ", b.size(), "; ", ctx);
    }
  return Result::pass();
}

#define C03_DO(expr)                                                                                                             \
  do                                                                                                                             \
    {                                                                                                                            \
      const Result r_ = (expr);                                                                                                  \
      if (r_.kind != Result::PASS)                                                                                               \
        return r_;                                                                                                               \
    }                                                                                                                            \
  while (0)

Result
Run::run_op(const json& op, int)
{
  auto arg = [&](std::size_t k) -> long { return k < op.size() && op[k].is_number() ? op[k].get<long>() : 0L; };
  const int code = int(arg(0));
  switch (code)
    {
    case OP_GET:
      return get(bin_from(arg(1), arg(2), arg(3), arg(4), arg(5)), "get");
    case OP_GETN:
      {
        SplitMix r(uint64_t(arg(1)));
        const long n = std::min(400L, std::max(0L, arg(2)));
        for (long k = 0; k < n; ++k)
          {
            const long a = r.range(0, 1 << 20), b = r.range(0, 1 << 20), c = r.range(0, 1 << 20), d = r.range(0, 1 << 20), e = r.range(0, 1 << 20);
            C03_DO(get(bin_from(a, b, c, d, e), "get(random)"));
          }
        return Result::pass();
      }
    case OP_REGET:
      {
        if (requested.empty())
          return Result::pass();
        const long n = std::min(100L, std::max(1L, arg(2)));
        const std::size_t total = requested.size();
        for (long k = 0; k < n; ++k)
          {
            const std::size_t idx = std::size_t((((arg(1) + k * 7) % long(total)) + long(total)) % long(total));
            C03_DO(get(bin_from(requested[total - 1 - idx]), "get(again)"));
          }
        return Result::pass();
      }
    case OP_ORBIT:
      {
        Bin b = bin_from(arg(1), arg(2), arg(3), arg(4), arg(5));
        Bin basic = b;
        m->get_symmetries_ptr()->find_basic_bin(basic);
        std::vector<Bin> rel;
        m->get_symmetries_ptr()->get_related_bins(rel, basic);
        stats().count("orbits requested");
        stats().maxi("largest orbit", double(rel.size()));
        if (arg(6) % 2)
          std::reverse(rel.begin(), rel.end());
        const ProjDataInfo& p = *geo[g].pdi;
        for (const Bin& rb : rel)
          {
            // only bins of the data set are requested
            if (rb.segment_num() < p.get_min_segment_num() || rb.segment_num() > p.get_max_segment_num() || rb.view_num() < p.get_min_view_num()
                || rb.view_num() > p.get_max_view_num() || rb.axial_pos_num() < p.get_min_axial_pos_num(rb.segment_num())
                || rb.axial_pos_num() > p.get_max_axial_pos_num(rb.segment_num()) || rb.tangential_pos_num() < p.get_min_tangential_pos_num()
                || rb.tangential_pos_num() > p.get_max_tangential_pos_num() || rb.timing_pos_num() < p.get_min_tof_pos_num() || rb.timing_pos_num() > p.get_max_tof_pos_num())
              {
                stats().count("related bins outside the data (not requested)");
                continue;
              }
            Bin q(rb.segment_num(), rb.view_num(), rb.axial_pos_num(), rb.tangential_pos_num(), rb.timing_pos_num());
            C03_DO(get(q, "get(orbit)"));
          }
        return Result::pass();
      }
    case OP_CLEAR:
      m->clear_cache();
      event("clear_cache");
      return Result::pass();
    case OP_SETUP:
      return do_setup(int(((arg(1) % 2) + 2) % 2), int(((arg(2) % 2) + 2) % 2), "set_up");
    case OP_SYM:
      {
        const int k = int(((arg(1) % 5) + 5) % 5);
        sym[k] = !sym[k];
        std::string why;
        if (!probe(g, i, why))
          { // (does not happen: the switches only ever disable checks) keep the object consistent
            sym[k] = !sym[k];
            return Result::pass();
          }
        apply_switches(*m);
        m->set_up(geo[g].pdi, img[i]);
        event(cat("sym", k, "=", sym[k], "+set_up"));
        return Result::pass();
      }
    case OP_CACHE:
      {
        cache = int(((arg(1) % 3) + 3) % 3);
        apply_switches(*m);
        m->set_up(geo[g].pdi, img[i]); // (documented to be skipped when nothing relevant changed)
        event(cat("cache=", cache, "+set_up"));
        return Result::pass();
      }
    case OP_OPT:
      {
        const int old_lors = lors;
        const bool old_cyl = cyl;
        if (arg(1) % 2 == 0)
          lors = 1 + int(((arg(2) % 4) + 4) % 4);
        else
          cyl = !cyl;
        std::string why;
        if (!probe(g, i, why))
          {
            lors = old_lors;
            cyl = old_cyl;
            return Result::pass();
          }
        apply_switches(*m);
        m->set_up(geo[g].pdi, img[i]);
        event(cat("lors=", lors, ",cylFOV=", cyl, "+set_up"));
        return Result::pass();
      }
    case OP_SWEEP:
      {
        std::vector<Bin> bins;
        vp::ExplicitP::enumerate_bins(*geo[g].pdi, bins);
        SplitMix r(uint64_t(arg(1)));
        for (std::size_t k = bins.size(); k > 1; --k)
          std::swap(bins[k - 1], bins[std::size_t(r.range(0, long(k) - 1))]);
        const std::size_t cap = 8000;
        if (bins.size() > cap)
          {
            bins.resize(cap);
            stats().count("sweeps truncated to 8000 bins");
          }
        else
          stats().count("complete sweeps of all bins");
        for (const Bin& b : bins)
          {
            Bin q(b.segment_num(), b.view_num(), b.axial_pos_num(), b.tangential_pos_num(), b.timing_pos_num());
            C03_DO(get(q, "get(sweep)"));
          }
        return Result::pass();
      }
    default:
      return Result::pass();
    }
}

Result
check(const json& c)
{
  vg::quiet();
  Run R;
  try
    {
      R.geo[0].sc = vg::make_scanner(c["scA"]);
      R.geo[1].sc = vg::make_scanner(c["scB"]);
      for (int k = 0; k < 2; ++k)
        if (R.geo[k].sc->check_consistency() != Succeeded::yes)
          return Result::reject("scanner inconsistent");
      R.geo[0].pdi = vg::make_pdi(R.geo[0].sc, c["pdiA"]);
      R.geo[1].pdi = vg::make_pdi(R.geo[1].sc, c["pdiB"]);
      R.img[0] = vg::make_image(c["imgA"], *R.geo[0].pdi);
      R.img[1] = vg::make_image(c["imgB"], *R.geo[c.value("imgB_ref", 1) ? 1 : 0].pdi);
    }
  catch (const std::exception& e)
    {
      return Result::reject(std::string("construction rejected: ") + e.what());
    }
  for (int k = 0; k < 5; ++k)
    R.sym[k] = c["sym"][std::size_t(k)].get<int>() != 0;
  R.cache = c["cache"].get<int>();
  R.lors = c["lors"].get<int>();
  R.cyl = c["cyl_fov"].get<bool>();
  R.adb = c["adb"].get<bool>();
  {
    std::string why;
    if (!R.probe(0, 0, why))
      return Result::reject("set_up rejected: " + why.substr(0, 60));
  }
  R.m.reset(new ProjMatrixByBinUsingRayTracing());
  R.m->set_use_actual_detector_boundaries(R.adb);
  R.apply_switches(*R.m);
  R.m->set_up(R.geo[0].pdi, R.img[0]);

  // class histogram
  {
    const ProjDataInfo& p = *R.geo[0].pdi;
    stats().cls(p.is_tof_data() ? "geometry A: TOF" : "geometry A: non-TOF");
    if (dynamic_cast<const ProjDataInfoCylindricalArcCorr*>(&p))
      stats().cls("geometry A: arc-corrected");
    if (c["pdiA"]["span"].get<int>() > 1)
      stats().cls(c["pdiA"]["span"].get<int>() % 2 ? "geometry A: odd span>1" : "geometry A: even span");
    if (p.get_num_views() != p.get_scanner_ptr()->get_num_detectors_per_ring() / 2)
      stats().cls("geometry A: view mashing");
    if (p.get_num_views() % 4 != 0)
      stats().cls("geometry A: views not a multiple of 4");
    if (std::fabs(p.get_phi(Bin(0, 0, 0, 0))) > 1e-4)
      stats().cls("geometry A: view offset (tilt)");
    stats().cls(cat("cache mode ", R.cache));
    stats().cls(cat("tangential LORs ", R.lors));
    stats().cls(R.cyl ? "cylindrical FOV" : "square FOV");
    if (R.adb)
      stats().cls("use_actual_detector_boundaries requested");
    const int nsym = R.sym[0] + R.sym[1] + R.sym[2] + R.sym[3] + R.sym[4];
    stats().cls(cat("symmetry switches on: ", nsym));
    const auto vs = R.img[0]->get_voxel_size();
    if (std::fabs(vs.x() - vs.y()) > 2e-3)
      stats().cls("image A: anisotropic xy voxels");
    if (c["imgA"]["nx"].get<int>() % 2 == 0)
      stats().cls("image A: even x size");
    if (c["imgA"]["z_div"].get<int>() > 1)
      stats().cls("image A: z spacing = sampling/k, k>1");
    if (c["imgA"]["z_shift_planes"].get<int>() != 0)
      stats().cls("image A: shifted z origin");
  }
  const int tier = c.value("tier", 0);
  Result res = Result::pass();
  for (const json& op : c["ops"])
    {
      if (!op.is_array() || op.empty())
        continue;
      res = R.run_op(op, tier);
      if (res.kind != Result::PASS)
        break;
    }
  stats().count("histories");
  if (R.n_gets > 0)
    stats().maxi("max screened fraction in one history (>=50 gets)", R.n_gets >= 50 ? double(R.n_screened) / double(R.n_gets) : 0.);
  return res;
}

// ---- generator -----------------------------------------------------------------------------------
json
gen_config(Src& s, int size)
{
  json c;
  vg::ScannerOpts so;
  so.max_ndet = size < 35 ? 24 : 48;
  so.max_rings = size < 35 ? 3 : 5;
  so.allow_tof = true;
  so.allow_blocks = false;
  so.allow_tilt = true;
  vg::PdiOpts po;
  po.allow_arccorr = true;
  vg::ImageOpts io;
  io.max_xy = size < 50 ? 17 : 33;
  // bias (not a restriction): half of the cases get the geometry class in which all five symmetries can be active
  // (no view offset, number of views a multiple of 4, non-TOF) - DataSymmetriesForBins_PET_CartesianGrid disables them otherwise
  const bool want_full_sym = s.coin();
  c["scA"] = vg::gen_scanner(s, so);
  for (int tries = 0; want_full_sym && tries < 6 && c["scA"]["ndet"].get<int>() % 8 != 0; ++tries)
    c["scA"] = vg::gen_scanner(s, so);
  if (want_full_sym)
    c["scA"]["tilt"] = 0.;
  shared_ptr<Scanner> scA = vg::make_scanner(c["scA"]);
  c["pdiA"] = vg::gen_pdi(s, *scA, po);
  if (want_full_sym)
    {
      if (c["pdiA"]["views"].get<int>() % 4 != 0)
        c["pdiA"]["views"] = c["scA"]["ndet"].get<int>() / 2;
      if (s.chance(3, 4))
        c["pdiA"]["tof_mash"] = 0;
    }
  c["imgA"] = vg::gen_image(s, io);
  if (s.chance(2, 3))
    c["scB"] = c["scA"];
  else
    c["scB"] = vg::gen_scanner(s, so);
  shared_ptr<Scanner> scB = vg::make_scanner(c["scB"]);
  c["pdiB"] = vg::gen_pdi(s, *scB, po);
  c["imgB"] = vg::gen_image(s, io);
  c["imgB_ref"] = s.coin() ? 1 : 0; // image B is laid out for geometry B (1) or for geometry A (0)
  json sym = json::array();
  const int mode = int(s.range(0, 7));
  for (int k = 0; k < 5; ++k)
    sym.push_back(mode == 0 ? 1 : (mode == 1 ? 0 : (s.coin() ? 1 : 0)));
  c["sym"] = sym;
  c["cache"] = int(s.pick(std::vector<int>{ 0, 1, 1, 2, 2 }));
  c["lors"] = int(s.small(1, 4));
  c["cyl_fov"] = s.chance(3, 4);
  c["adb"] = s.chance(1, 8);
  return c;
}

json
gen(Src& s, int size)
{
  json c = gen_config(s, size);
  shared_ptr<Scanner> scA = vg::make_scanner(c["scA"]);
  // (only used to bias the bin choice towards the special views / central tangential positions of geometry A)
  const int nv = c["pdiA"]["views"].get<int>();
  const int ntang = c["pdiA"]["tang"].get<int>();
  const std::vector<long> special_views = { 0, nv / 4, nv / 4 + 1, nv / 2, nv / 2 + 1, 3 * nv / 4, 3 * nv / 4 + 1, nv - 1, 1 };
  json ops = json::array();
  const int n = int(s.range(3, 8 + size / 3));
  for (int k = 0; k < n; ++k)
    {
      const long r = s.range(0, 99);
      json op = json::array();
      auto bin_args = [&]() {
        op.push_back(s.range(0, 40));
        op.push_back(s.chance(1, 3) ? s.pick(special_views) : s.range(0, 63));
        op.push_back(s.range(0, 40));
        op.push_back(s.chance(1, 3) ? long(ntang / 2) + s.range(-1, 1) : s.range(0, 63));
        op.push_back(s.range(0, 20));
      };
      if (r < 22)
        {
          op.push_back(OP_GET);
          bin_args();
        }
      else if (r < 44)
        {
          op.push_back(OP_GETN);
          op.push_back(long(s.seed64() & 0xffffffffULL));
          op.push_back(s.range(1, 10 + size / 2));
        }
      else if (r < 54)
        {
          op.push_back(OP_REGET);
          op.push_back(s.range(0, 50));
          op.push_back(s.range(1, 20));
        }
      else if (r < 66)
        {
          op.push_back(OP_ORBIT);
          bin_args();
          op.push_back(s.range(0, 1));
        }
      else if (r < 73)
        op.push_back(OP_CLEAR);
      else if (r < 82)
        {
          op.push_back(OP_SETUP);
          op.push_back(s.range(0, 1));
          op.push_back(s.range(0, 1));
        }
      else if (r < 89)
        {
          op.push_back(OP_SYM);
          op.push_back(s.range(0, 4));
        }
      else if (r < 95)
        {
          op.push_back(OP_CACHE);
          op.push_back(s.range(0, 2));
        }
      else
        {
          op.push_back(OP_OPT);
          op.push_back(s.range(0, 1));
          op.push_back(s.range(0, 3));
        }
      ops.push_back(op);
    }
  c["ops"] = ops;
  return c;
}

// ---- bounded-exhaustive part: ALL bins of fixed geometries x 2^5 switches x cache modes x LORs ---------------
// geometries are drawn once from fixed seeds (deterministic), kept if a fresh matrix accepts them and they have <= 4000 bins
const std::vector<json>&
sweep_geometries(int tier)
{
  static std::vector<json> v[2];
  std::vector<json>& out = v[tier ? 1 : 0];
  if (!out.empty())
    return out;
  const std::size_t want = tier ? 12 : 4;
  for (uint64_t seed = 7001; out.size() < want && seed < 9000; ++seed)
    {
      PrngSrc s(seed);
      json c = gen_config(s, tier ? 80 : 40);
      c["scB"] = c["scA"];
      c["pdiB"] = c["pdiA"];
      c["imgB"] = c["imgA"];
      c["imgB_ref"] = 0;
      c["adb"] = false;
      try
        {
          shared_ptr<Scanner> sc = vg::make_scanner(c["scA"]);
          shared_ptr<ProjDataInfo> pdi = vg::make_pdi(sc, c["pdiA"]);
          long nb = 0;
          for (int sg = pdi->get_min_segment_num(); sg <= pdi->get_max_segment_num(); ++sg)
            nb += long(pdi->get_num_axial_poss(sg)) * pdi->get_num_views() * pdi->get_num_tangential_poss() * pdi->get_num_tof_poss();
          if (nb > 4000 || nb < 200)
            continue;
          auto img = vg::make_image(c["imgA"], *pdi);
          if (img->get_x_size() < 7 || img->get_y_size() < 7)
            continue;
          // the geometry classes the property names must be present: the first slots are reserved for them
          const bool tof = pdi->is_tof_data();
          const bool tilt = std::fabs(pdi->get_phi(Bin(0, 0, 0, 0))) > 1e-4;
          const int nv = pdi->get_num_views();
          const int nseg = pdi->get_num_segments();
          const auto vs = img->get_voxel_size();
          const bool aniso = std::fabs(vs.x() - vs.y()) > 2e-3;
          bool ok = true;
          switch (out.size())
            {
            case 0: ok = !tof && !tilt && nv % 4 == 0 && nseg >= 3 && !aniso; break; // all five symmetries can be active
            case 1: ok = tof && nseg >= 3; break;                                     // TOF: only shift_z survives
            case 2: ok = !tof && tilt && nseg >= 3; break;                            // view offset: swap_segment, swap_s, shift_z
            case 3: ok = !tof && !tilt && nv % 4 == 2 && aniso; break;               // 180-phi only, anisotropic voxels
            case 4: ok = !tof && !tilt && nv % 4 == 0 && c["pdiA"]["span"].get<int>() % 2 == 0 && nseg >= 3; break; // even span
            case 5: ok = !tof && !tilt && nv % 4 == 0 && c["pdiA"]["arccorr"].get<bool>(); break;
            default: break;
            }
          if (!ok)
            continue;
          ProjMatrixByBinUsingRayTracing fresh;
          fresh.set_up(pdi, img);
          ProjMatrixElemsForOneBin row;
          for (int sg = pdi->get_min_segment_num(); sg <= pdi->get_max_segment_num(); ++sg)
            fresh.get_proj_matrix_elems_for_one_bin(row, Bin(sg, 0, pdi->get_min_axial_pos_num(sg), 0, 0));
        }
      catch (const std::exception&)
        {
          continue;
        }
      out.push_back(c);
    }
  return out;
}

bool
enumerate(uint64_t idx, int tier, json& c)
{
  const auto& geos = sweep_geometries(tier);
  const uint64_t per_geo = tier ? 32 * 3 * 3 : 32;
  if (idx >= per_geo * geos.size())
    return false;
  const std::size_t gi = std::size_t(idx / per_geo);
  uint64_t r = idx % per_geo;
  c = geos[gi];
  json sym = json::array();
  for (int k = 0; k < 5; ++k)
    sym.push_back(int((r >> k) & 1));
  c["sym"] = sym;
  r >>= 5;
  if (tier)
    {
      c["cache"] = int(r % 3);
      c["lors"] = 1 + int((r / 3) % 3);
    }
  else
    { // quick: cache mode and LORs cycle with the switch combination
      c["cache"] = int((idx % 32) % 3);
      c["lors"] = 1 + int(((idx % 32) / 3) % 3);
    }
  c["tier"] = tier;
  json ops = json::array();
  ops.push_back(json::array({ int(OP_SWEEP), long(idx * 2654435761ULL % 1000003ULL) }));
  if (c["cache"].get<int>() != 0)
    { // and once more in another order, now (partly) from the cache
      ops.push_back(json::array({ int(OP_SWEEP), long(idx * 40503ULL % 1000003ULL) + 1 }));
    }
  c["ops"] = ops;
  return true;
}

bool
nontrivial(const json& c)
{
  // Config with >= 1 symmetry switch on at some point of the history and at least one request
  bool sym_on = false;
  for (const json& b : c["sym"])
    sym_on = sym_on || b.get<int>() != 0;
  bool gets = false;
  for (const json& op : c["ops"])
    {
      if (!op.is_array() || op.empty())
        continue;
      const int code = op[0].get<int>();
      if (code == OP_SYM)
        sym_on = true;
      if (code == OP_GET || code == OP_GETN || code == OP_ORBIT || code == OP_SWEEP)
        gets = true;
    }
  return sym_on && gets;
}

} // namespace

const Property&
the_property()
{
  static Property p;
  p.id = "C03";
  p.gen = gen;
  p.check = check;
  p.nontrivial = nontrivial;
  p.enumerate = enumerate;
  p.shrink_lists = { "ops" };
  p.rule = "history contains at least one request and at least one symmetry switch is on at some point";
  return p;
}

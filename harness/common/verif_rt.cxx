// Run-time shared by all harness binaries (compiled once per flavour).
#include "verif.h"
#include <rapidcheck.h>
#include <rapidcheck/detail/Configuration.h>
#include <chrono>
#include <cstdio>
#include <cstdlib>
#include <cstring>
#include <fstream>
#include <iostream>
#include <fcntl.h>
#include <unistd.h>
#include <sys/stat.h>

namespace stir_verif {
bool asserts_on = true;
void
assert_failed(const char* expr, const char* file, int line)
{
  throw AssertionFailure(vf::cat("assertion failed: ", expr, " at ", file, ":", line));
}
} // namespace stir_verif
extern "C" void
stir_verif_c_assert_failed(const char* expr, const char* file, int line)
{
  std::fprintf(stderr, "C assertion failed: %s at %s:%d\n", expr, file, line);
  std::abort();
}

namespace vf {

long
Src::small(long lo, long hi)
{
  if (hi <= lo)
    return lo;
  long r = range(0, 99);
  if (r < 45)
    return range(lo, std::min(hi, lo + 3));
  if (r < 80)
    return range(lo, std::min(hi, lo + 15));
  return range(lo, hi);
}

double
Src::nice_real(double lo, double hi)
{
  if (coin())
    {
      // multiples of 1/8 inside the interval, if any
      long a = long(std::ceil(lo * 8)), b = long(std::floor(hi * 8));
      if (b >= a)
        return double(range(a, b)) / 8.0;
    }
  return real(lo, hi);
}

struct RcSrc : Src
{
  long range(long lo, long hi) override
  {
    if (hi <= lo)
      return lo;
    return *rc::gen::resize(100, rc::gen::inRange<long>(lo, hi + 1));
  }
};

static Stats g_stats;
Stats&
stats()
{
  return g_stats;
}

uint64_t
hash_json(const json& j)
{
  const std::string s = j.dump();
  uint64_t h = 1469598103934665603ULL;
  for (unsigned char ch : s)
    {
      h ^= ch;
      h *= 1099511628211ULL;
    }
  return h;
}

json
Stats::to_json() const
{
  json j;
  j["evaluations"] = evaluations;
  j["rejected"] = rejected;
  j["passes"] = passes;
  j["failures"] = failures;
  j["excluded_known"] = excluded_known;
  j["distinct"] = distinct.size();
  j["distinct_nontrivial"] = nontrivial.size();
  j["classes"] = classes;
  j["maxima"] = maxima;
  j["counters"] = counters;
  j["samples"] = samples;
  j["nontrivial_samples"] = nontrivial_samples;
  j["reject_reasons"] = reject_reasons;
  return j;
}

// ---------------------------------------------------------------------------------------
static std::string g_out;       // stats side file
static std::string g_fail_dir;  // where failing cases are written
static int g_journal_fd = -1;
static std::chrono::steady_clock::time_point g_last_flush;
static std::string g_mode = "init";
static json g_last_failure;
static std::string g_last_failure_msg;
static bool g_have_failure = false;

static void
flush_stats(bool force)
{
  if (g_out.empty())
    return;
  auto now = std::chrono::steady_clock::now();
  if (!force && std::chrono::duration<double>(now - g_last_flush).count() < 2.0)
    return;
  g_last_flush = now;
  {
    std::ofstream f(g_out + ".tmp");
    f << g_stats.to_json().dump() << "\n";
  }
  std::rename((g_out + ".tmp").c_str(), g_out.c_str());
  {
    std::ofstream f(g_out + ".nt.tmp", std::ios::binary);
    for (uint64_t h : g_stats.nontrivial)
      f.write(reinterpret_cast<const char*>(&h), sizeof(h));
  }
  std::rename((g_out + ".nt.tmp").c_str(), (g_out + ".nt").c_str());
}

static void
journal(const json& c)
{
  if (g_journal_fd < 0)
    return;
  const std::string s = c.dump();
  if (pwrite(g_journal_fd, s.data(), s.size(), 0) == ssize_t(s.size()))
    {
      if (ftruncate(g_journal_fd, off_t(s.size())) != 0)
        {
        }
    }
}

static std::string
write_failure(const Property& p, const json& c, const std::string& msg)
{
  if (g_fail_dir.empty())
    return "";
  mkdir(g_fail_dir.c_str(), 0777);
  char name[64];
  std::snprintf(name, sizeof(name), "%016llx.json", (unsigned long long)hash_json(c));
  const std::string path = g_fail_dir + "/" + name;
  json j;
  j["property"] = p.id;
  j["case"] = c;
  j["message"] = msg;
  std::ofstream f(path);
  f << j.dump(1) << "\n";
  return path;
}

Result
run_case(const Property& p, const json& c, bool count)
{
  if (p.known_signature)
    {
      const std::string sig = p.known_signature(c);
      if (!sig.empty())
        {
          if (count)
            {
              g_stats.excluded_known++;
              g_stats.count("excluded:" + sig);
            }
          return Result::reject("known:" + sig);
        }
    }
  journal(c);
  Result r;
  stir_verif::asserts_on = true;
  try
    {
      r = p.check(c);
    }
  catch (const stir_verif::AssertionFailure& e)
    {
      r = Result::fail(std::string("ASSERT: ") + e.what());
    }
  catch (const std::exception& e)
    {
      r = Result::fail(std::string("EXCEPTION: ") + e.what());
    }
  catch (...)
    {
      r = Result::fail("EXCEPTION: unknown");
    }
  stir_verif::asserts_on = true;
  if (count)
    {
      g_stats.evaluations++;
      const uint64_t h = hash_json(c);
      const bool fresh = g_stats.distinct.size() < 5000000 ? g_stats.distinct.insert(h).second : false;
      if (r.kind == Result::REJECT)
        {
          g_stats.rejected++;
          std::string reason = r.msg.substr(0, 80);
          if (g_stats.reject_reasons.size() < 40 || g_stats.reject_reasons.count(reason))
            g_stats.reject_reasons[reason]++;
        }
      else
        {
          if (r.kind == Result::PASS)
            g_stats.passes++;
          else
            g_stats.failures++;
          const bool nt = p.nontrivial ? p.nontrivial(c) : true;
          if (nt)
            {
              if (g_stats.nontrivial.size() < 5000000)
                g_stats.nontrivial.insert(h);
              if (fresh && g_stats.nontrivial_samples.size() < 4 && r.kind == Result::PASS)
                g_stats.nontrivial_samples.push_back(c);
            }
          else if (fresh && g_stats.samples.size() < 2 && r.kind == Result::PASS)
            g_stats.samples.push_back(c);
        }
      flush_stats(false);
    }
  return r;
}

static double
now_s()
{
  return std::chrono::duration<double>(std::chrono::steady_clock::now().time_since_epoch()).count();
}

// generic post-shrinker for operation sequences: delta-debugging on every top-level array named in
// p.shrink_lists (elements can be deleted because arguments are interpreted modulo the state)
static json
shrink_lists(const Property& p, json c, std::string& msg)
{
  const double t0 = now_s();
  long attempts = 0;
  auto still_fails = [&](const json& cand) {
    ++attempts;
    Result r = run_case(p, cand, false);
    if (r.failed())
      {
        msg = r.msg;
        return true;
      }
    return false;
  };
  for (const std::string& key : p.shrink_lists)
    {
      if (!c.contains(key) || !c[key].is_array())
        continue;
      bool progress = true;
      while (progress && attempts < 5000 && now_s() - t0 < 120)
        {
          progress = false;
          std::size_t n = c[key].size();
          for (std::size_t chunk = std::max<std::size_t>(n / 2, 1); chunk >= 1; chunk /= 2)
            {
              for (std::size_t start = 0; start + chunk <= c[key].size() && attempts < 5000;)
                {
                  json cand = c;
                  cand[key].erase(cand[key].begin() + std::ptrdiff_t(start), cand[key].begin() + std::ptrdiff_t(start + chunk));
                  if (cand[key].size() >= p.min_list_size && still_fails(cand))
                    {
                      c = cand;
                      progress = true;
                    }
                  else
                    start += chunk;
                }
              if (chunk == 1)
                break;
            }
        }
      // then try to simplify integer arguments towards 0
      for (std::size_t i = 0; i < c[key].size() && attempts < 8000 && now_s() - t0 < 180; ++i)
        if (c[key][i].is_array())
          for (std::size_t k = 1; k < c[key][i].size(); ++k)
            if (c[key][i][k].is_number_integer() && c[key][i][k].get<long>() != 0)
              {
                json cand = c;
                cand[key][i][k] = 0;
                if (still_fails(cand))
                  c = cand;
              }
    }
  return c;
}

static int
report_failure(const Property& p, const json& c0, const std::string& msg0)
{
  std::string msg = msg0;
  const json c = p.shrink_lists.empty() ? c0 : shrink_lists(p, c0, msg);
  const std::string path = write_failure(p, c, msg);
  flush_stats(true);
  std::cout << "FAIL " << path << " :: " << msg.substr(0, 2000) << std::endl;
  return 3;
}

int
verif_main(int argc, char** argv, const Property& p)
{
  std::string replay;
  uint64_t seed = 1;
  long cases = 100;
  int max_size = 100;
  double max_seconds = 1e9;
  int tier = 0;
  long shard = 0, nshards = 1;
  bool do_fixed = true, do_enum = true, do_rc = true;
  bool gen_sample = false;
  for (int i = 1; i < argc; ++i)
    {
      const std::string a = argv[i];
      auto next = [&]() -> std::string {
        if (i + 1 >= argc)
          {
            std::cerr << "missing value for " << a << "\n";
            std::exit(2);
          }
        return argv[++i];
      };
      if (a == "--replay")
        replay = next();
      else if (a == "--seed")
        seed = std::stoull(next());
      else if (a == "--cases")
        cases = std::stol(next());
      else if (a == "--size")
        max_size = std::stoi(next());
      else if (a == "--max-seconds")
        max_seconds = std::stod(next());
      else if (a == "--tier")
        tier = (next() == "thorough") ? 1 : 0;
      else if (a == "--shard")
        {
          std::string s = next();
          auto k = s.find('/');
          shard = std::stol(s.substr(0, k));
          nshards = std::stol(s.substr(k + 1));
        }
      else if (a == "--out")
        g_out = next();
      else if (a == "--fail-dir")
        g_fail_dir = next();
      else if (a == "--no-fixed")
        do_fixed = false;
      else if (a == "--no-enum")
        do_enum = false;
      else if (a == "--no-rc")
        do_rc = false;
      else if (a == "--gen-sample")
        gen_sample = true;
      else
        {
          std::cerr << "unknown argument " << a << "\n";
          return 2;
        }
    }
  // RC_PARAMS (seed/max_size) is honoured when given explicitly
  if (const char* rcp = std::getenv("RC_PARAMS"))
    {
      try
        {
          const auto cfg = rc::detail::configFromString(rcp);
          if (std::strstr(rcp, "seed="))
            seed = cfg.testParams.seed;
          if (std::strstr(rcp, "max_size="))
            max_size = cfg.testParams.maxSize;
          if (std::strstr(rcp, "max_success="))
            cases = cfg.testParams.maxSuccess;
        }
      catch (...)
        {
        }
    }

  if (!replay.empty())
    {
      std::ifstream f(replay);
      if (!f)
        {
          std::cerr << "cannot open " << replay << "\n";
          return 2;
        }
      json j = json::parse(f);
      const json c = j.contains("case") ? j["case"] : j;
      Result r = run_case(p, c, false);
      std::cout << (r.kind == Result::PASS ? "PASS" : r.kind == Result::FAIL ? "FAIL" : "REJECT") << " " << r.msg << std::endl;
      return r.kind == Result::FAIL ? 3 : 0;
    }
  if (gen_sample)
    {
      PrngSrc s(seed);
      for (long k = 0; k < cases; ++k)
        std::cout << p.gen(s, max_size).dump() << "\n";
      return 0;
    }
  if (!g_out.empty())
    {
      g_journal_fd = open((g_out + ".current").c_str(), O_CREAT | O_WRONLY | O_TRUNC, 0666);
    }
  const double t0 = now_s();
  g_last_flush = std::chrono::steady_clock::now();

  // 1. fixed cases
  if (do_fixed && p.fixed_cases)
    {
      g_mode = "fixed";
      const auto fc = p.fixed_cases(tier);
      // the fixed cases of a thorough tier can be whole enumerations of the largest predefined scanners (minutes each): they get a time
      // budget of their own (2 x the random phase's, at least 10 min; never reached by a quick tier), and what was not run is counted
      for (std::size_t k = shard; k < fc.size(); k += nshards)
        {
          if (now_s() - t0 > std::max(max_seconds * 2, 600.))
            {
              g_stats.counters["fixed_not_run_for_time"] += 1;
              continue;
            }
          Result r = run_case(p, fc[k]);
          g_stats.cls("front:fixed");
          if (r.failed())
            return report_failure(p, fc[k], r.msg);
        }
    }
  // 2. bounded-exhaustive enumeration (sharded); never cut by the time budget silently: reports completeness
  bool enum_complete = true;
  if (do_enum && p.enumerate)
    {
      g_mode = "enum";
      const double t_enum0 = now_s(); // the enumeration's budget is its own (the fixed phase may have used its own up)
      json c;
      for (uint64_t idx = uint64_t(shard);; idx += uint64_t(nshards))
        {
          if (!p.enumerate(idx, tier, c))
            break;
          if (c.is_null())
            continue; // index not used
          Result r = run_case(p, c);
          g_stats.cls("front:enum");
          if (r.failed())
            return report_failure(p, c, r.msg);
          if (now_s() - t_enum0 > std::max(max_seconds * 2, 600.))
            {
              enum_complete = false;
              break;
            }
        }
      g_stats.counters["enum_complete"] = enum_complete ? 1 : 0;
    }
  // 3. rapidcheck in batches until the case or time budget is used up
  if (do_rc && p.gen && cases > 0)
    {
      g_mode = "rc";
      long done = 0;
      uint64_t batch = 0;
      const double t_rc0 = now_s(); // the time budget applies to the random phase on its own
      while (done < cases && now_s() - t_rc0 < max_seconds)
        {
          rc::detail::TestParams params;
          params.seed = seed * 1000003ULL + batch;
          params.maxSuccess = int(std::min<long>(cases - done, 50));
          params.maxSize = max_size;
          params.maxDiscardRatio = 20;
          rc::detail::TestMetadata md;
          md.id = p.id;
          md.description = p.id;
          g_have_failure = false;
          const int batch_size = params.maxSuccess;
          const auto result = rc::detail::checkTestable(
              [&]() {
                RcSrc src;
                // size ramps within the batch like rapidcheck does; we pass max_size so that every batch covers all sizes
                const int size = *rc::gen::resize(100, rc::gen::inRange(0, max_size + 1));
                const json c = p.gen(src, size);
                Result r = run_case(p, c);
                g_stats.cls("front:rc");
                if (r.kind == Result::REJECT)
                  RC_DISCARD(r.msg);
                if (r.failed())
                  {
                    g_last_failure = c;
                    g_last_failure_msg = r.msg;
                    g_have_failure = true;
                    RC_FAIL(r.msg);
                  }
              },
              md, params);
          done += batch_size;
          ++batch;
          if (result.template is<rc::detail::FailureResult>())
            {
              if (g_have_failure)
                {
                  // re-confirm the shrunk case once
                  Result r = run_case(p, g_last_failure, false);
                  return report_failure(p, g_last_failure, r.failed() ? r.msg : ("(unstable on re-run) " + g_last_failure_msg));
                }
              std::ostringstream os;
              rc::detail::printResultMessage(result, os);
              std::cout << "RC-FAILURE-WITHOUT-CASE " << os.str() << std::endl;
              flush_stats(true);
              return 4;
            }
          if (result.template is<rc::detail::GaveUpResult>())
            g_stats.count("rc_gave_up_batches");
          if (result.template is<rc::detail::Error>())
            {
              std::ostringstream os;
              rc::detail::printResultMessage(result, os);
              std::cout << "RC-ERROR " << os.str() << std::endl;
              flush_stats(true);
              return 4;
            }
        }
      g_stats.counters["rc_batches"] = long(batch);
    }
  g_stats.maxima["wall_s"] = now_s() - t0;
  flush_stats(true);
  std::cout << "OK evaluations=" << g_stats.evaluations << " nontrivial=" << g_stats.nontrivial.size()
            << " rejected=" << g_stats.rejected << std::endl;
  return 0;
}

int
fuzz_one(const Property& p, const uint8_t* data, std::size_t size)
{
  static bool init = false;
  if (!init)
    {
      init = true;
      if (const char* o = std::getenv("VERIF_STATS_OUT"))
        {
          g_out = std::string(o) + "." + std::to_string(getpid());
          g_journal_fd = open((g_out + ".current").c_str(), O_CREAT | O_WRONLY | O_TRUNC, 0666);
        }
      if (const char* d = std::getenv("VERIF_FAIL_DIR"))
        g_fail_dir = d;
      g_last_flush = std::chrono::steady_clock::now();
      std::atexit([]() { flush_stats(true); });
    }
  BytesSrc src(data, size);
  const int sz = int(src.range(0, 100));
  json c;
  try
    {
      c = p.gen(src, sz);
    }
  catch (const std::exception&)
    {
      return 0;
    }
  Result r = run_case(p, c);
  g_stats.cls("front:fuzz");
  if (r.failed())
    {
      report_failure(p, c, r.msg);
      __builtin_trap();
    }
  return 0;
}

} // namespace vf

// Common run-time for all property harnesses: choice sources (rapidcheck / bytes / counter),
// Case = JSON, statistics + evidence side files, the three front ends and replay.
#pragma once
#include <nlohmann/json.hpp>
#include <string>
#include <vector>
#include <map>
#include <unordered_set>
#include <functional>
#include <stdexcept>
#include <cstdint>
#include <cmath>
#include <sstream>

namespace stir_verif {
extern bool asserts_on;
struct AssertionFailure : std::logic_error
{
  using std::logic_error::logic_error;
};
[[noreturn]] void assert_failed(const char* expr, const char* file, int line);
} // namespace stir_verif

namespace vf {
using json = nlohmann::json;

// ---------------------------------------------------------------------------------------
// Source of choices.  All randomness of a case comes through one of these.
struct Src
{
  virtual ~Src() {}
  //! integer in [lo,hi] (inclusive), uniform for rapidcheck at nominal size
  virtual long range(long lo, long hi) = 0;
  //! small-biased integer in [lo,hi]: geometric-like preference for values near lo
  long small(long lo, long hi);
  bool coin() { return range(0, 1) == 1; }
  //! true with probability ~ num/den
  bool chance(int num, int den) { return range(1, den) <= num; }
  //! real in [lo,hi] on a 2^20 grid
  double real(double lo, double hi) { return lo + (hi - lo) * (double(range(0, 1 << 20)) / double(1 << 20)); }
  //! "nice" real: with prob 1/2 a value with few decimal digits
  double nice_real(double lo, double hi);
  template <class T>
  const T& pick(const std::vector<T>& v)
  {
    return v[static_cast<std::size_t>(range(0, long(v.size()) - 1))];
  }
  uint64_t seed64() { return (uint64_t(range(0, (1L << 31) - 1)) << 20) ^ uint64_t(range(0, (1 << 20) - 1)); }
};

// deterministic PRNG for bulk data derived from a seed stored in the Case (pure function of the Case)
struct SplitMix
{
  uint64_t s;
  explicit SplitMix(uint64_t seed) : s(seed) {}
  uint64_t next()
  {
    uint64_t z = (s += 0x9e3779b97f4a7c15ULL);
    z = (z ^ (z >> 30)) * 0xbf58476d1ce4e5b9ULL;
    z = (z ^ (z >> 27)) * 0x94d049bb133111ebULL;
    return z ^ (z >> 31);
  }
  double unit() { return double(next() >> 11) / 9007199254740992.0; }
  double real(double lo, double hi) { return lo + (hi - lo) * unit(); }
  long range(long lo, long hi) { return lo + long(next() % uint64_t(hi - lo + 1)); }
};

struct CounterSrc : Src
{ // decodes a mixed-radix counter (bounded-exhaustive enumeration); overflow flag tells the end
  uint64_t n;
  bool exhausted_digits = false;
  explicit CounterSrc(uint64_t c) : n(c) {}
  long range(long lo, long hi) override
  {
    uint64_t w = uint64_t(hi - lo + 1);
    long r = lo + long(n % w);
    n /= w;
    return r;
  }
  bool leftover() const { return n != 0; }
};

struct PrngSrc : Src
{
  SplitMix g;
  explicit PrngSrc(uint64_t seed) : g(seed) {}
  long range(long lo, long hi) override { return hi <= lo ? lo : g.range(lo, hi); }
};

struct BytesSrc : Src
{ // structure-aware decoding of fuzzer bytes; runs out => lo
  const uint8_t* p;
  std::size_t n;
  BytesSrc(const uint8_t* d, std::size_t s) : p(d), n(s) {}
  long range(long lo, long hi) override
  {
    if (hi <= lo)
      return lo;
    uint64_t w = uint64_t(hi - lo);
    uint64_t v = 0;
    while (w > 0)
      {
        uint8_t b = 0;
        if (n)
          {
            b = *p++;
            --n;
          }
        v = (v << 8) | b;
        w >>= 8;
      }
    return lo + long(v % (uint64_t(hi - lo) + 1));
  }
};

// ---------------------------------------------------------------------------------------
struct Result
{
  enum Kind
  {
    PASS,
    FAIL,
    REJECT // configuration cleanly rejected by STIR / not in the domain: neither pass nor fail
  } kind
      = PASS;
  std::string msg;
  static Result pass() { return {}; }
  static Result fail(const std::string& m) { return { FAIL, m }; }
  static Result reject(const std::string& m) { return { REJECT, m }; }
  bool failed() const { return kind == FAIL; }
};

#define VF_CHECK(cond, ...)                                                                                                      \
  do                                                                                                                             \
    {                                                                                                                            \
      if (!(cond))                                                                                                               \
        return ::vf::Result::fail(::vf::cat(__FILE__, ":", __LINE__, ": ", #cond, " | ", __VA_ARGS__));                          \
    }                                                                                                                            \
  while (0)

template <class... A>
std::string
cat(const A&... a)
{
  std::ostringstream s;
  s.precision(9);
  (void)std::initializer_list<int>{ ((s << a), 0)... };
  return s.str();
}

struct Stats
{
  long evaluations = 0;
  long rejected = 0;
  long passes = 0;
  long failures = 0;
  long excluded_known = 0;
  std::unordered_set<uint64_t> nontrivial;
  std::unordered_set<uint64_t> distinct;
  std::map<std::string, long> classes;
  std::map<std::string, double> maxima;
  std::map<std::string, long> counters;
  std::vector<json> samples;
  std::vector<json> nontrivial_samples;
  std::map<std::string, long> reject_reasons;
  void cls(const std::string& c, long n = 1) { classes[c] += n; }
  void count(const std::string& c, long n = 1) { counters[c] += n; }
  void maxi(const std::string& k, double v)
  {
    auto it = maxima.find(k);
    if (it == maxima.end() || v > it->second)
      maxima[k] = v;
  }
  json to_json() const;
};
Stats& stats();
uint64_t hash_json(const json& j);

struct Property
{
  std::string id;
  //! generator: all choices via Src; size in [0,100]
  std::function<json(Src&, int size)> gen;
  //! the executable property; pure function of (code under test, case)
  std::function<Result(const json&)> check;
  //! non-trivial rule
  std::function<bool(const json&)> nontrivial;
  //! text of the rule for the evidence file
  std::string rule;
  //! optional bounded-exhaustive enumeration: fills c for index idx in [0,total); returns false when idx is past the end
  std::function<bool(uint64_t idx, int tier, json& c)> enumerate;
  //! optional fixed cases run at the start of every run (regression / corner configurations)
  std::function<std::vector<json>(int tier)> fixed_cases;
  //! names of top-level arrays of the Case (operation sequences) that the generic post-shrinker may delete elements from
  std::vector<std::string> shrink_lists;
  std::size_t min_list_size = 0;
  //! optional signature of a case for known-finding exclusion ("" = none)
  std::function<std::string(const json&)> known_signature;
};

//! standard main(): --rc / --enum / --fixed / --replay f / --gen-sample
int verif_main(int argc, char** argv, const Property& p);
//! run one case with all wrappers (exception classification, stats); used by every front end
Result run_case(const Property& p, const json& c, bool count = true);
//! entry for libFuzzer targets
int fuzz_one(const Property& p, const uint8_t* data, std::size_t size);

// ---- numeric helpers --------------------------------------------------------------------
inline bool
close_rel(double a, double b, double scale, double tol)
{
  return std::fabs(a - b) <= tol * scale;
}

} // namespace vf

// Shared generators and constructors for STIR geometry objects.
// A "spec" is plain JSON (part of the Case); make_* build the STIR objects from it.
// Generators are sound first: they only produce what the constructors/set_up code accept
// (preconditions read from Scanner.cxx, ProjDataInfo.cxx, ProjDataInfoCylindrical*.cxx).
#pragma once
#include "verif.h"
#include "stir/Scanner.h"
#include "stir/ProjDataInfo.h"
#include "stir/ProjDataInfoCylindricalNoArcCorr.h"
#include "stir/ProjDataInfoCylindricalArcCorr.h"
#include "stir/VoxelsOnCartesianGrid.h"
#include "stir/Bin.h"
#include "stir/IndexRange3D.h"
#include "stir/Verbosity.h"
#include "stir/shared_ptr.h"
#include "stir/Succeeded.h"
#include <cstdlib>

namespace vg {
using vf::json;
using vf::Src;

inline void
quiet()
{
  static const bool verbose = std::getenv("VERIF_VERBOSE") != nullptr;
  stir::Verbosity::set(verbose ? 2 : 0);
}

struct ScannerOpts
{
  int max_ndet = 48;       // generated scanners: detectors per ring <= this (even)
  int max_rings = 5;
  bool allow_tof = true;
  bool allow_blocks = false; // BlocksOnCylindrical geometry
  bool allow_predefined = false;
  bool allow_tilt = true;
  bool small_predefined_only = false;
};

// predefined scanner types usable for geometry work (HiDAC, User_defined, Unknown excluded)
inline const std::vector<int>&
predefined_types()
{
  static std::vector<int> v;
  if (v.empty())
    for (int t = 0; t < int(stir::Scanner::User_defined_scanner); ++t)
      if (t != int(stir::Scanner::HiDAC))
        v.push_back(t);
  return v;
}

inline stir::shared_ptr<stir::Scanner> make_scanner(const json& j);

inline json
gen_scanner(Src& s, const ScannerOpts& o)
{
  json j;
  if (o.allow_predefined && s.chance(1, 4))
    {
      j["type"] = s.pick(predefined_types());
      return j;
    }
  j["type"] = -1;
  const bool blocks_geom = o.allow_blocks && s.chance(1, 3);
  // transaxial: ndet = cryst_per_block * blocks_per_bucket * buckets, even, >= 4 (8 for blocks)
  int a, b, c, ndet;
  int guard = 0;
  do
    {
      a = int(s.small(1, 8));
      b = int(s.small(1, 3));
      c = int(s.small(1, 12));
      ndet = a * b * c;
      if (++guard > 50)
        {
          a = 2;
          b = 1;
          c = 4;
          ndet = 8;
        }
      if (blocks_geom && c < 3)
        c = 4; // a polygon needs at least 3 sides
      ndet = a * b * c;
  } while (ndet % 2 != 0 || ndet < 4 || (ndet > o.max_ndet && guard <= 50));
  int d, e, f, rings;
  guard = 0;
  do
    {
      d = int(s.small(1, 4));
      e = int(s.small(1, 2));
      f = blocks_geom ? 1 : int(s.small(1, 3)); // BlocksOnCylindrical supports one axial bucket only
      rings = d * e * f;
      if (++guard > 50)
        {
          d = 1;
          e = 1;
          f = 1;
          rings = 1;
        }
  } while (rings > o.max_rings);
  j["ndet"] = ndet;
  j["rings"] = rings;
  j["tr_cryst_per_block"] = a;
  j["tr_blocks_per_bucket"] = b;
  j["ax_cryst_per_block"] = d;
  j["ax_blocks_per_bucket"] = e;
  j["singles_units"] = s.coin() ? 1 : 0; // 1: singles unit = block, 0: single crystal
  const int max_tang = (ndet % 2 == 0) ? ndet - 1 : ndet - 1;
  j["max_tang"] = int(s.range(std::min(3, max_tang), max_tang));
  j["radius"] = s.nice_real(50., 450.);
  j["doi"] = s.coin() ? 0. : s.nice_real(0., 12.);
  j["ring_spacing"] = s.nice_real(1., 8.);
  j["bin_size"] = s.nice_real(1., 6.);
  j["tilt"] = (o.allow_tilt && s.chance(1, 4)) ? s.real(-0.5, 0.5) : 0.;
  j["tof_poss"] = 0;
  const bool want_tof = o.allow_tof && !blocks_geom && s.chance(1, 3);
  const int want_tof_poss = int(s.pick(std::vector<int>{ 3, 5, 7, 9, 11, 13, 15, 4, 6, 8, 12 }));
  const double tof_window_factor = s.pick(std::vector<double>{ 0.6, 0.75, 1., 1.25, 1.5, 1.9 });
  const double tof_res_factor = s.pick(std::vector<double>{ 0.05, 0.1, 0.25, 0.5, 0.9 });
  j["geometry"] = blocks_geom ? "BlocksOnCylindrical" : "Cylindrical";
  if (blocks_geom)
    {
      j["ax_crystal_spacing"] = j["ring_spacing"];
      j["tr_crystal_spacing"] = s.nice_real(1., 6.);
      j["block_gap_ax"] = s.coin() ? 0. : s.nice_real(0., 2.);
      j["block_gap_tr"] = s.coin() ? 0. : s.nice_real(0., 2.);
      j["tilt"] = 0.;
      j["tof_poss"] = 0; // no TOF for blocks (constructor calls error())
      // the buckets form a regular polygon with c sides around the cylinder: side = 2 R tan(pi/c)
      const double side = (j["tr_crystal_spacing"].get<double>() * a + j["block_gap_tr"].get<double>()) * b;
      j["radius"] = std::floor(0.999 * side / (2. * std::tan(3.14159265358979323846 / c)) * 8.) / 8.;
      if (j["radius"].get<double>() < 1.)
        j["radius"] = 1.;
    }
  if (want_tof)
    {
      // Scanner::check_consistency wants the coincidence window (in mm) within [1/2,2] x FOV diameter,
      // within [10,10000] ps and not smaller than the timing resolution: derive the TOF sizes from the FOV
      j["geometry"] = j["geometry"]; // (scanner without TOF first, to ask it for its FOV)
      double fov_d = 2. * make_scanner(j)->get_max_FOV_radius();
      double w_ps = fov_d * tof_window_factor / 0.149896229; // mm -> ps (c/2)
      w_ps = std::min(9000., std::max(20., w_ps));
      j["tof_poss"] = want_tof_poss;
      j["tof_size"] = w_ps / want_tof_poss;
      j["tof_res"] = w_ps * tof_res_factor;
    }
  return j;
}

inline stir::shared_ptr<stir::Scanner>
make_scanner(const json& j)
{
  using stir::Scanner;
  quiet();
  const int type = j["type"].get<int>();
  if (type >= 0)
    return stir::shared_ptr<Scanner>(new Scanner(static_cast<Scanner::Type>(type)));
  const int ndet = j["ndet"], rings = j["rings"];
  const int a = j["tr_cryst_per_block"], b = j["tr_blocks_per_bucket"], d = j["ax_cryst_per_block"], e = j["ax_blocks_per_bucket"];
  const bool su = j["singles_units"].get<int>() == 1;
  const int tof = j["tof_poss"];
  const std::string geom = j["geometry"];
  const bool blocks = geom == "BlocksOnCylindrical";
  const float axs = blocks ? j["ax_crystal_spacing"].get<float>() : -1.F;
  const float trs = blocks ? j["tr_crystal_spacing"].get<float>() : -1.F;
  stir::shared_ptr<Scanner> sc(new Scanner(Scanner::User_defined_scanner,
                                           std::string("verif"),
                                           ndet,
                                           rings,
                                           j["max_tang"].get<int>(),
                                           j["max_tang"].get<int>(),
                                           j["radius"].get<float>(),
                                           j["doi"].get<float>(),
                                           j["ring_spacing"].get<float>(),
                                           j["bin_size"].get<float>(),
                                           j["tilt"].get<float>(),
                                           e,
                                           b,
                                           d,
                                           a,
                                           su ? d : 1,
                                           su ? a : 1,
                                           1,
                                           0.12F,
                                           511.F,
                                           short(tof > 0 ? tof : -1),
                                           tof > 0 ? j["tof_size"].get<float>() : -1.F,
                                           tof > 0 ? j["tof_res"].get<float>() : -1.F,
                                           geom,
                                           axs,
                                           trs,
                                           blocks ? axs * float(d) + j["block_gap_ax"].get<float>() : -1.F,
                                           blocks ? trs * float(a) + j["block_gap_tr"].get<float>() : -1.F,
                                           ""));
  return sc;
}

struct PdiOpts
{
  bool allow_arccorr = false;
  bool allow_even_span = true;
  bool allow_mash = true;
  bool allow_tof_mash = true;
  bool allow_trim = true;
  bool force_noarccorr = true;
  int max_span = 11;
  bool allow_asym_segments = false; // reduce_segment_range(-a, b) with a != b (only geometry-level properties)
  bool allow_clamped_seg0 = false;  // even span with max_delta < span/2: segment 0 itself is asymmetric
};

//! all divisors of n
inline std::vector<int>
divisors(int n)
{
  std::vector<int> v;
  for (int k = 1; k <= n; ++k)
    if (n % k == 0)
      v.push_back(k);
  return v;
}

//! arc-corrected bins must lie inside the detector ring: get_tantheta/get_LOR take sqrt(R^2 - s^2)
/*! ("assert(R >= fabs(get_s(bin)))", ProjDataInfoCylindrical.inl); s of the outermost bin is (tang/2)*bin_size.
    Call after any change of j["arccorr"] to true. */
inline void
clamp_arccorr_tang(json& j, const stir::Scanner& sc)
{
  if (!j["arccorr"].get<bool>())
    return;
  const double R = sc.get_effective_ring_radius();
  const double bs = sc.get_default_bin_size();
  const int half = bs > 0 ? int(std::floor(0.999 * R / bs)) : 0;
  if (half < 1)
    j["arccorr"] = false;
  else
    j["tang"] = std::min(j["tang"].get<int>(), 2 * half);
}

//! generate projection-data sampling for a scanner (needs the real scanner for predefined types)
inline json
gen_pdi(Src& s, const stir::Scanner& sc, const PdiOpts& o)
{
  json j;
  const int rings = sc.get_num_rings();
  const int ndet = sc.get_num_detectors_per_ring();
  const bool cyl = sc.get_scanner_geometry() == "Cylindrical";
  // span: odd, or even ("GE style": segment 0 has span+1... handled by ProjDataInfoCTI); span <= 2*rings-1
  int span = 1;
  if (rings > 1 && s.chance(2, 3))
    {
      std::vector<int> spans;
      for (int k = 1; k <= std::min(o.max_span, 2 * rings - 1); ++k)
        if (k % 2 == 1 || (o.allow_even_span && cyl))
          spans.push_back(k);
      span = s.pick(spans);
    }
  // even spans: segment 0 covers -span/2..span/2; with max_delta < span/2 it would be clamped asymmetrically
  // (legal for construct_proj_data_info but rejected by the projector symmetries: "segment 0 ... direct planes")
  int min_delta = (o.allow_clamped_seg0 && s.chance(1, 4)) ? (span - 1) / 2 : span / 2;
  if (min_delta > rings - 1)
    {
      span = 1;
      min_delta = 0;
    }
  const int max_delta = int(s.range(std::min(min_delta, rings - 1), rings - 1));
  j["span"] = span;
  j["max_delta"] = std::max(max_delta, min_delta);
  // views: ndet/2/m for a divisor m (mashing only for cylindrical)
  int mash = 1;
  if (o.allow_mash && cyl && s.chance(1, 3))
    mash = s.pick(divisors(ndet / 2));
  j["views"] = ndet / 2 / mash;
  const int max_tang = sc.get_max_num_non_arccorrected_bins();
  j["tang"] = int(s.range(std::min(2, max_tang), max_tang));
  j["arccorr"] = (o.allow_arccorr && cyl && s.chance(1, 3));
  clamp_arccorr_tang(j, sc);
  int tof_mash = 0;
  if (sc.is_tof_ready() && cyl)
    {
      if (!o.allow_tof_mash)
        tof_mash = 1;
      else
        {
          // mash factors giving an odd number of TOF bins: max_num_of_timing_poss / mash odd
          std::vector<int> ok;
          for (int m = 1; m <= sc.get_max_num_timing_poss(); ++m)
            if (sc.get_max_num_timing_poss() % m == 0 && (sc.get_max_num_timing_poss() / m) % 2 == 1)
              ok.push_back(m);
          ok.push_back(0); // non-TOF data on a TOF scanner
          tof_mash = s.pick(ok);
        }
    }
  j["tof_mash"] = tof_mash;
  // optional truncations
  json trim = json::object();
  if (o.allow_trim && s.chance(1, 4))
    {
      trim["max_seg"] = int(s.range(0, 3));
      trim["tang_cut"] = int(s.range(0, 2));
      if (o.allow_asym_segments && s.coin())
        trim["min_seg"] = -int(s.range(0, 3));
    }
  j["trim"] = trim;
  return j;
}

inline stir::shared_ptr<stir::ProjDataInfo>
make_pdi(const stir::shared_ptr<stir::Scanner>& sc, const json& j)
{
  quiet();
  stir::shared_ptr<stir::ProjDataInfo> p(stir::ProjDataInfo::construct_proj_data_info(sc,
                                                                                       j["span"].get<int>(),
                                                                                       j["max_delta"].get<int>(),
                                                                                       j["views"].get<int>(),
                                                                                       j["tang"].get<int>(),
                                                                                       j["arccorr"].get<bool>(),
                                                                                       j["tof_mash"].get<int>())
                                              .release());
  const json& trim = j["trim"];
  if (trim.contains("max_seg"))
    {
      const int ms = std::min(trim["max_seg"].get<int>(), p->get_max_segment_num());
      const int mins = trim.contains("min_seg") ? std::max(trim["min_seg"].get<int>(), p->get_min_segment_num()) : -ms;
      p->reduce_segment_range(mins, ms);
      const int cut = trim["tang_cut"].get<int>();
      if (cut > 0 && p->get_num_tangential_poss() > 2 * cut + 1)
        {
          p->set_min_tangential_pos_num(p->get_min_tangential_pos_num() + cut);
          p->set_max_tangential_pos_num(p->get_max_tangential_pos_num() - cut);
        }
    }
  return p;
}

// ---- image grids ------------------------------------------------------------------------
struct ImageOpts
{
  int max_xy = 17;
  int max_z = 9;
  bool origin_xy_zero = true; // the ray-tracing matrix requires a zero xy origin
};

inline json
gen_image(Src& s, const ImageOpts& o)
{
  json j;
  j["nx"] = int(s.range(3, o.max_xy));
  j["ny"] = s.chance(2, 3) ? j["nx"].get<int>() : int(s.range(3, o.max_xy));
  j["z_div"] = int(s.pick(std::vector<int>{ 1, 1, 2, 2, 3, 4 })); // z voxel size = axial sampling / z_div
  j["nz_extra"] = int(s.range(-2, 2));                              // planes added/removed w.r.t. the default
  j["vx_rel"] = s.pick(std::vector<double>{ 1., 1., 0.5, 2., 1.5, 0.75 });
  j["vy_same"] = s.chance(3, 4);
  j["vy_rel"] = s.pick(std::vector<double>{ 1., 0.5, 2., 1.25 });
  j["z_shift_planes"] = s.chance(1, 4) ? int(s.range(-2, 2)) : 0;
  if (!o.origin_xy_zero && s.coin())
    {
      j["ox"] = s.nice_real(-20., 20.);
      j["oy"] = s.nice_real(-20., 20.);
    }
  else
    {
      j["ox"] = 0.;
      j["oy"] = 0.;
    }
  return j;
}

//! image grid adapted to the projection data: z voxel size = (ring spacing/2 for span>1, ring spacing for span 1)/z_div
inline stir::shared_ptr<stir::VoxelsOnCartesianGrid<float>>
make_image(const json& j, const stir::ProjDataInfo& pdi, int max_z = 15)
{
  using namespace stir;
  // xy voxel sizes are relative to the tangential sampling of THIS data at the centre (for non-arc-corrected
  // data that is ring radius x angular increment, which has nothing to do with the scanner's default bin size)
  const float bin = pdi.get_sampling_in_s(Bin(0, 0, 0, 0));
  const float ring_spacing = pdi.get_scanner_ptr()->get_ring_spacing();
  // axial sampling of segment 0
  float ax_sampling = ring_spacing;
  if (const ProjDataInfoCylindrical* c = dynamic_cast<const ProjDataInfoCylindrical*>(&pdi))
    ax_sampling = c->get_axial_sampling(0);
  const int zdiv = j["z_div"].get<int>();
  const float vz = ax_sampling / float(zdiv);
  const float vx = bin * float(j["vx_rel"].get<double>());
  const float vy = j["vy_same"].get<bool>() ? vx : bin * float(j["vy_rel"].get<double>());
  const int nx = j["nx"], ny = j["ny"];
  int nz = int(pdi.get_num_axial_poss(0)) * zdiv + j["nz_extra"].get<int>();
  nz = std::max(1, std::min(nz, max_z));
  const int min_x = -(nx / 2), min_y = -(ny / 2);
  IndexRange3D range(0, nz - 1, min_y, min_y + ny - 1, min_x, min_x + nx - 1);
  const float oz = float(j["z_shift_planes"].get<int>()) * vz;
  shared_ptr<VoxelsOnCartesianGrid<float>> im(new VoxelsOnCartesianGrid<float>(
      range, CartesianCoordinate3D<float>(oz, float(j["oy"].get<double>()), float(j["ox"].get<double>())), CartesianCoordinate3D<float>(vz, vy, vx)));
  return im;
}

//! fill an image with pseudo-random values from a seed (pure function of the seed)
template <class ImageT>
inline void
fill_random(ImageT& im, uint64_t seed, double lo, double hi)
{
  vf::SplitMix g(seed);
  for (auto it = im.begin_all(); it != im.end_all(); ++it)
    *it = float(g.real(lo, hi));
}

inline std::string
scanner_summary(const stir::Scanner& sc)
{
  return vf::cat(sc.get_name(), " ndet=", sc.get_num_detectors_per_ring(), " rings=", sc.get_num_rings(), " geom=", sc.get_scanner_geometry(),
                 " tof=", sc.get_max_num_timing_poss());
}

} // namespace vg

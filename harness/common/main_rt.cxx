// main() for the rapidcheck / enumeration / replay binaries
#include "verif.h"
const vf::Property& the_property();
int
main(int argc, char** argv)
{
  return vf::verif_main(argc, argv, the_property());
}

// Explicit (sparse) system matrix assembled row by row from a FRESH ray-tracing matrix with all
// symmetries switched off and caching disabled: the reference side for C03-C08, C13, C14.
// Rows are z-clipped exactly as ProjMatrixElemsForOneBin::forward_project/back_project do
// (elements whose plane lies outside the image are skipped by the projectors, see
// ProjMatrixElemsForOneBin.cxx).
#pragma once
#include "stir_gen.h"
#include "stir/recon_buildblock/ProjMatrixByBinUsingRayTracing.h"
#include "stir/recon_buildblock/ProjMatrixElemsForOneBin.h"
#include "stir/ProjData.h"
#include "stir/ProjDataInMemory.h"
#include "stir/Bin.h"
#include "stir/Viewgram.h"
#include <vector>

namespace vp {
using namespace stir;

struct MatrixOpts
{
  int num_tangential_LORs = 1;
  bool restrict_to_cylindrical_FOV = true;
  bool use_actual_detector_boundaries = false;
};

inline shared_ptr<ProjMatrixByBinUsingRayTracing>
make_matrix(const MatrixOpts& o, bool sym90, bool sym180, bool swap_seg, bool swap_s, bool shift_z, bool cache, bool only_basic)
{
  shared_ptr<ProjMatrixByBinUsingRayTracing> m(new ProjMatrixByBinUsingRayTracing());
  m->set_num_tangential_LORs(o.num_tangential_LORs);
  m->set_restrict_to_cylindrical_FOV(o.restrict_to_cylindrical_FOV);
  m->set_use_actual_detector_boundaries(o.use_actual_detector_boundaries);
  m->set_do_symmetry_90degrees_min_phi(sym90);
  m->set_do_symmetry_180degrees_min_phi(sym180);
  m->set_do_symmetry_swap_segment(swap_seg);
  m->set_do_symmetry_swap_s(swap_s);
  m->set_do_symmetry_shift_z(shift_z);
  m->enable_cache(cache);
  m->store_only_basic_bins_in_cache(only_basic);
  return m;
}

//! symmetry-free, cache-free matrix ("computed directly")
inline shared_ptr<ProjMatrixByBinUsingRayTracing>
make_plain_matrix(const MatrixOpts& o)
{
  return make_matrix(o, false, false, false, false, false, false, false);
}

struct ExplicitP
{
  shared_ptr<const ProjDataInfo> pdi;
  shared_ptr<const VoxelsOnCartesianGrid<float>> image;
  CartesianCoordinate3D<int> imin, imax;
  long nx, ny, nz;
  std::vector<Bin> bins;                                   // enumeration order: tof, segment, axial, view, tangential
  std::vector<std::vector<std::pair<long, double>>> rows; // z-clipped, voxel = linear index
  long num_clipped = 0;                                    // elements outside the axial extent (skipped, counted)

  long nvox() const { return nx * ny * nz; }
  long nbins() const { return long(bins.size()); }
  long vox_index(int z, int y, int x) const { return (long(z - imin[1]) * ny + (y - imin[2])) * nx + (x - imin[3]); }
  bool inside(int z, int y, int x) const
  {
    return z >= imin[1] && z <= imax[1] && y >= imin[2] && y <= imax[2] && x >= imin[3] && x <= imax[3];
  }

  //! index of a bin in the enumeration (-1 if outside)
  long bin_index(const Bin& b) const
  {
    const ProjDataInfo& p = *pdi;
    if (b.timing_pos_num() < p.get_min_tof_pos_num() || b.timing_pos_num() > p.get_max_tof_pos_num()
        || b.segment_num() < p.get_min_segment_num() || b.segment_num() > p.get_max_segment_num()
        || b.axial_pos_num() < p.get_min_axial_pos_num(b.segment_num()) || b.axial_pos_num() > p.get_max_axial_pos_num(b.segment_num())
        || b.view_num() < p.get_min_view_num() || b.view_num() > p.get_max_view_num()
        || b.tangential_pos_num() < p.get_min_tangential_pos_num() || b.tangential_pos_num() > p.get_max_tangential_pos_num())
      return -1;
    long idx = 0;
    const long nv = p.get_num_views(), nt = p.get_num_tangential_poss();
    long per_tof = 0;
    for (int s = p.get_min_segment_num(); s <= p.get_max_segment_num(); ++s)
      per_tof += long(p.get_num_axial_poss(s)) * nv * nt;
    idx += long(b.timing_pos_num() - p.get_min_tof_pos_num()) * per_tof;
    for (int s = p.get_min_segment_num(); s < b.segment_num(); ++s)
      idx += long(p.get_num_axial_poss(s)) * nv * nt;
    idx += (long(b.axial_pos_num() - p.get_min_axial_pos_num(b.segment_num())) * nv + (b.view_num() - p.get_min_view_num())) * nt
           + (b.tangential_pos_num() - p.get_min_tangential_pos_num());
    return idx;
  }

  static void enumerate_bins(const ProjDataInfo& p, std::vector<Bin>& out)
  {
    out.clear();
    for (int k = p.get_min_tof_pos_num(); k <= p.get_max_tof_pos_num(); ++k)
      for (int s = p.get_min_segment_num(); s <= p.get_max_segment_num(); ++s)
        for (int a = p.get_min_axial_pos_num(s); a <= p.get_max_axial_pos_num(s); ++a)
          for (int v = p.get_min_view_num(); v <= p.get_max_view_num(); ++v)
            for (int t = p.get_min_tangential_pos_num(); t <= p.get_max_tangential_pos_num(); ++t)
              out.push_back(Bin(s, v, a, t, k, 1.F));
  }

  //! one row, directly from a symmetry-free cache-free matrix
  static std::vector<std::pair<long, double>> clip_row(const ExplicitP& P, const ProjMatrixElemsForOneBin& r, long* clipped = nullptr)
  {
    std::vector<std::pair<long, double>> out;
    for (auto it = r.begin(); it != r.end(); ++it)
      {
        const int z = it->coord1(), y = it->coord2(), x = it->coord3();
        if (z < P.imin[1] || z > P.imax[1])
          {
            if (clipped)
              ++*clipped;
            continue;
          }
        out.push_back(std::make_pair(P.vox_index(z, y, x), double(it->get_value())));
      }
    return out;
  }

  //! build all rows (throws what STIR throws if the configuration is rejected at set_up)
  static ExplicitP build(const shared_ptr<const ProjDataInfo>& pdi,
                         const shared_ptr<const VoxelsOnCartesianGrid<float>>& image,
                         const MatrixOpts& o)
  {
    ExplicitP P;
    P.pdi = pdi;
    P.image = image;
    image->get_regular_range(P.imin, P.imax);
    P.nz = P.imax[1] - P.imin[1] + 1;
    P.ny = P.imax[2] - P.imin[2] + 1;
    P.nx = P.imax[3] - P.imin[3] + 1;
    shared_ptr<ProjMatrixByBinUsingRayTracing> m = make_plain_matrix(o);
    m->set_up(pdi, image);
    enumerate_bins(*pdi, P.bins);
    P.rows.resize(P.bins.size());
    ProjMatrixElemsForOneBin row;
    for (std::size_t i = 0; i < P.bins.size(); ++i)
      {
        m->get_proj_matrix_elems_for_one_bin(row, P.bins[i]);
        P.rows[i] = clip_row(P, row, &P.num_clipped);
      }
    return P;
  }

  // y = P x
  std::vector<double> forward(const std::vector<double>& x) const
  {
    std::vector<double> y(rows.size(), 0.);
    for (std::size_t b = 0; b < rows.size(); ++b)
      {
        double acc = 0;
        for (auto& e : rows[b])
          acc += e.second * x[std::size_t(e.first)];
        y[b] = acc;
      }
    return y;
  }
  // x = P^T y  (optionally restricted to bins with mask[b] != 0)
  std::vector<double> back(const std::vector<double>& y, const std::vector<char>* mask = nullptr) const
  {
    std::vector<double> x(std::size_t(nvox()), 0.);
    for (std::size_t b = 0; b < rows.size(); ++b)
      {
        if (mask && !(*mask)[b])
          continue;
        if (y[b] == 0.)
          continue;
        for (auto& e : rows[b])
          x[std::size_t(e.first)] += e.second * y[b];
      }
    return x;
  }

  std::vector<double> image_to_vec(const DiscretisedDensity<3, float>& im) const
  {
    std::vector<double> v(std::size_t(nvox()), 0.);
    for (int z = imin[1]; z <= imax[1]; ++z)
      for (int y = imin[2]; y <= imax[2]; ++y)
        for (int x = imin[3]; x <= imax[3]; ++x)
          v[std::size_t(vox_index(z, y, x))] = im[z][y][x];
    return v;
  }
  std::vector<double> projdata_to_vec(const ProjData& pd) const
  {
    std::vector<double> v(bins.size(), 0.);
    const ProjDataInfo& p = *pdi;
    for (int k = p.get_min_tof_pos_num(); k <= p.get_max_tof_pos_num(); ++k)
      for (int s = p.get_min_segment_num(); s <= p.get_max_segment_num(); ++s)
        for (int vw = p.get_min_view_num(); vw <= p.get_max_view_num(); ++vw)
          {
            const Viewgram<float> vg = pd.get_viewgram(vw, s, false, k);
            for (int a = p.get_min_axial_pos_num(s); a <= p.get_max_axial_pos_num(s); ++a)
              for (int t = p.get_min_tangential_pos_num(); t <= p.get_max_tangential_pos_num(); ++t)
                v[std::size_t(bin_index(Bin(s, vw, a, t, k)))] = vg[a][t];
          }
    return v;
  }
  void vec_to_projdata(ProjData& pd, const std::vector<double>& v) const
  {
    const ProjDataInfo& p = *pdi;
    for (int k = p.get_min_tof_pos_num(); k <= p.get_max_tof_pos_num(); ++k)
      for (int s = p.get_min_segment_num(); s <= p.get_max_segment_num(); ++s)
        for (int vw = p.get_min_view_num(); vw <= p.get_max_view_num(); ++vw)
          {
            Viewgram<float> vg = pd.get_empty_viewgram(vw, s, false, k);
            for (int a = p.get_min_axial_pos_num(s); a <= p.get_max_axial_pos_num(s); ++a)
              for (int t = p.get_min_tangential_pos_num(); t <= p.get_max_tangential_pos_num(); ++t)
                vg[a][t] = float(v[std::size_t(bin_index(Bin(s, vw, a, t, k)))]);
            if (pd.set_viewgram(vg) != Succeeded::yes)
              error("vec_to_projdata: set_viewgram failed");
          }
  }
};

} // namespace vp

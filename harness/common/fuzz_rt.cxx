// libFuzzer entry: the same generator decodes fuzzer bytes into the same Case, the same check decides
#include "verif.h"
const vf::Property& the_property();
extern "C" int
LLVMFuzzerTestOneInput(const uint8_t* data, size_t size)
{
  return vf::fuzz_one(the_property(), data, size);
}

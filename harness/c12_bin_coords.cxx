// C12 — bin coordinates, lines of response and detector positions agree.
//
// One Case = one configuration (scanner + projection-data sampling) + strides + parameters of one
// arc-correction set-up.  For the configuration ALL bins (strided in the axial and view index for the
// largest predefined scanners; never in the tangential and TOF index) are visited and four clause
// groups are decided:
//   (1) LOR round trip   get_bin(get_LOR(b), get_tof_delta_time(b))  through both LOR representations
//   (2) the bin's coordinates against the straight line through the positions of its detectors
//   (3) antisymmetry / monotonicity of the coordinates, TOF bin boundaries, uniform sampling
//   (4) arc correction: uniform -> uniform, integral over s preserved
//
// Every tolerance and exception below is derived from the property text and the STIR sources; the
// source is cited next to it.  Decisions taken after triage on the unchanged tree (details, replay files and
// proposed patches in work/notes/C12_findings.md):
//   known finding, excluded narrowly by construction (VERIF_NO_EXCLUDE=1 switches the exclusion off):
//     F4 generic/blocks get_bin does not invert get_LOR
//     H2 ProjDataInfoSubsetByView::clone() shares the original object with the subset it was cloned from (c12_history.h)
//   defects found by this harness and repaired in STIR (regression inputs replays/C12/fixed_*.json; the input classes are
//   part of the normal search):
//     F1 ArcCorrection: last output bin twice as wide        F5 arc-corrected get_bin returned view_num==num_views
//     F2 get_bin rounded adjacent detectors to det1==det2     (F6, TOF bin limits one ulp apart, was a clause beyond the property text: now a counter)
//     F3 generic get_tantheta divided by 2R, not the chord
//   oracle decisions (not defects):
//     D1 a miss is also accepted at the first/last tangential position when the bin's LOR is a tie between detectors
//     D2 obliqueness of axially truncated / even-span bins is checked at segment level (STIR's documented convention)
//     D3 blocks geometry: coordinates modulo the orientation of the normalised LOR; no s/phi (anti)symmetry demanded
//
// Object histories (c12_history.h): in about half of the generated cases and in two of the three fixed samplings of every predefined
// scanner the object under test is not constructed directly but DERIVED from another, already used object (clone / SSRB / public
// setters / create_non_tof_clone, see c12_history.h for the domain).  All clauses then run on the derived object, and it must
// equal (operator==) and answer identically to the fresh twin constructed directly with the final parameters.
// Aliasing (c12_history.h (iv)): about half of the histories additionally KEEP objects (the original of a clone / SSRB call, side
// copies made by clone / create_shared_clone / copy constructor / copy assignment / create_non_tof_clone, ProjDataInfoSubsetByView
// objects) while the other object is changed with the setters and used; every kept object must afterwards still equal, and answer on
// the whole API like, a fresh twin of its OWN settings that was built on its own Scanner object and never copied.
#include "stir_gen.h"
#include "c12_history.h"
#include "stir/ProjDataInfoCylindricalNoArcCorr.h"
#include "stir/ProjDataInfoCylindricalArcCorr.h"
#include "stir/ProjDataInfoGenericNoArcCorr.h"
#include "stir/ProjDataInfoBlocksOnCylindricalNoArcCorr.h"
#include "stir/LORCoordinates.h"
#include "stir/ArcCorrection.h"
#include "stir/Sinogram.h"
#include "stir/Viewgram.h"
#include "stir/DetectionPositionPair.h"
#include "stir/Bin.h"
#include <typeinfo>
#include <set>
#include <map>
#include <algorithm>

using namespace vf;
using namespace stir;

namespace {

const double PI = 3.14159265358979323846;

// The known finding F4 is excluded narrowly (see work/notes/C12_findings.md);
// VERIF_NO_EXCLUDE=1 switches the exclusion off so that the recorded cases fail again.
// A case may carry "lift_only": "Fn": with VERIF_NO_EXCLUDE=1 only that exclusion is then lifted (the known-finding probes in
// known/C12/ use it); without the field VERIF_NO_EXCLUDE=1 lifts every exclusion.  Without VERIF_NO_EXCLUDE the field has no
// effect.  "F4a" = F4 with the two-point LOR representation only.
std::string g_lift_only; // set by check() from the case

// C12-A1 (ProjDataInfoCylindricalArcCorr::get_bin for data without segment 0) is repaired in /repo: not excluded any more
static const bool A1_EXCLUDED = false;
bool
exclusions_on(const char* finding)
{
  static const bool all_off = std::getenv("VERIF_NO_EXCLUDE") != nullptr;
  const std::string f(finding);
  if (all_off)
    return g_lift_only.empty() ? false : !(g_lift_only == f || (g_lift_only == "F4a" && f == "F4"));
  // development aid: C12_NO_EXCLUDE=F3 switches a single exclusion off (to shrink a case for one finding)
  static const char* one = std::getenv("C12_NO_EXCLUDE");
  return !(one && (f == one || (std::string(one) == "F4a" && f == "F4")));
}

// sub-case exclusions are counted per excluded bin/check, both as a named counter and under excluded_known
void
count_excluded(const std::string& what, long n = 1)
{
  stats().count("excluded:" + what, n);
  stats().excluded_known += n;
}

// index list lo..hi with a stride; the last index is always included (range ends matter for every clause)
std::vector<int>
strided(int lo, int hi, int stride)
{
  std::vector<int> v;
  for (int i = lo; i <= hi; i += std::max(1, stride))
    v.push_back(i);
  if (!v.empty() && v.back() != hi)
    v.push_back(hi);
  return v;
}

inline double
wrap_pi(double a)
{ // to (-pi,pi]
  a = std::fmod(a, 2 * PI);
  if (a > PI)
    a -= 2 * PI;
  if (a <= -PI)
    a += 2 * PI;
  return a;
}

struct P3
{
  double x, y, z;
};

// The straight line through P1 (first detector) and P2 (second detector) in the parametrisation that
// ProjDataInfoCylindrical::get_LOR documents (ProjDataInfoCylindrical.cxx, get_LOR):
//     X = s cos(phi) + a sin(phi),  Y = s sin(phi) - a cos(phi),  Z = m - a tan(theta)
// with the first detector at the larger a.  Hence, with d = P1 - P2:
//     (sin phi, -cos phi) = d_xy/|d_xy|,  s = P . (cos phi, sin phi),  tan(theta) = (z2 - z1)/|d_xy|,
//     m = z at a = 0 (the point of the line closest to the scanner axis).
struct Line
{
  double s, m, tantheta, phi;
  bool between; // the point of closest approach to the axis (a = 0) lies between the two detectors
};
inline Line
line_through(const P3& p1, const P3& p2)
{
  Line l;
  const double dx = p1.x - p2.x, dy = p1.y - p2.y;
  const double dxy = std::sqrt(dx * dx + dy * dy);
  const double sphi = dx / dxy, cphi = -dy / dxy;
  l.phi = std::atan2(dx, -dy);
  l.s = p2.x * cphi + p2.y * sphi;
  const double a1 = p1.x * sphi - p1.y * cphi;
  const double a2 = p2.x * sphi - p2.y * cphi;
  l.tantheta = (p2.z - p1.z) / dxy;
  l.m = p1.z + a1 * l.tantheta;
  l.between = a1 >= 0 && a2 <= 0;
  return l;
}

struct Tol
{
  // clause (2), from the property section of DESIGN.md:
  //   s, m within 1e-3 x sampling; tan(theta) relative 1e-4; phi within half a view step, and within 1e-4 rad
  //   for even tangential positions (pair-averaged, so also with view mashing).
  // "sampling" for s is the central tangential sampling (R pi/N resp. the arc-corrected bin size): STIR computes in
  // float, and near the edge of the non-arc-corrected range the local sampling R cos(beta) pi/N drops below the
  // float resolution of s itself (R 6e-8), so the local sampling cannot be the yardstick there.  A wrong tangential
  // or detector index moves s by a whole central sampling somewhere in the row, 1000 x the tolerance.
  double s_abs, m_abs, tantheta_rel = 1e-4, tantheta_abs = 1e-7, phi_even = 1e-4, phi_half_step;
};

inline bool
compressed(const ProjDataInfoCylindrical& p, int seg)
{
  return p.get_min_ring_difference(seg) != p.get_max_ring_difference(seg);
}

// margin of the repository's own test (src/test/test_proj_data_info.cxx:187-199): within this many axial positions of
// either end the central LOR of an axially compressed bin may fall outside the scanner
inline int
axial_margin(const ProjDataInfoCylindrical& p, int seg)
{
  const double avg = p.get_average_ring_difference(seg);
  return int(std::max(std::ceil(avg - p.get_min_ring_difference(seg)), std::ceil(p.get_max_ring_difference(seg) - avg)));
}

std::string
bstr(const Bin& b)
{
  return cat("bin(seg=", b.segment_num(), ",ax=", b.axial_pos_num(), ",view=", b.view_num(), ",tang=", b.tangential_pos_num(), ",tof=", b.timing_pos_num(),
             ")");
}

// ---- clause (1): acceptance rule for one round trip ------------------------------------------------
// exact==true (arc-corrected data): the same bin.
// exact==false (detector based): the rule of the property text = the rule of test_proj_data_info.cxx:221-262:
//   same segment and TOF bin, |d view| <= 1 cyclically, |d axial| <= 1, |d tang| <= 1, where a step between the last and
//   the first view reverses the signs of segment, tangential position and TOF bin; or value <= 0 ("misses the scanner")
//   only for axially compressed bins within axial_margin() of an axial end (plus decision D1 below; 'ties' = the bin's LOR lies
//   half-way between detectors).
// The repository test decides "wrapped" by |dv| >= num_views-|dv|; for num_views <= 2 both readings of the same result
// are possible (one view: the neighbour across the view end is the view itself), so either reading is accepted.
Result
accept_roundtrip(const ProjDataInfoCylindrical& p, const Bin& b, const Bin& nb, bool exact, const char* which, bool ties = false)
{
  const int seg = b.segment_num();
  if (!(nb.get_bin_value() > 0))
    {
      const int margin = axial_margin(p, seg);
      const bool at_edge
          = b.axial_pos_num() < p.get_min_axial_pos_num(seg) + margin || b.axial_pos_num() > p.get_max_axial_pos_num(seg) - margin;
      // Oracle decision D1 (work/notes/C12_findings.md), a relaxation w.r.t. the literal property text:
      // get_bin documents value<0 for "no such bin" and tests the tangential range (ProjDataInfo.h:368-382,
      // ProjDataInfoCylindricalNoArcCorr.cxx get_bin).  When the LOR of the bin lies exactly half-way between detectors
      // (odd tangential position = interleaving, or even view mashing: 'ties') the permitted one-step neighbour -- or, across the
      // view end, the neighbour of the mirrored tangential position -- can lie outside the tangential range of the data;
      // the repository's test leaves the first and last tangential position out for this reason.  Accepted only there.
      const int t = b.tangential_pos_num(), tmin = p.get_min_tangential_pos_num(), tmax = p.get_max_tangential_pos_num();
      const bool view_end = b.view_num() == p.get_min_view_num() || b.view_num() == p.get_max_view_num();
      const bool tang_edge = ties && (t - 1 < tmin || t + 1 > tmax || (view_end && (-t - 1 < tmin || -t + 1 > tmax)));
      const bool axial_ok = !exact && compressed(p, seg) && at_edge;
      // (domain audit: segment ranges that are not symmetric, reduce_segment_range(a, b) with a != -b.)  The same situation in the
      // segment index: the statement's "stepping between the last and the first view reverses the sign of the segment" needs segment -seg,
      // and for a tie at the first / last view the permitted neighbour is a bin of segment -seg, which these data do not have.
      const bool seg_edge = ties && view_end && (-seg < p.get_min_segment_num() || -seg > p.get_max_segment_num());
      stats().count(cat("roundtrip reports a miss: ",
                        axial_ok ? "compressed bin at axial edge" : (tang_edge ? "tie at tangential edge" : (seg_edge ? "tie at the view end, no opposite segment" : "OTHER")),
                        " (", which, ")"));
      VF_CHECK(axial_ok || (!exact && (tang_edge || seg_edge)), "round trip (", which, ") of ", bstr(b),
               " reports that the LOR misses the scanner, but the bin is ", compressed(p, seg) ? "" : "not ", "axially compressed and ",
               at_edge ? "" : "not ", "within ", margin, " positions of an axial end");
      return Result::pass();
    }
  if (exact)
    {
      VF_CHECK(nb.segment_num() == seg && nb.axial_pos_num() == b.axial_pos_num() && nb.view_num() == b.view_num()
                   && nb.tangential_pos_num() == b.tangential_pos_num() && nb.timing_pos_num() == b.timing_pos_num(),
               "round trip (", which, ") of arc-corrected ", bstr(b), " returns ", bstr(nb));
      return Result::pass();
    }
  const int nv = p.get_num_views();
  const int dv = std::abs(b.view_num() - nb.view_num());
  const int dax = std::abs(b.axial_pos_num() - nb.axial_pos_num());
  const bool plain_ok = dv <= 1 && nb.segment_num() == seg && std::abs(nb.tangential_pos_num() - b.tangential_pos_num()) <= 1
                        && nb.timing_pos_num() == b.timing_pos_num();
  const bool wrap_ok = nv - dv <= 1 && nb.segment_num() == -seg && std::abs(nb.tangential_pos_num() + b.tangential_pos_num()) <= 1
                       && nb.timing_pos_num() == -b.timing_pos_num();
  VF_CHECK(dax <= 1 && (plain_ok || wrap_ok), "round trip (", which, ") of ", bstr(b), " returns ", bstr(nb), " (", nv, " views)");
  if (!plain_ok)
    stats().count("roundtrip across the view end");
  stats().maxi("roundtrip max |d axial|", dax);
  stats().maxi("roundtrip max |d view| (cyclic)", std::min(dv, nv - dv));
  stats().maxi("roundtrip max |d tang|", plain_ok ? std::abs(nb.tangential_pos_num() - b.tangential_pos_num())
                                                  : std::abs(nb.tangential_pos_num() + b.tangential_pos_num()));
  return Result::pass();
}

#define VF_TRY(expr)                                                                                                             \
  do                                                                                                                             \
    {                                                                                                                            \
      const ::vf::Result vf_r_ = (expr);                                                                                         \
      if (vf_r_.failed())                                                                                                        \
        return vf_r_;                                                                                                            \
    }                                                                                                                            \
  while (0)

// ---- clause (3), TOF part: k antisymmetric and increasing; bin boundaries contiguous and symmetric -------------
Result
check_tof(const ProjDataInfo& p)
{
  if (!p.is_tof_data())
    return Result::pass();
  const int kmin = p.get_min_tof_pos_num(), kmax = p.get_max_tof_pos_num();
  VF_CHECK(kmin == -kmax, "TOF index range not symmetric: ", kmin, "..", kmax);
  // unit for the comparisons: one TOF bin; all values are float, magnitudes <= (kmax+1) bins: rounding <= 1e-6 bins x kmax
  const double inc = double(p.get_k(Bin(0, 0, 0, 0, 1))) - double(p.get_k(Bin(0, 0, 0, 0, 0)));
  VF_CHECK(inc > 0, "TOF bin increment not positive: ", inc);
  const double tol = 2e-6 * inc * (kmax + 1);
  VF_CHECK(p.tof_bin_boundaries_mm.get_min_index() == kmin && p.tof_bin_boundaries_mm.get_max_index() == kmax, "TOF boundary table has range ",
           p.tof_bin_boundaries_mm.get_min_index(), "..", p.tof_bin_boundaries_mm.get_max_index(), " for TOF bins ", kmin, "..", kmax);
  for (int k = kmin; k <= kmax; ++k)
    {
      const double kk = p.get_k(Bin(0, 0, 0, 0, k)), kn = p.get_k(Bin(0, 0, 0, 0, -k));
      VF_CHECK(std::fabs(kk + kn) <= tol, "k(-tof) != -k(tof) at tof=", k, ": ", kk, " vs ", kn);
      // the TOF time difference is the same coordinate in ps (mm_to_tof_delta_time is linear): sign and order must agree
      const double dt = p.get_tof_delta_time(Bin(0, 0, 0, 0, k)), dtn = p.get_tof_delta_time(Bin(0, 0, 0, 0, -k));
      VF_CHECK(std::fabs(dt + dtn) <= 1e-5 * std::fabs(dt) + 1e-9, "delta_time(-tof) != -delta_time(tof) at tof=", k);
      VF_CHECK((kk > 0) == (dt > 0) && (kk < 0) == (dt < 0), "sign of k and of the TOF time difference differ at tof=", k);
      const double lo = p.tof_bin_boundaries_mm[k].low_lim, hi = p.tof_bin_boundaries_mm[k].high_lim;
      VF_CHECK(lo < kk && kk < hi, "TOF bin ", k, ": centre ", kk, " outside its boundaries [", lo, ",", hi, "]");
      const double lon = p.tof_bin_boundaries_mm[-k].low_lim, hin = p.tof_bin_boundaries_mm[-k].high_lim;
      VF_CHECK(std::fabs(lo + hin) <= tol && std::fabs(hi + lon) <= tol, "TOF boundaries not symmetric: bin ", k, " [", lo, ",", hi, "] bin ", -k, " [", lon,
               ",", hin, "]");
      const double lops = p.tof_bin_boundaries_ps[k].low_lim, hips = p.tof_bin_boundaries_ps[k].high_lim;
      VF_CHECK(lops < dt && dt < hips, "TOF bin ", k, ": time difference ", dt, " outside its boundaries [", lops, ",", hips, "] ps");
      if (k < kmax)
        {
          const double kk1 = p.get_k(Bin(0, 0, 0, 0, k + 1));
          VF_CHECK(kk1 > kk, "k not strictly increasing at tof=", k);
          const double lo1 = p.tof_bin_boundaries_mm[k + 1].low_lim;
          VF_CHECK(std::fabs(hi - lo1) <= tol, "TOF boundaries not contiguous (mm): high(", k, ")=", hi, " low(", k + 1, ")=", lo1);
          const double lo1ps = p.tof_bin_boundaries_ps[k + 1].low_lim;
          VF_CHECK(std::fabs(hips - lo1ps) <= 2e-6 * (hips - lops) * (kmax + 1), "TOF boundaries not contiguous (ps): high(", k, ")=", hips, " low(", k + 1,
                   ")=", lo1ps);
          stats().maxi("TOF boundary gap/overlap (bins)", std::fabs(hi - lo1) / inc);
          // The limits of adjacent bins are stored separately as float (ProjDataInfo.cxx, set_tof_mash_factor) and can differ
          // by one ulp; get_tof_bin() of a time difference inside such a gap warns and returns the first bin.  The property
          // text does not speak about time differences exactly on a bin boundary (the round trip uses the bin centre), so
          // this is counted, not asserted (DESIGN.md section 10: former entry C12-F6 was a clause beyond the property).
          if (hips != lo1ps)
            stats().count("TOF boundaries (ps) not bitwise contiguous");
          for (double probe : { hips, lo1ps, (hips + lo1ps) / 2 })
            {
              const int kb = p.get_tof_bin(probe);
              if (!(kb == k || kb == k + 1))
                stats().count("time difference on a TOF bin boundary assigned to neither neighbour (not asserted)");
            }
        }
      stats().count("tof bins checked");
    }
  return Result::pass();
}

// ---- cylindrical geometry, not arc-corrected ---------------------------------------------------------------
struct CylGeo
{
  int N, rings;
  double R, spacing, tilt;
  std::vector<double> x, y, z; // per detector / per ring
  // harness's own cylinder formula (DESIGN C12): psi = 2 pi det/N + tilt, radius = inner radius + average DOI,
  // z = (ring - (rings-1)/2) spacing; STIR's Cartesian convention x = R sin(psi), y = -R cos(psi)
  // (LORCoordinates.inl, LORAs2Points(LORInCylinderCoordinates)).
  explicit CylGeo(const Scanner& sc)
  {
    N = sc.get_num_detectors_per_ring();
    rings = sc.get_num_rings();
    R = double(sc.get_inner_ring_radius()) + double(sc.get_average_depth_of_interaction());
    spacing = sc.get_ring_spacing();
    tilt = sc.get_intrinsic_azimuthal_tilt();
    x.resize(N);
    y.resize(N);
    for (int d = 0; d < N; ++d)
      {
        const double psi = 2 * PI * d / N + tilt;
        x[d] = R * std::sin(psi);
        y[d] = -R * std::cos(psi);
      }
    z.resize(rings);
    for (int r = 0; r < rings; ++r)
      z[r] = (r - (rings - 1) / 2.) * spacing;
  }
};

// the ring differences that contribute to a segment, read off the ring-pair lists of all its axial positions
// (not from get_min/max_ring_difference, which is what get_tantheta itself uses)
struct SegRingDiffs
{
  std::set<int> diffs;
  int lo = 0, hi = 0;
};

template <class PDI>
SegRingDiffs
seg_ring_diffs(const PDI& p, int seg)
{
  SegRingDiffs r;
  for (int a = p.get_min_axial_pos_num(seg); a <= p.get_max_axial_pos_num(seg); ++a)
    for (auto& pr : p.get_all_ring_pairs_for_segment_axial_pos_num(seg, a))
      r.diffs.insert(pr.second - pr.first);
  if (!r.diffs.empty())
    {
      r.lo = *r.diffs.begin();
      r.hi = *r.diffs.rbegin();
    }
  return r;
}

// Is the ring-pair list of this bin "complete", i.e. does it contain every ring difference of the segment that has the
// parity of ring1+ring2?  At the axial ends of compressed segments the list is truncated (rings outside the scanner),
// and STIR's convention is ONE obliqueness per segment (get_average_ring_difference = (min+max)/2, documented in
// ProjDataInfoCylindrical.inl).  For complete lists of a segment with an odd number of ring differences the pair average
// IS (min+max)/2, so the property's "averaged over the contributing pairs" is demanded exactly there; for truncated
// lists and for segments with an even number of ring differences (even "span", ProjDataInfoCTI) only the segment-level
// statement is demanded: tan(theta) corresponds to the mid ring difference of the ring differences contributing to
// the segment.
inline bool
complete_list(const ProjDataInfoCylindrical::RingNumPairs& rp, const SegRingDiffs& sd)
{
  if (rp.empty() || (sd.hi - sd.lo) % 2 != 0)
    return false;
  const int parity = ((rp[0].first + rp[0].second) % 2 + 2) % 2;
  std::size_t want = 0;
  for (int d : sd.diffs)
    if (((d % 2) + 2) % 2 == parity)
      ++want;
  return rp.size() == want;
}


//! The ring pairs a (segment, axial position) reports as contributing, against the harness's own statement of which they are:
//! every ring pair of the scanner whose ring difference lies in the segment's range and whose axial midpoint (z of the two rings from
//! the harness's cylinder formula) is the bin's m.  (Round 4: the pair averages of clause (2) were taken over the list STIR reports, so a
//! list that had lost pairs at the axial edge of a compressed segment still "agreed with its detectors".)  Cylindrical geometry only
//! (uniform ring positions); both directions: nothing listed that does not belong, nothing that belongs missing.
template <class PDI>
Result
check_contributing_ring_pairs(const PDI& p, const CylGeo& g)
{
  std::map<std::pair<int, int>, std::set<std::pair<int, int>>> expected;
  const int tang0 = std::min(std::max(0, p.get_min_tangential_pos_num()), p.get_max_tangential_pos_num());
  for (int seg = p.get_min_segment_num(); seg <= p.get_max_segment_num(); ++seg)
    {
      const int amin = p.get_min_axial_pos_num(seg), amax = p.get_max_axial_pos_num(seg);
      if (amax < amin)
        continue;
      const double ax_sampling = compressed(p, seg) ? g.spacing / 2 : g.spacing;
      const double m0 = p.get_m(Bin(seg, p.get_min_view_num(), amin, tang0));
      const int dlo = p.get_min_ring_difference(seg), dhi = p.get_max_ring_difference(seg);
      for (int r1 = 0; r1 < g.rings; ++r1)
        for (int d = dlo; d <= dhi; ++d)
          {
            const int r2 = r1 + d;
            if (r2 < 0 || r2 >= g.rings)
              continue;
            const double mid = (g.z[r1] + g.z[r2]) / 2;
            const int ax = amin + int(std::lround((mid - m0) / ax_sampling));
            if (ax < amin || ax > amax)
              continue; // midpoint outside the axial range of the data (reduced ranges)
            const double m = p.get_m(Bin(seg, p.get_min_view_num(), ax, tang0));
            if (std::fabs(m - mid) > 1e-3 * ax_sampling)
              continue; // no axial position has this midpoint (span 1: the other parity)
            expected[std::make_pair(seg, ax)].insert(std::make_pair(r1, r2));
          }
    }
  long npairs = 0;
  for (int seg = p.get_min_segment_num(); seg <= p.get_max_segment_num(); ++seg)
    for (int ax = p.get_min_axial_pos_num(seg); ax <= p.get_max_axial_pos_num(seg); ++ax)
      {
        const auto& rp = p.get_all_ring_pairs_for_segment_axial_pos_num(seg, ax);
        std::set<std::pair<int, int>> got;
        for (auto& pr : rp)
          got.insert(std::make_pair(pr.first, pr.second));
        const auto& want = expected[std::make_pair(seg, ax)];
        npairs += long(want.size());
        for (auto& w : want)
          VF_CHECK(got.count(w), "ring pair (", w.first, ",", w.second, ") has a ring difference of segment ", seg, " (", p.get_min_ring_difference(seg), "..",
                   p.get_max_ring_difference(seg), ") and its axial midpoint is m of axial position ", ax, ", but it is not among the ", rp.size(),
                   " ring pairs the bin reports as contributing");
        for (auto& gp : got)
          VF_CHECK(want.count(gp), "ring pair (", gp.first, ",", gp.second, ") is listed for segment ", seg, " axial position ", ax,
                   " but its ring difference / axial midpoint do not belong to that bin");
      }
  stats().count("ring pairs compared with own Michelogram", npairs);
  return Result::pass();
}

Result
check_noarc(const ProjDataInfoCylindricalNoArcCorr& p, const json& c)
{
  const Scanner& sc = *p.get_scanner_ptr();
  const CylGeo g(sc);
  const int mash = p.get_view_mashing_factor();
  const int nv = p.get_num_views();
  Tol tol;
  tol.s_abs = 1e-3 * g.R * PI / g.N;
  tol.phi_half_step = PI / nv / 2;
  const int ax_stride = c.value("ax_stride", 1), view_stride = c.value("view_stride", 1);
  const int tmin = p.get_min_tangential_pos_num(), tmax = p.get_max_tangential_pos_num();
  const int kmin = p.get_min_tof_pos_num(), kmax = p.get_max_tof_pos_num();
  // TOF bins visited by the round trip: all, or (largest TOF scanners only, stride recorded in the case) a strided list that
  // always contains both ends and the central bin
  std::vector<int> ks = strided(kmin, kmax, c.value("tof_stride", 1));
  if (std::find(ks.begin(), ks.end(), 0) == ks.end())
    ks.push_back(0);
  // geometry constants the class reports against the harness's own
  VF_CHECK(std::fabs(p.get_ring_radius() - g.R) <= 1e-6 * g.R, "ring radius ", p.get_ring_radius(), " != inner radius + DOI ", g.R);
  VF_CHECK(std::fabs(p.get_angular_increment() - PI / g.N) <= 1e-6 * PI / g.N, "angular increment ", p.get_angular_increment(), " != pi/N");
  VF_TRY(check_contributing_ring_pairs(p, g));

  std::vector<DetectionPositionPair<>> dps;
  long nbins = 0, n_incomplete = 0;
  for (int seg = p.get_min_segment_num(); seg <= p.get_max_segment_num(); ++seg)
    {
      const SegRingDiffs sd = seg_ring_diffs(p, seg);
      const double ax_sampling = compressed(p, seg) ? g.spacing / 2 : g.spacing;
      tol.m_abs = 1e-3 * ax_sampling;
      const auto axs = strided(p.get_min_axial_pos_num(seg), p.get_max_axial_pos_num(seg), ax_stride);
      for (int ax : axs)
        {
          const auto& rp = p.get_all_ring_pairs_for_segment_axial_pos_num(seg, ax);
          const bool complete = complete_list(rp, sd);
          for (int v : strided(p.get_min_view_num(), p.get_max_view_num(), view_stride))
            for (int t = tmin; t <= tmax; ++t)
              {
                ++nbins;
                const Bin b0(seg, v, ax, t, 0, 1.f);
                const double s = p.get_s(b0), m = p.get_m(b0), tth = p.get_tantheta(b0), phi = p.get_phi(b0);
                // ---- clause (2) ----
                p.get_all_det_pos_pairs_for_bin(dps, b0, true);
                if (!dps.empty())
                  {
                    double ss = 0, sm = 0, st = 0, sphi = 0, phi0 = 0;
                    bool first = true;
                    for (auto& dp : dps)
                      {
                        const int d1 = dp.pos1().tangential_coord(), d2 = dp.pos2().tangential_coord();
                        const int r1 = dp.pos1().axial_coord(), r2 = dp.pos2().axial_coord();
                        VF_CHECK(d1 >= 0 && d1 < g.N && d2 >= 0 && d2 < g.N && r1 >= 0 && r1 < g.rings && r2 >= 0 && r2 < g.rings && d1 != d2,
                                 "detector pair outside the scanner for ", bstr(b0));
                        const Line l = line_through(P3{ g.x[d1], g.y[d1], g.z[r1] }, P3{ g.x[d2], g.y[d2], g.z[r2] });
                        ss += l.s;
                        sm += l.m;
                        st += l.tantheta;
                        if (first)
                          {
                            phi0 = l.phi;
                            first = false;
                          }
                        sphi += wrap_pi(l.phi - phi0); // the pairs of one bin span less than one view step
                      }
                    const double n = double(dps.size());
                    ss /= n;
                    sm /= n;
                    st /= n;
                    const double ph = phi0 + sphi / n;
                    VF_CHECK(std::fabs(s - ss) <= tol.s_abs, "get_s=", s, " but the detectors of ", bstr(b0), " give s=", ss, " (tolerance ", tol.s_abs, ")");
                    stats().maxi("(2) |s - s_det| / central sampling", std::fabs(s - ss) / (g.R * PI / g.N));
                    VF_CHECK(std::fabs(m - sm) <= tol.m_abs, "get_m=", m, " but the detectors of ", bstr(b0), " give m=", sm, " (tolerance ", tol.m_abs, ")");
                    stats().maxi("(2) |m - m_det| / axial sampling", std::fabs(m - sm) / ax_sampling);
                    const double dphi = std::fabs(wrap_pi(phi - ph));
                    VF_CHECK(dphi <= tol.phi_half_step + tol.phi_even, "get_phi=", phi, " but the detectors of ", bstr(b0), " give phi=", ph,
                             " (more than half a view step ", tol.phi_half_step, " apart)");
                    if (t % 2 == 0)
                      {
                        VF_CHECK(dphi <= tol.phi_even, "get_phi=", phi, " but the detectors of even-tangential ", bstr(b0), " give phi=", ph);
                        stats().maxi("(2) |phi - phi_det| even tang (rad)", dphi);
                      }
                    else
                      stats().maxi("(2) |phi - phi_det| odd tang / view step", dphi / (PI / nv));
                    // obliqueness
                    const double chord = 2 * std::sqrt(std::max(0., g.R * g.R - ss * ss));
                    const double tth_seg = (sd.lo + sd.hi) / 2. * g.spacing / chord;
                    VF_CHECK(std::fabs(tth - tth_seg) <= tol.tantheta_rel * std::fabs(tth_seg) + tol.tantheta_abs, "get_tantheta=", tth, " of ", bstr(b0),
                             " but the ring differences ", sd.lo, "..", sd.hi, " contributing to the segment give ", tth_seg);
                    if (complete)
                      {
                        VF_CHECK(std::fabs(tth - st) <= tol.tantheta_rel * std::fabs(st) + tol.tantheta_abs, "get_tantheta=", tth, " but the detectors of ",
                                 bstr(b0), " give tan(theta)=", st);
                        if (std::fabs(st) > 1e-6)
                          stats().maxi("(2) rel |tantheta - tantheta_det|", std::fabs(tth - st) / std::fabs(st));
                      }
                    else
                      ++n_incomplete;
                  }
                else
                  stats().count("bins without detector pairs");
                // ---- clause (3) ----
                if (t < tmax)
                  VF_CHECK(p.get_s(Bin(seg, v, ax, t + 1)) > s, "s not strictly increasing at ", bstr(b0));
                if (-t >= tmin && -t <= tmax)
                  VF_CHECK(std::fabs(p.get_s(Bin(seg, v, ax, -t)) + s) <= 1e-6 * g.R, "s(-t) != -s(t) at ", bstr(b0));
                if (-seg >= p.get_min_segment_num() && -seg <= p.get_max_segment_num() && ax >= p.get_min_axial_pos_num(-seg)
                    && ax <= p.get_max_axial_pos_num(-seg))
                  {
                    const double tn = p.get_tantheta(Bin(-seg, v, ax, t));
                    VF_CHECK(std::fabs(tn + tth) <= 1e-6 * std::fabs(tth), "tantheta(-seg) != -tantheta(seg) at ", bstr(b0), ": ", tth, " vs ", tn);
                  }
                if (ax < p.get_max_axial_pos_num(seg))
                  VF_CHECK(p.get_m(Bin(seg, v, ax + 1, t)) > m, "m not strictly increasing at ", bstr(b0));
                if (v < p.get_max_view_num())
                  VF_CHECK(p.get_phi(Bin(seg, v + 1, ax, t)) > phi, "phi not strictly increasing at ", bstr(b0));
                // ---- clause (1) ----
                // 'ties': the LOR reported for the bin lies half-way between detectors (interleaving for odd tangential
                // positions: phi ignores it, see get_s/get_phi docs; or the centre of an even number of mashed views)
                const bool ties = (t % 2 != 0) || (mash % 2 == 0);
                // (fixed defect C12-F2, replays/C12/fixed_F2_*.json: for the outermost possible tangential position |t| = N/2-1,
                // LOR between adjacent detectors, a tie can round both ends to the SAME detector; get_bin indexed its det1==det2
                // table entry.  It now reports "no such bin", which rule D1 accepts: |t| = N/2-1 is always the first/last
                // tangential position because at most N-1 tangential positions exist.)
                if (ties && std::abs(t) == g.N / 2 - 1)
                  stats().count("(1) round trips of ties between adjacent detectors", long(ks.size()));
                for (int k : ks)
                  {
                    const Bin b(seg, v, ax, t, k, 1.f);
                    const double dt = p.get_tof_delta_time(b);
                    LORInAxialAndNoArcCorrSinogramCoordinates<float> lor;
                    p.get_LOR(lor, b);
                    const Bin nb = p.get_bin(lor, dt);
                    VF_TRY(accept_roundtrip(p, b, nb, false, "sinogram coordinates", ties));
                    LORAs2Points<float> lor2;
                    VF_CHECK(lor.get_intersections_with_cylinder(lor2, lor.radius()) == Succeeded::yes, "LOR of ", bstr(b), " does not intersect its own cylinder");
                    const Bin nb2 = p.get_bin(lor2, dt);
                    VF_TRY(accept_roundtrip(p, b, nb2, false, "two points", ties));
                    stats().count("(1) round trips");
                    if (nb.get_bin_value() > 0 && nb.segment_num() == seg && nb.axial_pos_num() == ax && nb.view_num() == v && nb.tangential_pos_num() == t
                        && nb.timing_pos_num() == k)
                      stats().count("(1) round trips exact");
                  }
              }
        }
    }
  stats().count("bins", nbins);
  stats().count("(2) bins with truncated/even ring-pair list (segment-level obliqueness only)", n_incomplete);
  if (mash > 1)
    stats().cls("view mashing");
  return Result::pass();
}

// ---- cylindrical geometry, arc-corrected -------------------------------------------------------------------
Result
check_arc(const ProjDataInfoCylindricalArcCorr& p, const json& c)
{
  const Scanner& sc = *p.get_scanner_ptr();
  const CylGeo g(sc);
  const int nv = p.get_num_views();
  const int mash = p.get_view_mashing_factor();
  const double bin = p.get_tangential_sampling();
  const int ax_stride = c.value("ax_stride", 1), view_stride = c.value("view_stride", 1);
  const int tmin = p.get_min_tangential_pos_num(), tmax = p.get_max_tangential_pos_num();
  Tol tol;
  tol.s_abs = 1e-3 * bin;
  VF_CHECK(std::fabs(p.get_ring_radius() - g.R) <= 1e-6 * g.R, "ring radius ", p.get_ring_radius(), " != inner radius + DOI ", g.R);
  VF_TRY(check_contributing_ring_pairs(p, g));
  long nbins = 0, n_incomplete = 0;
  for (int seg = p.get_min_segment_num(); seg <= p.get_max_segment_num(); ++seg)
    {
      const SegRingDiffs sd = seg_ring_diffs(p, seg);
      const double ax_sampling = compressed(p, seg) ? g.spacing / 2 : g.spacing;
      tol.m_abs = 1e-3 * ax_sampling;
      for (int ax : strided(p.get_min_axial_pos_num(seg), p.get_max_axial_pos_num(seg), ax_stride))
        {
          const auto& rp = p.get_all_ring_pairs_for_segment_axial_pos_num(seg, ax);
          const bool complete = complete_list(rp, sd);
          double mean_sum = 0, mean_diff = 0;
          for (auto& pr : rp)
            {
              mean_sum += g.z[pr.first] + g.z[pr.second];
              mean_diff += pr.second - pr.first;
            }
          if (!rp.empty())
            {
              mean_sum /= double(rp.size());
              mean_diff /= double(rp.size());
            }
          for (int v : strided(p.get_min_view_num(), p.get_max_view_num(), view_stride))
            for (int t = tmin; t <= tmax; ++t)
              {
                ++nbins;
                const Bin b(seg, v, ax, t, 0, 1.f);
                const double s = p.get_s(b), m = p.get_m(b), tth = p.get_tantheta(b), phi = p.get_phi(b);
                // ---- clause (3): uniform sampling (s = t x bin in float: rounding <= |t| 1.2e-7 bin per value) ----
                VF_CHECK(std::fabs(s - t * bin) <= (std::abs(t) + 1) * 2.4e-7 * bin, "arc-corrected s=", s, " != tang x sampling = ", t * bin);
                if (t < tmax)
                  {
                    const double s1 = p.get_s(Bin(seg, v, ax, t + 1));
                    VF_CHECK(s1 > s, "s not strictly increasing at ", bstr(b));
                    VF_CHECK(std::fabs((s1 - s) - bin) <= (std::abs(t) + 2) * 4.8e-7 * bin, "arc-corrected sampling s(t+1)-s(t)=", s1 - s, " != ", bin, " at ",
                             bstr(b));
                    stats().maxi("(3) arc-corrected |ds - sampling| / sampling", std::fabs((s1 - s) - bin) / bin);
                  }
                if (-t >= tmin && -t <= tmax)
                  VF_CHECK(p.get_s(Bin(seg, v, ax, -t)) == -p.get_s(b), "s(-t) != -s(t) at ", bstr(b));
                if (-seg >= p.get_min_segment_num() && -seg <= p.get_max_segment_num() && ax >= p.get_min_axial_pos_num(-seg)
                    && ax <= p.get_max_axial_pos_num(-seg))
                  {
                    const double tn = p.get_tantheta(Bin(-seg, v, ax, t));
                    VF_CHECK(std::fabs(tn + tth) <= 1e-6 * std::fabs(tth), "tantheta(-seg) != -tantheta(seg) at ", bstr(b), ": ", tth, " vs ", tn);
                  }
                if (ax < p.get_max_axial_pos_num(seg))
                  VF_CHECK(p.get_m(Bin(seg, v, ax + 1, t)) > m, "m not strictly increasing at ", bstr(b));
                if (v < p.get_max_view_num())
                  VF_CHECK(p.get_phi(Bin(seg, v + 1, ax, t)) > phi, "phi not strictly increasing at ", bstr(b));
                // ---- clause (2): arc-corrected bins have no detector list (the API exists only for detector-based data);
                // what remains of "agree with the detector positions" is axial: m and tan(theta) against the rings of the
                // bin's ring pairs, and phi against the detectors' angular positions of the (unmashed) views of the bin:
                // the LOR of unmashed view u and even tangential position joins detectors u+j and u-j+N/2, angle 2 pi u/N + tilt ----
                if (!rp.empty())
                  {
                    VF_CHECK(std::fabs(m - mean_sum / 2) <= tol.m_abs, "get_m=", m, " but the rings of ", bstr(b), " give m=", mean_sum / 2);
                    stats().maxi("(2) |m - m_det| / axial sampling", std::fabs(m - mean_sum / 2) / ax_sampling);
                    const double chord = 2 * std::sqrt(std::max(0., g.R * g.R - s * s));
                    const double tth_seg = (sd.lo + sd.hi) / 2. * g.spacing / chord;
                    VF_CHECK(std::fabs(tth - tth_seg) <= tol.tantheta_rel * std::fabs(tth_seg) + tol.tantheta_abs, "get_tantheta=", tth, " of ", bstr(b),
                             " but the ring differences ", sd.lo, "..", sd.hi, " contributing to the segment give ", tth_seg);
                    if (complete)
                      {
                        const double st = mean_diff * g.spacing / chord;
                        VF_CHECK(std::fabs(tth - st) <= tol.tantheta_rel * std::fabs(st) + tol.tantheta_abs, "get_tantheta=", tth, " but the rings of ", bstr(b),
                                 " give tan(theta)=", st);
                        if (std::fabs(st) > 1e-6)
                          stats().maxi("(2) rel |tantheta - tantheta_det|", std::fabs(tth - st) / std::fabs(st));
                      }
                    else
                      ++n_incomplete;
                  }
                {
                  const double ph = 2 * PI * (v * mash + (mash - 1) / 2.) / g.N + g.tilt;
                  const double dphi = std::fabs(wrap_pi(phi - ph));
                  VF_CHECK(dphi <= tol.phi_even, "get_phi=", phi, " but the detectors of the views of ", bstr(b), " give phi=", ph);
                  stats().maxi("(2) |phi - phi_det| even tang (rad)", dphi);
                }
                // ---- clause (1): exact.  ProjDataInfoCylindricalArcCorr::get_bin calls error("TODO NO TOF YET") for a
                // non-zero time difference (ProjDataInfoCylindricalArcCorr.cxx:105), so only the central TOF bin
                // (time difference 0) is inside the documented domain ----
                // (fixed defect C12-F5, replays/C12/fixed_F5_*.json: for view 0 and a positive azimuthal offset -- intrinsic tilt, or
                // the view-mashing offset -- the LOR's phi can come back from the representation change a rounding error BELOW
                // the offset; get_bin computed round(to_0_2pi(phi-offset)/sampling) = 2 x num_views and returned
                // view_num == num_views)
                if (v == 0 && p.get_azimuthal_angle_offset() > 0)
                  stats().count("(1) round trips of view 0 with positive azimuthal offset");
                {
                  const double dt = p.get_tof_delta_time(b);
                  VF_CHECK(dt == 0., "central TOF bin has time difference ", dt);
                  LORInAxialAndNoArcCorrSinogramCoordinates<float> lor;
                  p.get_LOR(lor, b);
                  const Bin nb = p.get_bin(lor, dt);
                  VF_TRY(accept_roundtrip(p, b, nb, true, "sinogram coordinates"));
                  LORAs2Points<float> lor2;
                  VF_CHECK(lor.get_intersections_with_cylinder(lor2, lor.radius()) == Succeeded::yes, "LOR of ", bstr(b), " does not intersect its own cylinder");
                  const Bin nb2 = p.get_bin(lor2, dt);
                  VF_TRY(accept_roundtrip(p, b, nb2, true, "two points"));
                  stats().count("(1) round trips");
                  stats().count("(1) round trips exact");
                }
              }
        }
    }
  stats().count("bins", nbins);
  stats().count("(2) bins with truncated/even ring-pair list (segment-level obliqueness only)", n_incomplete);
  (void)nv;
  return Result::pass();
}

// ---- blocks on cylindrical / generic ---------------------------------------------------------------------------
Result
check_blocks(const ProjDataInfoGenericNoArcCorr& p, const json& c)
{
  const Scanner& sc = *p.get_scanner_ptr();
  const int nv = p.get_num_views();
  const int N = sc.get_num_detectors_per_ring();
  const double spacing = sc.get_ring_spacing();
  const int ax_stride = c.value("ax_stride", 1), view_stride = c.value("view_stride", 1);
  const int tmin = p.get_min_tangential_pos_num(), tmax = p.get_max_tangential_pos_num();
  const double Reff = double(sc.get_inner_ring_radius()) + double(sc.get_average_depth_of_interaction());
  Tol tol;
  tol.s_abs = 1e-3 * Reff * PI / N;
  tol.m_abs = 1e-3 * spacing;
  tol.phi_half_step = PI / nv / 2;
  std::vector<DetectionPositionPair<>> dps;
  long nbins = 0;
  for (int seg = p.get_min_segment_num(); seg <= p.get_max_segment_num(); ++seg)
    for (int ax : strided(p.get_min_axial_pos_num(seg), p.get_max_axial_pos_num(seg), ax_stride))
      for (int v : strided(p.get_min_view_num(), p.get_max_view_num(), view_stride))
        for (int t = tmin; t <= tmax; ++t)
          {
            ++nbins;
            const Bin b(seg, v, ax, t, 0, 1.f);
            const double s = p.get_s(b), m = p.get_m(b), tth = p.get_tantheta(b), phi = p.get_phi(b);
            // ---- clause (2): end points from the scanner's detector map ----
            p.get_all_det_pos_pairs_for_bin(dps, b);
            VF_CHECK(dps.size() == 1, "uncompressed blocks bin with ", dps.size(), " detector pairs");
            const CartesianCoordinate3D<float> c1 = sc.get_coordinate_for_det_pos(dps[0].pos1());
            const CartesianCoordinate3D<float> c2 = sc.get_coordinate_for_det_pos(dps[0].pos2());
            const Line l = line_through(P3{ c1.x(), c1.y(), c1.z() }, P3{ c2.x(), c2.y(), c2.z() });
            // ProjDataInfoGeneric reports the LOR in the normalised representation of
            // LORInAxialAndNoArcCorrSinogramCoordinates (phi in [0,pi), LORCoordinates.inl get_sino_coords): the same
            // unoriented line is (s,phi,tantheta) or (-s,phi+pi,-tantheta).  The repository's test accepts both
            // (test_proj_data_info.cxx:722-771), so the comparison is modulo this symmetry.
            const bool flip = std::fabs(wrap_pi(phi - l.phi)) > PI / 2;
            const double sgn = flip ? -1. : 1.;
            if (flip)
              stats().count("blocks: LOR reported with reversed orientation");
            const double dphi = std::fabs(wrap_pi(phi - l.phi - (flip ? PI : 0.)));
            VF_CHECK(std::fabs(s - sgn * l.s) <= tol.s_abs, "get_s=", s, " but the detectors of ", bstr(b), " give s=", sgn * l.s);
            stats().maxi("(2) blocks |s - s_det| / central sampling", std::fabs(s - sgn * l.s) / (Reff * PI / N));
            VF_CHECK(std::fabs(m - l.m) <= tol.m_abs, "get_m=", m, " but the detectors of ", bstr(b), " give m=", l.m);
            stats().maxi("(2) blocks |m - m_det| / axial sampling", std::fabs(m - l.m) / spacing);
            VF_CHECK(dphi <= tol.phi_even, "get_phi=", phi, " but the detectors of ", bstr(b), " give phi=", l.phi);
            stats().maxi("(2) blocks |phi - phi_det| (rad)", dphi);
            // (fixed defect C12-F3, replays/C12/fixed_F3_*.json: ProjDataInfoGeneric::get_tantheta divided the axial distance of the
            // LOR's end points by the cylinder DIAMETER 2R instead of their transaxial distance 2 sqrt(R^2-s^2), i.e. it was too
            // small by sqrt(1-(s/R)^2) for off-centre bins)
            {
              const double rl = std::max(std::hypot(double(c1.x()), double(c1.y())), std::hypot(double(c2.x()), double(c2.y())));
              if (l.tantheta != 0 && (l.s / rl) * (l.s / rl) >= 2e-5)
                stats().count("(2) blocks: oblique off-centre bins");
              VF_CHECK(std::fabs(tth - sgn * l.tantheta) <= tol.tantheta_rel * std::fabs(l.tantheta) + tol.tantheta_abs, "get_tantheta=", tth,
                       " but the detectors of ", bstr(b), " give tan(theta)=", sgn * l.tantheta, " (s=", s, ")");
              if (l.tantheta != 0)
                stats().maxi("(2) blocks rel |tantheta - tantheta_det|", std::fabs(tth - sgn * l.tantheta) / std::fabs(l.tantheta));
            }
            // ---- clause (3) ----
            if (-seg >= p.get_min_segment_num() && -seg <= p.get_max_segment_num() && ax >= p.get_min_axial_pos_num(-seg)
                && ax <= p.get_max_axial_pos_num(-seg))
              {
                const double tn = p.get_tantheta(Bin(-seg, v, ax, t));
                VF_CHECK(std::fabs(tn + tth) <= 1e-4 * std::fabs(tth) + 1e-7, "tantheta(-seg) != -tantheta(seg) at ", bstr(b), ": ", tth, " vs ", tn);
              }
            // m is the axial position of the point of the line closest to the scanner axis: an interpolation between the two rings
            // (hence increasing with the axial position, also with block gaps) only when that point lies between the detectors;
            // for nearly tangential LORs through crystals at different radii it is an extrapolation and need not be monotone
            if (ax < p.get_max_axial_pos_num(seg) && l.between)
              VF_CHECK(p.get_m(Bin(seg, v, ax + 1, t)) > m, "m not strictly increasing at ", bstr(b));
            // ---- clause (1) ----
            {
              LORInAxialAndNoArcCorrSinogramCoordinates<float> lor;
              p.get_LOR(lor, b);
              LORAs2Points<float> lor2;
              VF_CHECK(lor.get_intersections_with_cylinder(lor2, lor.radius()) == Succeeded::yes, "LOR of ", bstr(b), " does not intersect its own cylinder");
              // FINDING C12-F4: ProjDataInfoGenericNoArcCorr::get_bin is not an inverse of its own get_LOR: it dynamic_casts the
              // LOR to LORAs2Points (std::bad_cast for the type get_LOR produces) and looks the two points up in the table of
              // crystal centres after rounding to 3/2/1 decimals, whereas the LOR's end points lie on a cylinder through the
              // outer of the two crystals (ProjDataInfoGeneric::get_LOR).  The round trip therefore reports a miss for most bins
              // and occasionally a bin two tangential positions away.  Excluded by construction for blocks/generic data;
              // the outcome classes are still counted.
              if (exclusions_on("F4"))
                {
                  const Bin nb2 = p.get_bin(lor2, 0.);
                  const Result rr = accept_roundtrip(p, b, nb2, false, "two points, blocks");
                  count_excluded(rr.failed() ? (nb2.get_bin_value() > 0 ? "C12-F4 blocks round trip: wrong bin" : "C12-F4 blocks round trip: miss")
                                           : "C12-F4 blocks round trip: would pass");
                }
              else
                {
                  const Bin nb2 = p.get_bin(lor2, 0.);
                  VF_TRY(accept_roundtrip(p, b, nb2, false, "two points"));
                  const bool two_points_only = g_lift_only == "F4a" || (std::getenv("C12_NO_EXCLUDE") && std::string(std::getenv("C12_NO_EXCLUDE")) == "F4a");
                  if (!two_points_only) // (development aid: C12_NO_EXCLUDE=F4a checks the two-point representation only)
                    {
                      const Bin nb = p.get_bin(lor, 0.);
                      VF_TRY(accept_roundtrip(p, b, nb, false, "sinogram coordinates"));
                    }
                }
              // behind the exclusion: what the function does support -- an LOR through the exact crystal centres of the bin's
              // detector pair must come back as exactly this bin (uncompressed data: one pair per bin)
              const Bin nb3 = p.get_bin(LORAs2Points<float>(c1, c2), 0.);
              VF_CHECK(nb3.get_bin_value() > 0 && nb3.segment_num() == seg && nb3.axial_pos_num() == ax && nb3.view_num() == v && nb3.tangential_pos_num() == t,
                       "get_bin of the LOR through the crystal centres of ", bstr(b), " returns ", bstr(nb3), " value ", nb3.get_bin_value());
              stats().count("(1) round trips");
            }
          }
  stats().count("bins", nbins);
  return Result::pass();
}

// ---- clause (4): arc correction --------------------------------------------------------------------------------
Result
check_arc_correction(const shared_ptr<ProjDataInfo>& noarc_in_sptr, const json& a)
{
  // asymmetric tangential range of the input: a copy of the sampling with its own cuts (the object under test is not changed)
  shared_ptr<ProjDataInfo> noarc_sptr = noarc_in_sptr;
  {
    const int n = noarc_in_sptr->get_num_tangential_poss();
    const int lo = n > 1 ? a.value("tang_lo_cut", 0) % n : 0;
    const int hi = n - lo > 1 ? a.value("tang_hi_cut", 0) % (n - lo) : 0;
    if (lo != 0 || hi != 0)
      {
        noarc_sptr = noarc_in_sptr->create_shared_clone();
        noarc_sptr->set_min_tangential_pos_num(noarc_in_sptr->get_min_tangential_pos_num() + lo);
        noarc_sptr->set_max_tangential_pos_num(noarc_in_sptr->get_max_tangential_pos_num() - hi);
      }
    if (noarc_sptr->get_min_tangential_pos_num() != -noarc_sptr->get_max_tangential_pos_num()
        && noarc_sptr->get_min_tangential_pos_num() != -noarc_sptr->get_max_tangential_pos_num() - 1)
      stats().cls(noarc_sptr->get_min_tangential_pos_num() > 0 || noarc_sptr->get_max_tangential_pos_num() < 0
                      ? "arc-correction input: asymmetric tangential range not containing 0"
                      : "arc-correction input: asymmetric tangential range");
  }
  const ProjDataInfoCylindricalNoArcCorr& pn = dynamic_cast<const ProjDataInfoCylindricalNoArcCorr&>(*noarc_sptr);
  const Scanner& sc = *pn.get_scanner_ptr();
  const CylGeo g(sc);
  const int variant = a.value("variant", 0);
  const double default_bin = sc.get_default_bin_size();
  ArcCorrection arc;
  double want_bin = default_bin;
  int want_n = -1;
  Succeeded ok = Succeeded::no;
  if (variant == 0)
    ok = arc.set_up(noarc_sptr);
  else if (variant == 1)
    {
      want_n = a["ntang"].get<int>();
      ok = arc.set_up(noarc_sptr, want_n);
    }
  else
    {
      want_n = a["ntang"].get<int>();
      // bin_mode 1: the central bin width of the input (what ArcCorrection itself uses for scanners without default bin size)
      want_bin = a.value("bin_mode", 0) == 1 ? double(pn.get_sampling_in_s(Bin(0, 0, 0, 0))) : default_bin * a["bin_rel"].get<double>();
      ok = arc.set_up(noarc_sptr, want_n, float(want_bin));
    }
  VF_CHECK(ok == Succeeded::yes, "ArcCorrection::set_up failed");
  const ProjDataInfoCylindricalArcCorr& pa = arc.get_arc_corrected_proj_data_info();
  const double delta = pa.get_tangential_sampling();
  VF_CHECK(std::fabs(delta - want_bin) <= 1e-6 * want_bin, "arc-corrected sampling ", delta, " != requested ", want_bin);
  if (want_n > 0)
    VF_CHECK(pa.get_num_tangential_poss() == want_n, "arc-corrected data have ", pa.get_num_tangential_poss(), " tangential positions, requested ", want_n);
  const int imin = pn.get_min_tangential_pos_num(), imax = pn.get_max_tangential_pos_num();
  const int omin = pa.get_min_tangential_pos_num(), omax = pa.get_max_tangential_pos_num();
  // bin edges (double): input bin j covers R sin((j-1/2) pi/N) .. R sin((j+1/2) pi/N)  (the s-range of the detector pair
  // angles belonging to tangential position j, get_s() being the value at the centre angle); output bin t covers (t -+ 1/2) delta
  auto in_edge = [&](int j) { return g.R * std::sin((j - .5) * PI / g.N); };
  auto out_edge = [&](int t) { return (t - .5) * delta; };
  const double in_lo = in_edge(imin), in_hi = in_edge(imax + 1);
  // (fixed defect C12-F1, replays/C12/fixed_F1_*.json: ArcCorrection::set_up put the upper edge of the LAST output bin at
  // (max+1.5) x sampling instead of (max+0.5) x sampling, so that bin collected twice its width whenever the input reached it)
  const int omax_checked = omax;
  if (out_edge(omax) < in_hi)
    stats().count("(4) set-ups whose last arc-corrected bin is reached by the input");
  const double out_lo = out_edge(omin), out_hi = out_edge(omax_checked + 1);
  if (variant == 0 && imax + 2 <= g.N / 2 && imin - 2 >= -g.N / 2)
    { // documented (ArcCorrection.h): "num_arccorrected_bins is chosen such that the new (radial) FOV is slightly larger than the
      // one covered by the original data".  The implementation looks two tangential positions beyond the range, which is only
      // meaningful while those stay within a quarter turn (sin monotone): asked only then.
      VF_CHECK(out_lo <= in_lo && out_edge(omax + 1) >= in_hi, "default arc-corrected range [", out_lo, ",", out_edge(omax + 1),
               "] does not cover the input range [", in_lo, ",", in_hi, "]");
    }
  // Tolerances of clause (4), derived from the implementation's documented numerics:
  //  * overlap_interpolate ignores overlaps smaller than epsilon = min(average output bin, average input bin)/10000
  //    (overlap_interpolate.inl:83-86 "find small number for comparisons"): an output bin can lose at most its first and its last
  //    overlap, an input bin likewise -> terms 2 eps/delta (uniformity) and 2 eps sum(in) (integral);
  //  * ArcCorrection keeps the bin edges as float: an edge at distance e from the centre is off by <= 6e-8 e, the width of an
  //    output bin by <= 1.2e-7 e, while the result is divided by the exact sampling -> term edge_rel = 2.4e-7 max|edge| / delta
  //    (2x margin);  float accumulation over the <= ~1000 overlaps of a row: 1e-5.
  const double eps = std::min((out_edge(omax + 1) - out_lo) / (omax - omin + 1), (in_hi - in_lo) / (imax - imin + 1)) / 10000.;
  const double max_edge = std::max(std::max(std::fabs(out_lo), std::fabs(out_edge(omax + 1))), g.R);
  const double edge_rel = 2.4e-7 * max_edge / delta;
  const double tol_uniform = 2 * eps / delta + edge_rel + 1e-5;
  const double edge_tol = 1e-6 * g.R + 1e-5 * delta; // float rounding of the edges: "fully covered" is decided with this margin
  SplitMix rng(a.value("seed", uint64_t(1)));
  const int nviews = pn.get_num_views();

  // two sinograms: constant rows (a different constant per view), random rows (non-negative, or signed when a["signed"])
  // of segment 0 / axial position 0, of the last axial position of the last segment, or of the first of the first segment
  const bool signed_rows = a.value("signed", false);
  const int sino_sel = a.value("sino_sel", 0);
  const bool has_seg0 = pn.get_min_segment_num() <= 0 && pn.get_max_segment_num() >= 0;
  const int sino_seg = sino_sel == 1 ? pn.get_max_segment_num() : ((sino_sel == 2 || !has_seg0) ? pn.get_min_segment_num() : 0);
  const int sino_ax = sino_sel == 1 ? pn.get_max_axial_pos_num(sino_seg) : pn.get_min_axial_pos_num(sino_seg);
  if (signed_rows)
    stats().cls("arc-correction rows: signed values, constants 0 and < 0");
  if (sino_seg != 0 || sino_ax != 0)
    stats().cls("arc-correction sinogram: not (segment 0, axial position 0)");
  Sinogram<float> in_const = pn.get_empty_sinogram(sino_ax, sino_seg, false, 0);
  Sinogram<float> in_rand = pn.get_empty_sinogram(sino_ax, sino_seg, false, 0);
  std::vector<double> consts(nviews);
  for (int v = 0; v < nviews; ++v)
    {
      consts[v] = v == 0 ? 1. : rng.real(0.01, 1000.);
      if (signed_rows && v % 3 == 1)
        consts[v] = 0.;
      if (signed_rows && v % 3 == 2)
        consts[v] = -consts[v];
      const int mode = int(rng.range(0, 3)); // 0 dense, 1 sparse, 2 edge heavy, 3 single spike
      const int spike = int(rng.range(imin, imax));
      for (int j = imin; j <= imax; ++j)
        {
          in_const[v][j] = float(consts[v]);
          double val = rng.real(0., 10.);
          if (signed_rows && rng.range(0, 1) == 1)
            val = -val;
          if (mode == 1 && rng.range(0, 3) != 0)
            val = 0;
          if (mode == 2)
            val *= std::pow(std::fabs(double(j)) / std::max(1, std::max(-imin, imax)), 3.);
          if (mode == 3)
            val = j == spike ? 100. : 0.;
          in_rand[v][j] = float(val);
        }
    }
  const Sinogram<float> out_const = arc.do_arc_correction(in_const);
  const Sinogram<float> out_rand = arc.do_arc_correction(in_rand);
  VF_CHECK(out_const.get_min_tangential_pos_num() == omin && out_const.get_max_tangential_pos_num() == omax, "arc-corrected sinogram has the wrong range");
  VF_CHECK(out_rand.get_segment_num() == sino_seg && out_rand.get_axial_pos_num() == sino_ax, "arc-corrected sinogram of segment ", sino_seg, " axial position ",
           sino_ax, " is labelled segment ", out_rand.get_segment_num(), " axial position ", out_rand.get_axial_pos_num());
  long covered = 0;
  for (int v = 0; v < nviews; ++v)
    {
      // uniform -> uniform on fully covered output bins
      for (int t = omin; t <= omax_checked; ++t)
        {
          const bool fully = out_edge(t) >= in_lo + edge_tol && out_edge(t + 1) <= in_hi - edge_tol;
          const bool outside = out_edge(t + 1) <= in_lo - edge_tol || out_edge(t) >= in_hi + edge_tol;
          const double o = out_const[v][t];
          if (consts[v] == 0.)
            { // a row of zeros (signed rows only): every output bin is exactly 0
              VF_CHECK(o == 0., "arc correction of a row of zeros gives ", o, " at output bin ", t, " (view ", v, ")");
              if (fully)
                ++covered;
            }
          else if (fully)
            {
              ++covered;
              const double rel = std::fabs(o - consts[v]) / std::fabs(consts[v]);
              VF_CHECK(rel <= tol_uniform, "arc correction of the constant row ", consts[v], " gives ", o, " at fully covered output bin ", t, " (view ", v,
                       ", rel. error ", rel, ")");
              stats().maxi("(4) uniform row: max rel error on covered bins", rel);
              stats().maxi("(4) uniform row: max rel error / tolerance", rel / tol_uniform);
            }
          else if (outside)
            VF_CHECK(o == 0., "arc correction gives ", o, " at output bin ", t, " outside the input range");
          else
            VF_CHECK((consts[v] > 0 ? o >= 0. : o <= 0.) && std::fabs(o) <= std::fabs(consts[v]) * (1 + tol_uniform), "arc correction of the constant row ", consts[v], " gives ", o, " at partially covered output bin ", t);
        }
      // integral over s preserved over the covered range
      for (int which = 0; which < 2; ++which)
        {
          const Sinogram<float>& in = which ? in_rand : in_const;
          const Sinogram<float>& out = which ? out_rand : out_const;
          double sum_out = 0, sum_in = 0, sum_in_vals = 0, total = 0;
          for (int t = omin; t <= omax_checked; ++t)
            sum_out += double(out[v][t]) * delta;
          for (int j = imin; j <= imax; ++j)
            {
              const double lo = std::max(in_edge(j), out_lo), hi = std::min(in_edge(j + 1), out_hi);
              if (hi > lo)
                sum_in += double(in[v][j]) * (hi - lo);
              sum_in_vals += std::fabs(double(in[v][j])); // (magnitudes: the rows may be signed)
              total += std::fabs(double(in[v][j])) * (in_edge(j + 1) - in_edge(j));
            }
          // edges inside STIR are float: each input value may gain/lose edge_tol at the two ends of the covered range
          const double tolI = 2 * eps * sum_in_vals + (edge_rel + 1e-5) * total + 2 * edge_tol * (std::fabs(double(in[v][imin])) + std::fabs(double(in[v][imax])) + 10.);
          VF_CHECK(std::fabs(sum_out - sum_in) <= tolI, "arc correction does not preserve the integral over s (view ", v, which ? ", random row" : ", constant row",
                   "): out ", sum_out, " in ", sum_in, " tolerance ", tolI);
          if (total > 0)
            {
              stats().maxi("(4) integral: max |out-in| / total", std::fabs(sum_out - sum_in) / total);
              stats().maxi("(4) integral: max |out-in| / tolerance", std::fabs(sum_out - sum_in) / tolI);
            }
        }
    }
  // the viewgram interface must do the same per row
  {
    Viewgram<float> vin = pn.get_empty_viewgram(0, sino_seg, false, 0);
    for (int ax = vin.get_min_axial_pos_num(); ax <= vin.get_max_axial_pos_num(); ++ax)
      for (int j = imin; j <= imax; ++j)
        vin[ax][j] = in_rand[ax % nviews][j];
    const Viewgram<float> vout = arc.do_arc_correction(vin);
    for (int ax = vin.get_min_axial_pos_num(); ax <= vin.get_max_axial_pos_num(); ++ax)
      for (int t = omin; t <= omax; ++t)
        VF_CHECK(vout[ax][t] == out_rand[ax % nviews][t], "arc correction of a viewgram row differs from the same row in a sinogram at ax=", ax, " t=", t);
  }
  stats().count("(4) covered output bins (uniformity)", covered);
  stats().cls(cat("arc-correction set_up variant ", variant));
  if (covered == 0)
    stats().count("(4) set-ups without a fully covered output bin");
  return Result::pass();
}

Result check_clauses(const shared_ptr<ProjDataInfo>& pdi, const shared_ptr<Scanner>& sc, const json& c);

Result
check(const json& c)
{
  g_lift_only = c.value("lift_only", std::string());
  shared_ptr<Scanner> sc;
  shared_ptr<ProjDataInfo> pdi;
  try
    {
      sc = vg::make_scanner(c["scanner"]);
      if (sc->check_consistency() != Succeeded::yes)
        return Result::reject("scanner inconsistent");
      pdi = vg::make_pdi(sc, c["pdi"]);
    }
  catch (const std::exception& e)
    {
      return Result::reject(std::string("construction rejected: ") + e.what());
    }
  if (c.contains("arc_bin_size"))
    if (auto p = dynamic_cast<ProjDataInfoCylindricalArcCorr*>(pdi.get()))
      p->set_tangential_sampling(c["arc_bin_size"].get<float>());
  // ---- the ring differences of each segment: the harness's own statement from (span, max ring difference, trim) (c12_history.h (v)),
  // so that the own Michelogram of check_contributing_ring_pairs and the obliqueness clauses do not take the segment's range of ring
  // differences from the code under test; objects reached through a history must equal this fresh twin
  VF_TRY(vh::check_own_segments(*pdi, c["pdi"]));
  VF_TRY(vh::check_own_sampling(*pdi, *sc, c["pdi"]));
  if (pdi->get_min_segment_num() > 0 || pdi->get_max_segment_num() < 0)
    stats().cls("segment range without segment 0");
  else if (pdi->get_min_segment_num() != -pdi->get_max_segment_num())
    stats().cls("segment range not symmetric");
  if (c["scanner"]["type"].get<int>() < 0)
    {
      const int nr = sc->get_num_rings();
      if (nr == 5 || nr == 7 || nr == 10 || nr == 11)
        stats().cls("5, 7, 10 or 11 rings");
    }
  // ---- object history: the object under test is derived from another, used object; pdi (constructed directly) is its fresh twin ----
  // (the history works on its OWN Scanner object: the fresh twin shares nothing with the objects of the history)
  const bool with_history = c.contains("hist") && c["hist"].is_object();
  shared_ptr<Scanner> sc_hist;
  const shared_ptr<ProjDataInfo> fresh = pdi;
  vh::Alias al;
  if (with_history)
    {
      const json& h = c["hist"];
      shared_ptr<ProjDataInfo> derived;
      sc_hist = vg::make_scanner(c["scanner"]);
      vh::DiffOpts o;
      o.ax_stride = c.value("ax_stride", 1);
      o.view_stride = c.value("view_stride", 1);
      o.all_pairs = false; // all detector pairs x 4 ring pairs x all TOF indices (C01 does all ring pairs)
      {
        const double nd = sc->get_num_detectors_per_ring();
        const double ntof = fresh->is_tof_data() ? sc->get_max_num_timing_poss() + 3 : 1;
        o.det_stride = std::max(1, int(std::ceil(nd * nd * 5 * ntof / 2e6)));
      }
      // aliasing re-checks (c12_history.h (iv)): the same differential, on coarser sets of bins and detector pairs for all but the
      // smallest scanners (the ring-pair tables and the ring pair -> (segment, axial position) map are always compared completely)
      al.scanner_spec = c["scanner"];
      vh::set_alias_opts(al, o, *sc);
      VF_TRY(vh::derive(derived, sc_hist, h, c["pdi"]["trim"], c.contains("arc_bin_size") ? c["arc_bin_size"] : json(), &al));
      vh::count_history_classes(h);
      VF_TRY(vh::diff_twin(*derived, *fresh, o));
      if (h.contains("subset"))
        {
          const int ns = std::max(1, std::min(h["subset"].value("num_subsets", 1), fresh->get_num_views()));
          const int first = h["subset"].value("subset", 0) % ns;
          std::vector<int> views;
          for (int v = first; v < fresh->get_num_views(); v += ns)
            views.push_back(v);
          VF_TRY(vh::check_subset(derived, *fresh, views, o));
          stats().cls("history: + ProjDataInfoSubsetByView of the derived object");
        }
      pdi = derived;
    }
  else
    stats().cls("history: none (fresh object)");
  const Result rc = check_clauses(pdi, sc, c);
  if (rc.kind != Result::PASS || !with_history)
    return rc;
  // ---- aliasing: every object that was kept while its copy / original was changed and used still answers like a fresh twin of its
  // own settings; then the object under test once more (the re-checks rebuilt the lazy tables of the kept objects); the Scanner
  // object of the history is unchanged
  VF_TRY(vh::recheck_all(al));
  if (!al.kept.empty())
    {
      const Result rt = vh::diff_twin(*pdi, *fresh, al.light);
      if (rt.failed())
        return Result::fail("ALIASING: the object under test after the kept objects were re-checked :: " + rt.msg);
    }
  VF_TRY(vh::scanner_unchanged(*sc_hist, c["scanner"]));
  return Result::pass();
}

//! all clauses of the property on one object
Result
check_clauses(const shared_ptr<ProjDataInfo>& pdi, const shared_ptr<Scanner>& sc, const json& c)
{
  if (pdi->is_tof_data())
    stats().cls(pdi->get_tof_mash_factor() > 1 ? "tof mashed" : "tof");
  VF_TRY(check_tof(*pdi));
  Result r;
  if (auto p = dynamic_cast<ProjDataInfoCylindricalArcCorr*>(pdi.get()))
    {
      stats().cls("cylindrical arc-corrected");
      r = check_arc(*p, c);
    }
  else if (auto p = dynamic_cast<const ProjDataInfoCylindricalNoArcCorr*>(pdi.get()))
    {
      stats().cls("cylindrical not arc-corrected");
      r = check_noarc(*p, c);
    }
  else if (auto p = dynamic_cast<const ProjDataInfoGenericNoArcCorr*>(pdi.get()))
    {
      stats().cls("blocks");
      r = check_blocks(*p, c);
    }
  else
    return Result::reject("unknown projection data type");
  if (r.failed())
    return r;
  if (c["pdi"]["span"].get<int>() > 1)
    stats().cls(c["pdi"]["span"].get<int>() % 2 ? "odd span>1" : "even span");
  // clause (4) on the not arc-corrected twin of the configuration
  if (sc->get_scanner_geometry() == "Cylindrical" && c.contains("arc"))
    {
      shared_ptr<ProjDataInfo> noarc;
      if (dynamic_cast<const ProjDataInfoCylindricalNoArcCorr*>(pdi.get()))
        noarc = pdi;
      else
        {
          json pj = c["pdi"];
          pj["arccorr"] = false;
          pj["tang"] = std::min(pj["tang"].get<int>(), sc->get_max_num_non_arccorrected_bins());
          noarc = vg::make_pdi(sc, pj);
        }
      return check_arc_correction(noarc, c["arc"]);
    }
  return Result::pass();
}

void set_strides(json& c, double budget);
void add_history(Src& s, json& c, const shared_ptr<Scanner>& sc, int num, int den);

json
gen_arc(Src& s, int ntang_in)
{
  json a;
  a["seed"] = s.seed64();
  a["variant"] = int(s.range(0, 2));
  a["ntang"] = int(s.range(1, std::max(2, 2 * ntang_in)));
  a["bin_mode"] = s.chance(1, 4) ? 1 : 0;
  a["bin_rel"] = s.pick(std::vector<double>{ 1., 0.5, 2., 0.3, 3., 1.37, 0.71 });
  // (domain audit) sub-domains the rows of clause (4) never had: an input with an ASYMMETRIC tangential range (set_min/max_tangential_pos_num
  // are public; cuts are interpreted modulo the number of positions, at least one stays), signed rows and constant rows with the constants 0
  // and < 0 (arc correction is linear interpolation: nothing documents a sign restriction), a sinogram other than (segment 0, axial position 0)
  if (s.chance(1, 3))
    {
      a["tang_lo_cut"] = int(s.chance(1, 3) ? 0 : s.range(1, 40));
      a["tang_hi_cut"] = int(s.chance(1, 3) ? 0 : s.range(1, 40));
    }
  a["signed"] = s.chance(1, 3);
  a["sino_sel"] = int(s.range(0, 2));
  return a;
}

// with probability num/den the object under test gets a history (c12_history.h); a quarter of those additionally a
// ProjDataInfoSubsetByView of the derived object
void
add_history(Src& s, json& c, const shared_ptr<Scanner>& sc, int num, int den)
{
  if (!s.chance(num, den))
    return;
  vh::HistOpts ho;
  ho.with_subsets = true;
  if (c["pdi"]["arccorr"].get<bool>())
    { // the source object of a history stays inside the ring as well (see gen(): get_LOR/get_tantheta assert |s| < R)
      const double R = double(sc->get_inner_ring_radius()) + double(sc->get_average_depth_of_interaction());
      const double bin = c.contains("arc_bin_size") ? c["arc_bin_size"].get<double>() : double(sc->get_default_bin_size());
      ho.arc_max_tang = bin > 0 ? std::max(1, 2 * (int(std::floor(0.97 * R / bin)) - 1) + 1) : 0;
    }
  json h = vh::gen_history(s, sc, c["pdi"], ho);
  if (h.is_null())
    return;
  if (s.chance(1, 4))
    {
      const int ns = int(s.range(1, 4));
      h["subset"] = { { "num_subsets", ns }, { "subset", int(s.range(0, ns - 1)) } };
    }
  c["hist"] = h;
}

json
gen(Src& s, int size)
{
  json c;
  vg::ScannerOpts so;
  so.max_ndet = size < 20 ? 24 : (size < 45 ? 64 : (size < 75 ? 128 : 256));
  so.max_rings = size < 20 ? 3 : (size < 45 ? 6 : (size < 75 ? 9 : 12));
  so.allow_blocks = true;
  so.allow_predefined = false;
  c["scanner"] = vg::gen_scanner(s, so);
  // (domain audit) vg::gen_scanner builds the number of rings as a product of small block / bucket counts (1..4 x 1..2 x 1..3): 5, 7, 10
  // and 11 rings were never generated.  One block of that many crystals, one block per bucket.
  if (s.chance(1, 8))
    {
      std::vector<int> rs;
      for (int r : { 5, 7, 10, 11 })
        if (r <= so.max_rings)
          rs.push_back(r);
      if (!rs.empty())
        {
          const int r = s.pick(rs);
          c["scanner"]["rings"] = r;
          c["scanner"]["ax_cryst_per_block"] = r;
          c["scanner"]["ax_blocks_per_bucket"] = 1;
        }
    }
  shared_ptr<Scanner> sc = vg::make_scanner(c["scanner"]);
  vg::PdiOpts po;
  po.allow_arccorr = true;
  c["pdi"] = vg::gen_pdi(s, *sc, po);
  const bool cyl = sc->get_scanner_geometry() == "Cylindrical";
  if (!cyl)
    {
      // ProjDataInfoGeneric::get_LOR (hence get_s/get_m/get_phi/get_tantheta) works for span 1 only:
      // get_ring_pair_for_segment_axial_pos_num calls error("... does not work for data with axial compression")
      // (ProjDataInfoCylindrical.cxx:341), "currently restricted to span=1" (ProjDataInfoGeneric.inl)
      c["pdi"]["span"] = 1;
    }
  // (domain audit) segment ranges that are not symmetric or do not contain segment 0 (ProjDataInfo::reduce_segment_range accepts any
  // sub-range: its only preconditions are the assertions min >= get_min_segment_num(), max <= get_max_segment_num()); vg::gen_pdi without
  // allow_asym_segments only produces -k..k.  Chosen inside the harness's own segment table so that vg::make_pdi's clamping cannot empty it.
  {
    vh::OwnSegments os;
    json untrimmed = c["pdi"];
    untrimmed["trim"] = json::object();
    if (vh::own_segments(os, untrimmed) && os.max_seg >= 1 && s.chance(1, 8))
      {
        const int J = os.max_seg;
        int a = int(s.range(-J, J)), b = int(s.range(-J, J));
        if (a > b)
          std::swap(a, b);
        if (a == -b)
          a = std::min(b, a + 1); // (symmetric ranges are what gen_pdi makes)
        // known finding C12-A1 (domain audit): ProjDataInfoCylindricalArcCorr::get_bin starts its search for the segment at segment 0
        // and indexes the ring-difference tables with it (ProjDataInfoCylindricalArcCorr.cxx:183-197): out-of-range read (debug:
        // assertion) for arc-corrected data whose segment range does not contain 0.  Excluded by construction, exactly that class:
        // arc-corrected AND 0 outside a..b -> the range is extended to contain 0.  Probe: known/C12/A1_*.json
        // (repaired: the exclusion is off; the probe is the regression input replays/C12/fixed_A1_*.json)
        if (A1_EXCLUDED && c["pdi"]["arccorr"].get<bool>() && (a > 0 || b < 0) && exclusions_on("A1"))
          {
            a = std::min(a, 0);
            b = std::max(b, 0);
            count_excluded("C12-A1 arc-corrected data with a segment range without segment 0 (range extended to segment 0)");
          }
        c["pdi"]["trim"] = { { "max_seg", b }, { "min_seg", a }, { "tang_cut", int(s.range(0, 2)) } };
      }
  }
  if (c["pdi"]["arccorr"].get<bool>())
    {
      // arc-corrected: random bin size and number of bins, kept inside the ring: get_LOR/get_tantheta assert |s| < R
      // (ProjDataInfoCylindrical.cxx get_LOR, ProjDataInfoCylindrical.inl get_tantheta)
      const double R = double(sc->get_inner_ring_radius()) + double(sc->get_average_depth_of_interaction());
      const double bin = sc->get_default_bin_size() * s.pick(std::vector<double>{ 1., 1., 0.5, 2., 0.37, 1.63 });
      c["arc_bin_size"] = float(bin);
      const int max_half = std::max(0, int(std::floor(0.97 * R / bin)) - 1);
      c["pdi"]["tang"] = int(s.range(1, std::max(1, std::min(2 * max_half + 1, 2 * sc->get_max_num_non_arccorrected_bins()))));
    }
  if (cyl)
    c["arc"] = gen_arc(s, sc->get_max_num_non_arccorrected_bins());
  set_strides(c, 3e6); // generated scanners are small: strides stay 1 except for many TOF bins x many rings
  add_history(s, c, sc, 1, 2);
  return c;
}

// strides for the largest configurations: work ~ bins x (1 + 0.6 x TOF bins visited); strides are odd so that both
// parities of the axial position (direct/cross planes of compressed data) and of the view keep being visited
void
set_strides(json& c, double budget)
{
  shared_ptr<Scanner> sc = vg::make_scanner(c["scanner"]);
  if (sc->check_consistency() != Succeeded::yes)
    return;
  shared_ptr<ProjDataInfo> p;
  try
    {
      p = vg::make_pdi(sc, c["pdi"]);
    }
  catch (...)
    {
      return;
    }
  int tof_stride = 1;
  const int ntof = p->get_num_tof_poss();
  if (ntof > 15)
    tof_stride = (ntof + 10) / 11;
  const double ntof_used = std::ceil(double(ntof) / tof_stride) + 1;
  double sinos = 0;
  for (int seg = p->get_min_segment_num(); seg <= p->get_max_segment_num(); ++seg)
    sinos += p->get_num_axial_poss(seg);
  const bool arc = c["pdi"]["arccorr"].get<bool>();
  const double per_bin = arc ? 1. : 1 + 0.6 * ntof_used;
  const double total = sinos * p->get_num_views() * p->get_num_tangential_poss() * per_bin;
  int ax_stride = 1, view_stride = 1;
  if (total > budget)
    {
      const double f = total / budget;
      ax_stride = int(std::ceil(std::sqrt(f)));
      if (ax_stride % 2 == 0)
        ++ax_stride;
      view_stride = int(std::ceil(f / ax_stride));
      if (view_stride % 2 == 0)
        ++view_stride;
    }
  c["ax_stride"] = ax_stride;
  c["view_stride"] = view_stride;
  c["tof_stride"] = tof_stride;
}

// fixed cases: every predefined scanner at a few samplings (strided, see set_strides)
std::vector<json>
fixed_cases(int tier)
{
  std::vector<json> v;
  struct Cfg
  {
    int span, mash, tofmash; // tofmash: 0 non-TOF, 1 smallest valid factor, 2 a larger valid factor
    bool arc;
    double arc_bin_rel;
  };
  std::vector<Cfg> cfgs = { { 1, 1, 1, false, 1. }, { 3, 2, 2, false, 1. }, { 5, 1, 0, true, 1. } };
  if (tier == 1)
    {
      cfgs.push_back({ 2, 1, 0, false, 1. });
      cfgs.push_back({ 7, 4, 2, false, 1. });
      cfgs.push_back({ 4, 3, 1, true, 1.7 });
      cfgs.push_back({ 11, 1, 1, false, 1. });
    }
  const double budget = tier == 1 ? 1.5e7 : 3e5;
  for (int t : vg::predefined_types())
    {
      shared_ptr<Scanner> sc(new Scanner(static_cast<Scanner::Type>(t)));
      const int rings = sc->get_num_rings();
      const int ndet = sc->get_num_detectors_per_ring();
      const bool cyl = sc->get_scanner_geometry() == "Cylindrical";
      int ci = 0;
      for (auto& cf : cfgs)
        {
          ++ci;
          if (!cyl && (cf.arc || ci > 2))
            continue;
          json c;
          c["scanner"] = { { "type", t } };
          int span = std::min(cf.span, 2 * rings - 1);
          if (!cyl)
            span = 1; // see gen(): the LOR code of blocks/generic data reports an error for axial compression
          int mash = cyl ? cf.mash : 1;
          while ((ndet / 2) % mash != 0)
            --mash;
          int tofmash = 0;
          if (sc->is_tof_ready() && cyl && cf.tofmash > 0)
            {
              // valid factors give an odd number of TOF bins (else ProjDataInfo::set_tof_mash_factor calls error())
              const int N = sc->get_max_num_timing_poss();
              std::vector<int> ok;
              for (int m = 1; m <= N; ++m)
                if (N % m == 0 && (N / m) % 2 == 1)
                  ok.push_back(m);
              if (!ok.empty())
                tofmash = cf.tofmash == 1 ? ok.front() : ok[std::min(ok.size() - 1, ok.size() / 2 + 1)];
            }
          const int max_delta = std::max((span - 1) / 2, std::min(rings - 1, tier == 1 ? rings - 1 : 11));
          int tang = sc->get_max_num_non_arccorrected_bins();
          if (cf.arc)
            {
              const double bin = sc->get_default_bin_size() * cf.arc_bin_rel;
              if (!(bin > 0))
                continue;
              const double R = double(sc->get_inner_ring_radius()) + double(sc->get_average_depth_of_interaction());
              tang = std::min(sc->get_default_num_arccorrected_bins(), 2 * (int(std::floor(0.97 * R / bin)) - 1) + 1);
              if (cf.arc_bin_rel != 1.)
                c["arc_bin_size"] = float(bin);
            }
          c["pdi"] = { { "span", span },     { "max_delta", max_delta }, { "views", ndet / 2 / mash }, { "tang", tang },
                       { "arccorr", cf.arc }, { "tof_mash", tofmash },    { "trim", json::object() } };
          if (ci == 2 && cyl)
            c["pdi"]["trim"] = { { "max_seg", 1 }, { "tang_cut", 1 } };
          if (cyl)
            {
              PrngSrc ps(uint64_t(t) * 131 + uint64_t(ci));
              c["arc"] = gen_arc(ps, tang);
              if (!(sc->get_default_bin_size() > 0))
                c["arc"]["bin_mode"] = 1;
            }
          set_strides(c, budget);
          // object histories, deterministic per scanner: the second sampling (the one with view and TOF mashing) of every scanner and
          // the first (uncompressed) one of every other scanner are reached through a history, the rest stays fresh (quick tier;
          // the thorough tier has these samplings both ways)
          if (ci == 2 || (ci == 1 && t % 2 == 0))
            {
              PrngSrc ph(uint64_t(t) * 977 + uint64_t(ci) * 31 + 5);
              json ch = c;
              set_strides(ch, budget * 0.5); // (a case with a history costs 2-3 times a fresh one: differential + all clauses)
              add_history(ph, ch, sc, 1, 1);
              if (tier == 1)
                v.push_back(c);
              v.push_back(ch);
            }
          else
            v.push_back(c);
        }
    }
  // (domain audit) corners of the generator's new sub-domains, always run: 5 / 7 rings, segment ranges that are not symmetric or lack
  // segment 0, arc-correction inputs with an asymmetric tangential range (also one not containing 0), signed rows, other sinograms
  {
    struct Corner
    {
      int ndet, rings, tof_poss, span, max_delta, mash, tang, tof_mash, min_seg, max_seg, lo_cut, hi_cut, sino_sel, variant;
      bool arccorr, signed_rows;
    };
    const std::vector<Corner> corners = {
      { 16, 5, 0, 1, 4, 1, 15, 0, 1, 3, 3, 0, 1, 0, false, true },   // 5 rings, segments 1..3; input range cut on the low side
      { 16, 5, 0, 3, 3, 2, 14, 0, -1, 0, 0, 5, 2, 1, false, false }, // span 3, segments -1..0 (cut last segment); cut on the high side
      { 12, 7, 5, 2, 6, 1, 11, 1, -3, 1, 7, 1, 1, 2, false, true },  // 7 rings, even span, TOF, segments -3..1; range 2..4 (no 0)
      { 12, 7, 0, 5, 6, 1, 9, 0, 0, 1, 1, 6, 0, 0, true, true },     // arc-corrected, segments 0..1 (C12-A1: 0 must stay); range -3..-2 (no 0)
      { 20, 5, 0, 1, 2, 5, 19, 0, -2, -1, 2, 3, 2, 2, false, false } // negative segments only, view mashing 5
    };
    int k = 0;
    for (auto& co : corners)
      {
        json sc;
        sc["type"] = -1;
        sc["ndet"] = co.ndet;
        sc["rings"] = co.rings;
        sc["tr_cryst_per_block"] = 1;
        sc["tr_blocks_per_bucket"] = 1;
        sc["ax_cryst_per_block"] = co.rings;
        sc["ax_blocks_per_bucket"] = 1;
        sc["singles_units"] = 0;
        sc["max_tang"] = co.ndet - 1;
        sc["radius"] = 100.;
        sc["doi"] = 3.;
        sc["ring_spacing"] = 4.;
        sc["bin_size"] = 3.;
        sc["tilt"] = 0.;
        sc["tof_poss"] = 0;
        sc["geometry"] = "Cylindrical";
        if (co.tof_poss > 0)
          {
            const double fov_d = 2. * vg::make_scanner(sc)->get_max_FOV_radius();
            sc["tof_poss"] = co.tof_poss;
            sc["tof_size"] = fov_d / 0.149896229 / co.tof_poss;
            sc["tof_res"] = fov_d / 0.149896229 / 4;
          }
        json c;
        c["scanner"] = sc;
        c["pdi"] = { { "span", co.span },         { "max_delta", co.max_delta }, { "views", co.ndet / 2 / co.mash },
                     { "tang", co.tang },         { "arccorr", co.arccorr },     { "tof_mash", co.tof_mash },
                     { "trim", { { "max_seg", co.max_seg }, { "min_seg", co.min_seg }, { "tang_cut", 0 } } } };
        PrngSrc ps(uint64_t(9001 + k));
        c["arc"] = gen_arc(ps, co.tang);
        c["arc"]["variant"] = co.variant;
        c["arc"]["tang_lo_cut"] = co.lo_cut;
        c["arc"]["tang_hi_cut"] = co.hi_cut;
        c["arc"]["signed"] = co.signed_rows;
        c["arc"]["sino_sel"] = co.sino_sel;
        set_strides(c, budget);
        v.push_back(c);
        PrngSrc ph(uint64_t(9101 + k));
        add_history(ph, c, vg::make_scanner(sc), 1, 1);
        if (c.contains("hist"))
          v.push_back(c);
        ++k;
      }
  }
  return v;
}

bool
nontrivial(const json& c)
{
  const json& p = c["pdi"];
  if (c["scanner"]["type"].get<int>() >= 0)
    return true;
  const int ndet = c["scanner"]["ndet"];
  return p["span"].get<int>() > 1 || p["views"].get<int>() != ndet / 2 || p["tof_mash"].get<int>() >= 1 || p["arccorr"].get<bool>()
         || c["scanner"]["geometry"].get<std::string>() != "Cylindrical";
}

} // namespace

const Property&
the_property()
{
  static Property p;
  p.id = "C12";
  p.gen = gen;
  p.check = check;
  p.nontrivial = nontrivial;
  p.fixed_cases = fixed_cases;
  p.known_signature = [](const json& c) {
    // C12-A1: arc-corrected data whose segment range (trim of the case) does not contain segment 0
    static const char* one = std::getenv("C12_NO_EXCLUDE"); // (development aid, as in exclusions_on)
    if (A1_EXCLUDED && std::getenv("VERIF_NO_EXCLUDE") == nullptr && !(one && std::string(one) == "A1") && c.contains("pdi") && c["pdi"].value("arccorr", false) && c["pdi"].contains("trim")
        && c["pdi"]["trim"].contains("max_seg") && c["pdi"]["trim"].contains("min_seg")
        && (c["pdi"]["trim"]["min_seg"].get<int>() > 0 || c["pdi"]["trim"]["max_seg"].get<int>() < 0))
      return std::string("C12:A1:arccorr-get_bin:segment-range-without-segment-0");
    return vh::known_signature_H2(c);
  };
  return p;
}

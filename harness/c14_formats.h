// C14 — file formats written by the harness (private header of c14_listmode.cxx):
//  * frame definitions as '.fdef' text (TimeFrameDefinitions.h: "a number of lines, each existing of 2 numbers
//    num_frames_of_this_duration duration_in_secs ... Setting num_frames_of_this_duration to 0 allows skipping a time
//    period") and as the time-frame keys of an Interfile header ("number of time frames", "image relative start time
//    (sec)[i]", "image duration (sec)[i]"), together with the harness's own reading of the text it wrote;
//  * list-mode records in the SAFIR 64-bit layout (CListRecordSAFIR.h, class documentation of CListEventSAFIR) and in the
//    ECAT8 / PETLINK 32-bit layout (CListRecordECAT8_32bit.h), encoded from the documented bit fields.
#pragma once
#include "verif.h"
#include <string>
#include <vector>
#include <fstream>
#include <cstdlib>
#include <cstdint>
#include <cstdio>

namespace c14f {
using vf::json;

// ---- durations: integer milliseconds -> decimal text in one of several spellings of the same number ------------------------
//! fmt 0: shortest decimal ("2.5", "10", "0.125"); 1: three decimals ("2.500"); 2: exponent ("2.5e+00"); 3: integer mantissa with
//! exponent ("2500e-3").  All denote exactly ms/1000 as a decimal number; what double that becomes is strtod's business.
inline std::string
ms_text(long ms, int fmt)
{
  const bool neg = ms < 0;
  const long a = neg ? -ms : ms;
  char buf[64];
  std::string s;
  switch (((fmt % 4) + 4) % 4)
    {
    case 1:
      std::snprintf(buf, sizeof(buf), "%ld.%03ld", a / 1000, a % 1000);
      s = buf;
      break;
    case 2: {
      // d.ddd...e+XX with the exact digits of a (a is an integer number of ms)
      std::string digits = std::to_string(a); // a * 1e-3
      int exp10 = int(digits.size()) - 1 - 3;
      std::string mant = digits.substr(0, 1);
      std::string rest = digits.substr(1);
      while (!rest.empty() && rest.back() == '0')
        rest.pop_back();
      if (!rest.empty())
        mant += "." + rest;
      std::snprintf(buf, sizeof(buf), "e%+03d", exp10);
      s = mant + buf;
      break;
    }
    case 3:
      s = std::to_string(a) + "e-3";
      break;
    default: {
      std::snprintf(buf, sizeof(buf), "%ld.%03ld", a / 1000, a % 1000);
      s = buf;
      while (s.back() == '0')
        s.pop_back();
      if (s.back() == '.')
        s.pop_back();
      break;
    }
    }
  return neg ? "-" + s : s;
}

struct FdefLine
{
  long num;  // number of frames of this duration; 0 = skip
  long ms;   // duration in ms (negative only for a leading skip)
  int fmt;   // spelling of the duration
  int style; // white space variant
};

struct Fdef
{
  int kind = 0; // 0: .fdef text, 1: Interfile header
  bool final_newline = true;
  std::vector<FdefLine> lines;
};

//! decodes and normalises (so that shrunk / mutated cases stay inside the documented format):
//! num in 0..3, durations of frames > 0 (read_fdef_file error()s otherwise: "encountered negative numbers"), a negative skip
//! only as the first line and shorter than the first frame that follows (TimeFrameDefinitions.cxx: "allow negative 'duration' if
//! num==0 ... useful for starting the first frame at negative time"), at least one frame.  unit_ms = granularity of all durations.
inline Fdef
decode_fdef(const json& j, long unit_ms)
{
  Fdef f;
  f.kind = j.value("kind", 0) != 0 ? 1 : 0;
  f.final_newline = j.value("nl", true);
  if (j.contains("lines") && j["lines"].is_array())
    for (const json& l : j["lines"])
      {
        if (!l.is_array() || l.size() < 2)
          continue;
        FdefLine x;
        x.num = std::max(0L, std::min(3L, l[0].get<long>()));
        long u = l[1].get<long>();
        x.fmt = l.size() > 2 ? int(l[2].get<long>()) : 0;
        x.style = l.size() > 3 ? int(l[3].get<long>()) : 0;
        if (u == 0 && x.num != 0)
          u = 1; // a skip of zero length ("0 0", as in the repository's recon_test_pack/frame_single.fdef) is kept
        if (u < 0 && (x.num != 0 || !f.lines.empty()))
          u = -u;
        u = std::max(-100000L, std::min(u, 100000L));
        x.ms = u * unit_ms;
        f.lines.push_back(x);
      }
  bool any = false;
  for (auto& l : f.lines)
    any = any || l.num > 0;
  if (!any)
    f.lines.push_back(FdefLine{ 1, 8 * unit_ms, 0, 0 });
  if (f.lines[0].num == 0 && f.lines[0].ms < 0)
    { // leading negative skip: keep the end of the first frame later than 0.01 s (LmToProjData's "end_time > 0.01" test)
      long first = 0;
      for (auto& l : f.lines)
        if (l.num > 0)
          {
            first = l.ms;
            break;
          }
      if (-f.lines[0].ms >= first - std::max(unit_ms, 20L))
        f.lines[0].ms = -f.lines[0].ms;
    }
  return f;
}

//! frames in integer ms (exact), in file order
inline std::vector<std::pair<long, long>>
fdef_frames_ms(const Fdef& f)
{
  std::vector<std::pair<long, long>> v;
  long prev = 0;
  for (auto& l : f.lines)
    {
      if (l.num == 0)
        prev += l.ms;
      for (long k = 0; k < l.num; ++k)
        {
          v.push_back(std::make_pair(prev, prev + l.ms));
          prev += l.ms;
        }
    }
  return v;
}

//! the text of the file
inline std::string
fdef_text(const Fdef& f)
{
  std::string t;
  if (f.kind == 0)
    {
      for (std::size_t i = 0; i < f.lines.size(); ++i)
        {
          const FdefLine& l = f.lines[i];
          const int st = ((l.style % 6) + 6) % 6; // separator: blank, tab, several blanks; optional leading blanks
          if ((st / 3) % 2)
            t += "  ";
          t += std::to_string(l.num);
          t += (st % 3 == 0) ? " " : (st % 3 == 1) ? "\t" : "   ";
          t += ms_text(l.ms, l.fmt);
          if (i + 1 < f.lines.size() || f.final_newline)
            t += "\n";
        }
      return t;
    }
  // Interfile header with the time-frame keys (TimeFrameDefinitions(filename): "an Interfile file").  The other keys are the
  // ones STIR's own image headers carry; only the three time-frame keys matter here.
  const auto fr = fdef_frames_ms(f);
  t += "!INTERFILE  :=\n";
  t += "!imaging modality := PT\n";
  t += "name of data file := frames_dummy.v\n";
  t += "!GENERAL DATA :=\n";
  t += "!GENERAL IMAGE DATA :=\n";
  t += "!type of data := PET\n";
  t += "imagedata byte order := LITTLEENDIAN\n";
  t += "!PET STUDY (General) :=\n";
  t += "patient orientation := head_in\n";
  t += "patient rotation := supine\n";
  t += "!PET data type := Image\n";
  t += "process status := Reconstructed\n";
  t += "!number format := float\n";
  t += "!number of bytes per pixel := 4\n";
  t += "number of dimensions := 3\n";
  t += "matrix axis label [1] := x\n!matrix size [1] := 1\nscaling factor (mm/pixel) [1] := 1\n";
  t += "matrix axis label [2] := y\n!matrix size [2] := 1\nscaling factor (mm/pixel) [2] := 1\n";
  t += "matrix axis label [3] := z\n!matrix size [3] := 1\nscaling factor (mm/pixel) [3] := 1\n";
  t += "number of time frames := " + std::to_string(fr.size()) + "\n";
  std::size_t k = 0;
  for (auto& l : f.lines)
    for (long q = 0; q < l.num; ++q, ++k)
      {
        t += "image relative start time (sec)[" + std::to_string(k + 1) + "] := " + ms_text(fr[k].first, l.fmt + int(q)) + "\n";
        t += "image duration (sec)[" + std::to_string(k + 1) + "] := " + ms_text(l.ms, l.fmt) + "\n";
      }
  t += "!END OF INTERFILE :=\n";
  return t;
}

//! the harness's own reading of the text it wrote: (start, end) in seconds as doubles
//!  .fdef: every entry follows the end of the previous one; the numbers are the doubles strtod gives for the written text
//!  Interfile: start and duration of every frame are given; end = start + duration
inline std::vector<std::pair<double, double>>
fdef_frames_secs(const Fdef& f)
{
  std::vector<std::pair<double, double>> v;
  if (f.kind == 0)
    {
      double prev = 0;
      for (auto& l : f.lines)
        {
          const double d = std::strtod(ms_text(l.ms, l.fmt).c_str(), nullptr);
          if (l.num == 0)
            prev += d;
          for (long k = 0; k < l.num; ++k)
            {
              v.push_back(std::make_pair(prev, prev + d));
              prev += d;
            }
        }
      return v;
    }
  const auto fr = fdef_frames_ms(f);
  std::size_t k = 0;
  for (auto& l : f.lines)
    for (long q = 0; q < l.num; ++q, ++k)
      {
        const double s = std::strtod(ms_text(fr[k].first, l.fmt + int(q)).c_str(), nullptr);
        const double d = std::strtod(ms_text(l.ms, l.fmt).c_str(), nullptr);
        v.push_back(std::make_pair(s, s + d));
      }
  return v;
}

inline void
write_text(const std::string& path, const std::string& text)
{
  std::ofstream o(path.c_str(), std::ios::out | std::ios::binary | std::ios::trunc);
  o << text;
  o.close();
  if (!o)
    throw std::runtime_error("harness: cannot write " + path);
}

// ---- SAFIR 64-bit records (CListRecordSAFIR.h): "The record has the following format (for little-endian byte order)
//        unsigned ringA : 8; ringB : 8; detA : 16; detB : 16; layerA : 4; layerB : 4; reserved : 6; isDelayed : 1; type : 1"
//      time record (CListTimeDataSAFIR): time : 48; reserved : 15; type : 1 (type 1 = time).  Bit fields are allocated from the
//      least significant bit on little-endian machines; the file is little endian (CListModeDataSAFIR::open_lm_file swaps otherwise).
inline std::uint64_t
safir_event(unsigned ringA, unsigned ringB, unsigned detA, unsigned detB, unsigned layerA, unsigned layerB, bool delayed)
{
  return std::uint64_t(ringA & 0xffu) | (std::uint64_t(ringB & 0xffu) << 8) | (std::uint64_t(detA & 0xffffu) << 16) | (std::uint64_t(detB & 0xffffu) << 32)
         | (std::uint64_t(layerA & 0xfu) << 48) | (std::uint64_t(layerB & 0xfu) << 52) | (std::uint64_t(delayed ? 1 : 0) << 62);
}
inline std::uint64_t
safir_time(std::uint64_t ms)
{
  return (ms & ((std::uint64_t(1) << 48) - 1)) | (std::uint64_t(1) << 63);
}
//! file = 32 bytes signature ("SAFIR CListModeData\0" + padding, SAFIRCListmodeInputFileFormat.h) + records, little endian
inline void
write_safir_file(const std::string& path, const std::vector<std::uint64_t>& words)
{
  std::ofstream o(path.c_str(), std::ios::out | std::ios::binary | std::ios::trunc);
  char sig[32] = { 0 };
  std::snprintf(sig, sizeof(sig), "SAFIR CListModeData");
  o.write(sig, 32);
  for (std::uint64_t w : words)
    {
      unsigned char b[8];
      for (int i = 0; i < 8; ++i)
        b[i] = static_cast<unsigned char>((w >> (8 * i)) & 0xffu);
      o.write(reinterpret_cast<const char*>(b), 8);
    }
  o.close();
  if (!o)
    throw std::runtime_error("harness: cannot write " + path);
}

// ---- ECAT8 / PETLINK 32-bit words (CListRecordECAT8_32bit.h):
//        event: offset : 30; delayed : 1 ("0 if event is delayed"); type : 1 (0 = coincidence event)
//        tag:   time : 29; deadtimeetc : 2 ("zero if timing event"); type : 1 (1 = time tick / other tag)
inline std::uint32_t
ecat8_event(std::uint32_t offset, bool prompt)
{
  return (offset & 0x3fffffffu) | (std::uint32_t(prompt ? 1 : 0) << 30);
}
inline std::uint32_t
ecat8_time(std::uint32_t ms)
{
  return (ms & 0x1fffffffu) | (std::uint32_t(1) << 31);
}
inline std::uint32_t
ecat8_other_tag(std::uint32_t payload, unsigned kind /*1..3*/)
{
  return (payload & 0x1fffffffu) | (std::uint32_t(kind & 3u) << 29) | (std::uint32_t(1) << 31);
}
inline void
write_words32(const std::string& path, const std::vector<std::uint32_t>& words)
{
  std::ofstream o(path.c_str(), std::ios::out | std::ios::binary | std::ios::trunc);
  for (std::uint32_t w : words)
    {
      unsigned char b[4];
      for (int i = 0; i < 4; ++i)
        b[i] = static_cast<unsigned char>((w >> (8 * i)) & 0xffu);
      o.write(reinterpret_cast<const char*>(b), 4);
    }
  o.close();
  if (!o)
    throw std::runtime_error("harness: cannot write " + path);
}

} // namespace c14f

// C18 — multi-threaded execution gives the single-thread result under every schedule.
// Randomised schedule exploration with a differential oracle: the same workload with 1 thread
// (no perturbation) vs T threads with yields/delays injected at the UCL_STIR_VERIF schedule points,
// repeated with FRESH objects so that first-use races (lazy tables, matrix cache, per-thread images)
// are re-armed in every repetition.  The injected schedule is a pure function of the Case.
#include "stir_gen.h"
#include "stir/num_threads.h"
#include "stir/ProjDataInMemory.h"
#include "stir/ExamInfo.h"
#include "stir/SegmentByView.h"
#include "stir/recon_buildblock/ProjMatrixByBinUsingRayTracing.h"
#include "stir/recon_buildblock/ProjectorByBinPairUsingProjMatrixByBin.h"
#include "stir/recon_buildblock/ForwardProjectorByBinUsingProjMatrixByBin.h"
#include "stir/recon_buildblock/BackProjectorByBinUsingProjMatrixByBin.h"
#include "stir/recon_buildblock/PoissonLogLikelihoodWithLinearModelForMeanAndProjData.h"
#include "stir/recon_buildblock/BinNormalisationFromProjData.h"
#include "stir/recon_buildblock/TrivialBinNormalisation.h"
#include "stir/ProjDataInfoCylindricalNoArcCorr.h"
#include "stir/DetectionPositionPair.h"
#include <atomic>
#include <chrono>
#include <thread>
#include <sched.h>
#ifdef _OPENMP
#  include <omp.h>
#endif

using namespace vf;
using namespace stir;

// ---- schedule perturbation -----------------------------------------------------------------
namespace {
struct Perturb
{
  std::atomic<bool> enabled{ false };
  uint64_t seed = 0;
  int intensity = 1; // 0: yields only, 1: + short spins, 2: + sleeps
  int num_low_priority = 0;
  std::atomic<unsigned long> site_thread_mask[24];
  std::atomic<long> hits{ 0 };
};
Perturb g_perturb;
thread_local long t_visits = 0;

inline uint64_t
mix(uint64_t z)
{
  z = (z ^ (z >> 30)) * 0xbf58476d1ce4e5b9ULL;
  z = (z ^ (z >> 27)) * 0x94d049bb133111ebULL;
  return z ^ (z >> 31);
}
} // namespace

extern "C" void
ucl_stir_verif_schedule_point(int site)
{
  if (!g_perturb.enabled.load(std::memory_order_relaxed))
    return;
#ifdef _OPENMP
  const int tid = omp_get_thread_num();
#else
  const int tid = 0;
#endif
  g_perturb.hits.fetch_add(1, std::memory_order_relaxed);
  if (site >= 0 && site < 24)
    g_perturb.site_thread_mask[site].fetch_or(1UL << (tid & 63), std::memory_order_relaxed);
  const long visit = t_visits++;
  const uint64_t h = mix(g_perturb.seed ^ (uint64_t(tid) << 48) ^ (uint64_t(site) << 40) ^ uint64_t(visit));
  // PCT-style: a few "low priority" threads are delayed much more often during their first visits
  const bool low = int(mix(g_perturb.seed ^ (uint64_t(tid) * 0x9e3779b97f4a7c15ULL)) % 8) < g_perturb.num_low_priority;
  if (site >= 14 && site <= 19)
    { // inside a (locked) lazy initialisation, which happens once per object: make it slow so that a thread
      // arriving meanwhile really has to wait (healthy code) or runs ahead with incomplete tables (broken code)
      if (g_perturb.intensity >= 1 || (h & 1))
        std::this_thread::sleep_for(std::chrono::microseconds(200 + (h >> 8) % 1800));
      return;
    }
  if (site == 20 || site == 21)
    { // holding a cache lock: occasionally hold it a little longer
      if (h % 100 < 5)
        {
          const auto until = std::chrono::steady_clock::now() + std::chrono::microseconds(5 + (h >> 8) % 100);
          while (std::chrono::steady_clock::now() < until)
            {
            }
        }
      return;
    }
  const unsigned r = unsigned(h % 100);
  const unsigned p_sleep = (g_perturb.intensity >= 2 ? 4 : 0) + ((low && visit < 12) ? 30 : 0);
  const unsigned p_spin = g_perturb.intensity >= 1 ? 12 : 0;
  const unsigned p_yield = 20;
  if (r < p_sleep)
    std::this_thread::sleep_for(std::chrono::microseconds(100 + (h >> 8) % 1500));
  else if (r < p_sleep + p_spin)
    {
      const auto until = std::chrono::steady_clock::now() + std::chrono::microseconds(1 + (h >> 8) % 50);
      while (std::chrono::steady_clock::now() < until)
        {
        }
    }
  else if (r < p_sleep + p_spin + p_yield)
    sched_yield();
}

namespace {

typedef DiscretisedDensity<3, float> target_type;

struct World
{ // everything is FRESH per repetition
  shared_ptr<Scanner> sc;
  shared_ptr<ProjDataInfo> pdi;
  shared_ptr<VoxelsOnCartesianGrid<float>> image;
  shared_ptr<ProjMatrixByBinUsingRayTracing> matrix;
  shared_ptr<ProjectorByBinPair> pair;
  shared_ptr<ProjDataInMemory> data, add, mult;
};

World
make_world(const json& c)
{
  World w;
  w.sc = vg::make_scanner(c["scanner"]);
  w.pdi = vg::make_pdi(w.sc, c["pdi"]);
  w.image = vg::make_image(c["image"], *w.pdi, 7);
  vg::fill_random(*w.image, c["dseed"].get<uint64_t>(), 0.5, 2.);
  w.matrix.reset(new ProjMatrixByBinUsingRayTracing());
  const int cache = c["cache"].get<int>();
  w.matrix->enable_cache(cache != 0);
  w.matrix->store_only_basic_bins_in_cache(cache == 1);
  w.matrix->set_num_tangential_LORs(c["lors"].get<int>());
  const int sym = c["sym"].get<int>();
  w.matrix->set_do_symmetry_90degrees_min_phi((sym & 1) != 0);
  w.matrix->set_do_symmetry_180degrees_min_phi((sym & 2) != 0);
  w.matrix->set_do_symmetry_swap_segment((sym & 4) != 0);
  w.matrix->set_do_symmetry_swap_s((sym & 8) != 0);
  w.matrix->set_do_symmetry_shift_z((sym & 16) != 0);
  w.pair.reset(new ProjectorByBinPairUsingProjMatrixByBin(w.matrix));
  shared_ptr<ExamInfo> exam(new ExamInfo(ImagingModality::PT));
  w.data.reset(new ProjDataInMemory(exam, w.pdi));
  w.add.reset(new ProjDataInMemory(exam, w.pdi));
  SplitMix g(c["dseed"].get<uint64_t>() ^ 0x1234567ULL);
  for (auto it = w.data->begin_all(); it != w.data->end_all(); ++it)
    *it = float(1 + g.range(0, 20));
  for (auto it = w.add->begin_all(); it != w.add->end_all(); ++it)
    *it = float(g.real(0.5, 1.5));
  w.mult.reset(new ProjDataInMemory(exam, w.pdi->create_non_tof_clone()));
  for (auto it = w.mult->begin_all(); it != w.mult->end_all(); ++it)
    *it = float(g.real(0.5, 2.));
  return w;
}

void
append(std::vector<double>& out, const target_type& im)
{
  for (auto it = im.begin_all_const(); it != im.end_all_const(); ++it)
    out.push_back(*it);
}
void
append(std::vector<double>& out, const ProjDataInMemory& pd)
{
  for (auto it = pd.begin_all(); it != pd.end_all(); ++it)
    out.push_back(*it);
}

//! run the workload once with fresh objects; returns the flattened result
std::vector<double>
run_workload(const json& c, int threads, bool perturb, uint64_t pseed)
{
  World w = make_world(c);
  const int workload = c["workload"].get<int>();
  stir::set_num_threads(threads);
  for (auto& m : g_perturb.site_thread_mask)
    m.store(0);
  g_perturb.seed = pseed;
  g_perturb.intensity = c["intensity"].get<int>();
  g_perturb.num_low_priority = c["lowprio"].get<int>();
  g_perturb.enabled.store(perturb);
  std::vector<double> out;
  try
    {
      if (workload == 0)
        { // forward projection of a whole data set
          w.pair->set_up(w.pdi, w.image);
          ProjDataInMemory res(w.data->get_exam_info_sptr(), w.pdi);
          w.pair->get_forward_projector_sptr()->forward_project(res, *w.image);
          append(out, res);
        }
      else if (workload == 6)
        { // lazily built geometry tables used concurrently from the first call on (fresh ProjDataInfo):
          // detector pair -> bin, bin -> all detector pairs, ring pairs, m / tan(theta)
          // a ProjDataInfo object nobody has asked anything yet: its tables are built inside the parallel loop
          const shared_ptr<ProjDataInfo> fresh_pdi = vg::make_pdi(w.sc, c["pdi"]);
          // the constructor builds the ring-difference tables eagerly; every geometry setter re-arms their lazy
          // construction (documented in ProjDataInfoCylindrical.h), e.g. after set_ring_spacing()
          if (ProjDataInfoCylindrical* pc = dynamic_cast<ProjDataInfoCylindrical*>(fresh_pdi.get()))
            if (c["subset"].get<int>() % 3 != 0)
              pc->set_ring_spacing(pc->get_ring_spacing());
          const ProjDataInfoCylindricalNoArcCorr* p = dynamic_cast<const ProjDataInfoCylindricalNoArcCorr*>(fresh_pdi.get());
          if (!p)
            throw std::runtime_error("workload 6 needs cylindrical no-arc-correction data");
          const int ndet = w.sc->get_num_detectors_per_ring(), rings = w.sc->get_num_rings();
          const long n = long(ndet) * ndet * rings * rings;
          out.assign(std::size_t(n) * 3, 0.);
          const bool tables_first = c["subset"].get<int>() % 2 == 0;
#ifdef _OPENMP
#  pragma omp parallel for schedule(dynamic)
#endif
          for (long i = 0; i < n; ++i)
            {
              const int d1 = int(i % ndet), d2 = int((i / ndet) % ndet), r1 = int((i / (long(ndet) * ndet)) % rings),
                        r2 = int(i / (long(ndet) * ndet * rings));
              if (d1 == d2)
                continue;
              Bin b;
              double code = -1, npairs = 0, m = 0;
              if (tables_first)
                { // ring-difference tables are touched first through the coordinate functions
                  m = p->get_m(Bin(0, 0, 0, 0)) + p->get_tantheta(Bin(p->get_max_segment_num(), 0, 0, 0));
                }
              if (p->get_bin_for_det_pos_pair(b, DetectionPositionPair<>(DetectionPosition<>(d1, r1), DetectionPosition<>(d2, r2), 0)) == Succeeded::yes
                  && b.axial_pos_num() >= p->get_min_axial_pos_num(b.segment_num()) && b.axial_pos_num() <= p->get_max_axial_pos_num(b.segment_num())
                  && b.tangential_pos_num() >= p->get_min_tangential_pos_num() && b.tangential_pos_num() <= p->get_max_tangential_pos_num())
                {
                  code = ((double(b.segment_num()) * 1000 + b.axial_pos_num()) * 1000 + b.view_num()) * 1000 + b.tangential_pos_num();
                  std::vector<DetectionPositionPair<>> dps;
                  p->get_all_det_pos_pairs_for_bin(dps, b);
                  npairs = double(dps.size());
                  for (auto& dp : dps)
                    npairs += 1e-3 * (dp.pos1().axial_coord() + 2 * dp.pos2().axial_coord()) + 1e-6 * (dp.pos1().tangential_coord());
                  m += p->get_m(b) + 10 * p->get_tantheta(b);
                }
              out[std::size_t(i) * 3] = code;
              out[std::size_t(i) * 3 + 1] = npairs;
              out[std::size_t(i) * 3 + 2] = m;
            }
        }
      else if (workload == 1)
        { // back projection of a whole data set
          w.pair->set_up(w.pdi, w.image);
          shared_ptr<target_type> res(w.image->get_empty_copy());
          w.pair->get_back_projector_sptr()->back_project(*res, *w.data);
          append(out, *res);
        }
      else
        {
          PoissonLogLikelihoodWithLinearModelForMeanAndProjData<target_type> obj;
          obj.set_proj_data_sptr(w.data);
          obj.set_projector_pair_sptr(w.pair);
          obj.set_use_subset_sensitivities(true);
          obj.set_num_subsets(c["subsets"].get<int>());
          if (c["use_add"].get<bool>())
            obj.set_additive_proj_data_sptr(w.add);
          if (c["use_norm"].get<bool>())
            obj.set_normalisation_sptr(shared_ptr<BinNormalisation>(new BinNormalisationFromProjData(w.mult)));
          shared_ptr<target_type> target(w.image->clone());
          if (obj.set_up(target) != Succeeded::yes)
            {
              g_perturb.enabled.store(false);
              throw std::runtime_error("objective function set_up failed");
            }
          const int subset = c["subset"].get<int>() % obj.get_num_subsets();
          if (workload == 2)
            out.push_back(obj.compute_objective_function(*target));
          else if (workload == 3)
            {
              shared_ptr<target_type> grad(target->get_empty_copy());
              obj.compute_sub_gradient(*grad, *target, subset);
              append(out, *grad);
            }
          else if (workload == 4)
            {
              append(out, obj.get_subset_sensitivity(subset));
              shared_ptr<target_type> grad(target->get_empty_copy());
              obj.compute_sub_gradient_without_penalty_plus_sensitivity(*grad, *target, subset);
              append(out, *grad);
            }
          else
            {
              shared_ptr<target_type> res(target->get_empty_copy());
              shared_ptr<target_type> dir(target->clone());
              vg::fill_random(*dir, c["dseed"].get<uint64_t>() ^ 0x77, 0.1, 1.);
              obj.accumulate_sub_Hessian_times_input(*res, *target, *dir, subset);
              append(out, *res);
            }
        }
    }
  catch (...)
    {
      g_perturb.enabled.store(false);
      stir::set_num_threads(1);
      throw;
    }
  g_perturb.enabled.store(false);
  stir::set_num_threads(1);
  return out;
}

Result
check(const json& c)
{
  std::vector<double> ref;
  try
    {
      ref = run_workload(c, 1, false, 0);
    }
  catch (const stir_verif::AssertionFailure&)
    {
      throw;
    }
  catch (const std::exception& e)
    {
      return Result::reject(std::string("single-thread run rejected: ") + e.what());
    }
  double scale = 0;
  for (double v : ref)
    scale = std::max(scale, std::fabs(v));
  if (!(scale > 0))
    return Result::reject(cat("all-zero reference result workload ", c["workload"].get<int>()));
  const int threads = c["threads"].get<int>();
  const int reps = c["reps"].get<int>();
  bool multi_site = false;
  for (int rep = 0; rep < reps; ++rep)
    {
      std::vector<double> got;
      try
        {
          got = run_workload(c, threads, true, c["pseed"].get<uint64_t>() + uint64_t(rep) * 7919ULL);
        }
      catch (const std::exception& e)
        {
          return Result::fail(cat("multi-threaded run (", threads, " threads, repetition ", rep, ") threw: ", e.what()));
        }
      for (auto& m : g_perturb.site_thread_mask)
        if (__builtin_popcountl(m.load()) >= 2)
          multi_site = true;
      VF_CHECK(got.size() == ref.size(), "result size differs: ", got.size(), " vs ", ref.size());
      double maxdiff = 0;
      std::size_t where = 0;
      for (std::size_t i = 0; i < ref.size(); ++i)
        {
          const double d = std::fabs(got[i] - ref[i]);
          if (!(d <= maxdiff))
            {
              maxdiff = d;
              where = i;
            }
        }
      stats().maxi(cat("max rel diff workload ", c["workload"].get<int>()), maxdiff / scale);
      // float reassociation of per-thread partial sums: 1e-4 of the maximum (observed <= ~3e-6)
      VF_CHECK(maxdiff <= 1e-4 * scale, "workload ", c["workload"].get<int>(), " with ", threads, " threads (repetition ", rep,
               ") differs from the single-thread result: |diff|=", maxdiff, " at element ", where, " (", got[where], " vs ", ref[where],
               "), scale ", scale);
    }
  stats().count("schedule_point_hits", g_perturb.hits.exchange(0));
  if (multi_site)
    stats().cls("site hit by >=2 threads");
  stats().cls(cat("workload ", c["workload"].get<int>()));
  stats().cls(cat("threads ", threads <= 2 ? "2" : threads <= 4 ? "3-4" : threads <= 8 ? "5-8" : "9-16+"));
  return Result::pass();
}

json
gen(Src& s, int size)
{
  json c;
  vg::ScannerOpts so;
  so.max_ndet = size < 40 ? 16 : 32;
  so.max_rings = 3;
  so.allow_tof = true;
  so.allow_tilt = false;
  c["scanner"] = vg::gen_scanner(s, so);
  shared_ptr<Scanner> sc = vg::make_scanner(c["scanner"]);
  vg::PdiOpts po;
  po.allow_trim = false;
  po.max_span = 3;
  c["pdi"] = vg::gen_pdi(s, *sc, po);
  c["pdi"]["arccorr"] = false;
  vg::ImageOpts io;
  io.max_xy = 13;
  c["image"] = vg::gen_image(s, io);
  c["dseed"] = s.seed64();
  c["pseed"] = s.seed64();
  c["workload"] = int(s.range(0, 6));
  c["threads"] = int(s.pick(std::vector<int>{ 2, 2, 3, 4, 4, 7, 8, 12, 16, 24 }));
  c["reps"] = int(s.range(2, 6));
  c["cache"] = int(s.range(0, 2));
  c["lors"] = int(s.range(1, 2));
  c["sym"] = int(s.chance(1, 2) ? 31 : s.range(0, 31));
  c["intensity"] = int(s.range(0, 2));
  c["lowprio"] = int(s.range(0, 3));
  // number of subsets: a divisor of the number of views (balanced)
  const int views = c["pdi"]["views"].get<int>();
  c["subsets"] = s.pick(vg::divisors(views));
  c["subset"] = int(s.range(0, 95));
  c["use_add"] = s.coin();
  c["use_norm"] = s.coin();
  return c;
}

bool
nontrivial(const json& c)
{
  // threads >= 2 and at least as many work items (view x segment x TOF groups) as threads is not known from the
  // case alone; use views as a lower bound of work items
  return c["threads"].get<int>() >= 2 && c["pdi"]["views"].get<int>() >= 2;
}

} // namespace

const Property&
the_property()
{
  static Property p;
  p.id = "C18";
  p.gen = gen;
  p.check = check;
  p.nontrivial = nontrivial;
  return p;
}

// C18 — multi-threaded execution gives the single-thread result under every schedule.
// Randomised schedule exploration with a differential oracle: the same workload with 1 thread
// (no perturbation) vs T threads with yields/delays injected at the UCL_STIR_VERIF schedule points.
// The injected schedule is a pure function of the Case.  Two kinds of cases:
//  (a) FRESH-OBJECT REPETITIONS (>= half of the cases): one thread count, every repetition builds new objects, so that
//      first-use races (lazy tables, matrix cache, per-thread images) are re-armed in every repetition;
//  (b) OBJECT-REUSE HISTORIES: a generated sequence of (thread count, how it is set, operation) steps on the SAME
//      objects (projector pair + matrix with its cache, objective function, list-mode objective function, scatter
//      simulation, ProjDataInfo with its lazy tables); thread counts go up and down between the steps, are set through
//      omp_set_num_threads or stir::set_num_threads or left alone, with clear_cache / setter + set_up steps in between.
//      Reference: the SAME history executed with one thread on a second set of objects (that is the property's
//      "result of the single-threaded computation"; history dependence that also exists with one thread belongs to
//      C03/C05/C16 and cancels here).  A sample of the histories runs in a FRESH PROCESS (the binary re-executes itself),
//      because STIR's first setup_distributable_computation() resets the thread count to its default exactly once per
//      process (stir/num_threads.h); the harness models that rule and checks the model after every step.
// Workloads: 0 forward projection, 1 back projection, 2 log-likelihood value, 3 subset gradient, 4 subset sensitivity +
// gradient-plus-sensitivity, 5 Hessian x vector, 6 lazily built geometry tables, 7 list-mode objective function
// (gradient, value, Hessian x vector, sensitivity), 8 single scatter simulation.
// Measured / additive / normalisation data are in memory or FILE-BACKED (ProjDataFromStream on files written by the
// harness; both storage orders; optionally all data sets in one file read through ONE shared stream).
//
// Known finding excluded by construction (VERIF_NO_EXCLUDE=1 switches the exclusion off), see SIG_E1 below.
#include "stir_gen.h"
#include "c18_lm.h"
#include "stir/num_threads.h"
#include "stir/ProjDataInMemory.h"
#include "stir/ProjDataFromStream.h"
#include "stir/ExamInfo.h"
#include "stir/SegmentByView.h"
#include "stir/Viewgram.h"
#include "stir/recon_buildblock/ProjMatrixByBinUsingRayTracing.h"
#include "stir/recon_buildblock/ProjectorByBinPairUsingProjMatrixByBin.h"
#include "stir/recon_buildblock/ForwardProjectorByBinUsingProjMatrixByBin.h"
#include "stir/recon_buildblock/BackProjectorByBinUsingProjMatrixByBin.h"
#include "stir/recon_buildblock/PoissonLogLikelihoodWithLinearModelForMeanAndProjData.h"
#include "stir/recon_buildblock/PoissonLogLikelihoodWithLinearModelForMeanAndListModeDataWithProjMatrixByBin.h"
#include "stir/recon_buildblock/BinNormalisationFromProjData.h"
#include "stir/recon_buildblock/TrivialBinNormalisation.h"
#include "stir/scatter/SingleScatterSimulation.h"
#include "stir/ProjDataInfoCylindricalNoArcCorr.h"
#include "stir/ProjDataInfoGenericNoArcCorr.h"
#include "stir/ProjDataInfoSubsetByView.h"
#include <functional>
#include "stir/TrivialDataSymmetriesForViewSegmentNumbers.h"
#include "stir/RelatedViewgrams.h"
#include "stir/Sinogram.h"
#include "stir/DetectionPositionPair.h"
#include <atomic>
#include <chrono>
#include <thread>
#include <fstream>
#include <filesystem>
#include <iostream>
#include <sched.h>
#include <unistd.h>
#include <sys/wait.h>
#include <fcntl.h>
#include <spawn.h>
#include <memory>
#include <sstream>
extern char** environ;
#ifdef _OPENMP
#  include <omp.h>
#endif

using namespace vf;
using namespace stir;

// ---- schedule perturbation -----------------------------------------------------------------
namespace {
struct Perturb
{
  std::atomic<bool> enabled{ false };
  uint64_t seed = 0;
  int intensity = 1; // 0: yields only, 1: + short spins, 2: + sleeps
  int num_low_priority = 0;
  std::atomic<unsigned long> site_thread_mask[24];
  std::atomic<long> hits{ 0 };
};
Perturb g_perturb;
thread_local long t_visits = 0;

inline uint64_t
mix(uint64_t z)
{
  z = (z ^ (z >> 30)) * 0xbf58476d1ce4e5b9ULL;
  z = (z ^ (z >> 27)) * 0x94d049bb133111ebULL;
  return z ^ (z >> 31);
}
} // namespace

extern "C" void
ucl_stir_verif_schedule_point(int site)
{
  if (!g_perturb.enabled.load(std::memory_order_relaxed))
    return;
#ifdef _OPENMP
  const int tid = omp_get_thread_num();
#else
  const int tid = 0;
#endif
  g_perturb.hits.fetch_add(1, std::memory_order_relaxed);
  if (site >= 0 && site < 24)
    g_perturb.site_thread_mask[site].fetch_or(1UL << (tid & 63), std::memory_order_relaxed);
#ifdef _OPENMP
  if (omp_get_num_threads() == 1)
    return; // a team of one thread has no interleavings to perturb (delays would only cost time)
#endif
  const long visit = t_visits++;
  const uint64_t h = mix(g_perturb.seed ^ (uint64_t(tid) << 48) ^ (uint64_t(site) << 40) ^ uint64_t(visit));
  // PCT-style: a few "low priority" threads are delayed much more often during their first visits
  const bool low = int(mix(g_perturb.seed ^ (uint64_t(tid) * 0x9e3779b97f4a7c15ULL)) % 8) < g_perturb.num_low_priority;
  if (site >= 14 && site <= 19)
    { // inside a (locked) lazy initialisation, which happens once per object: make it slow so that a thread
      // arriving meanwhile really has to wait (healthy code) or runs ahead with incomplete tables (broken code)
      if (g_perturb.intensity >= 1 || (h & 1))
        std::this_thread::sleep_for(std::chrono::microseconds(200 + (h >> 8) % 1800));
      return;
    }
  if (site == 20 || site == 21)
    { // holding a cache lock: occasionally hold it a little longer
      if (h % 100 < 5)
        {
          const auto until = std::chrono::steady_clock::now() + std::chrono::microseconds(5 + (h >> 8) % 100);
          while (std::chrono::steady_clock::now() < until)
            {
            }
        }
      return;
    }
  if (site == 12 || site == 13)
    { // accessors of the scatter caches: visited (scatter points x detectors) times per bin, so perturb rarely
      const unsigned q = unsigned(h % 10000);
      if (q < (g_perturb.intensity >= 2 ? 3u : 0u) + ((low && visit < 12) ? 3000u : 0u))
        std::this_thread::sleep_for(std::chrono::microseconds(100 + (h >> 8) % 1500));
      else if (q < 100)
        {
          const auto until = std::chrono::steady_clock::now() + std::chrono::microseconds(1 + (h >> 8) % 50);
          while (std::chrono::steady_clock::now() < until)
            {
            }
        }
      else if (q < 400)
        sched_yield();
      return;
    }
  const unsigned r = unsigned(h % 100);
  const unsigned p_sleep = (g_perturb.intensity >= 2 ? 4 : 0) + ((low && visit < 12) ? 30 : 0);
  const unsigned p_spin = g_perturb.intensity >= 1 ? 12 : 0;
  const unsigned p_yield = 20;
  if (r < p_sleep)
    std::this_thread::sleep_for(std::chrono::microseconds(100 + (h >> 8) % 1500));
  else if (r < p_sleep + p_spin)
    {
      const auto until = std::chrono::steady_clock::now() + std::chrono::microseconds(1 + (h >> 8) % 50);
      while (std::chrono::steady_clock::now() < until)
        {
        }
    }
  else if (r < p_sleep + p_spin + p_yield)
    sched_yield();
}


namespace {

typedef DiscretisedDensity<3, float> target_type;

// ---- known finding E1 -----------------------------------------------------------------------------------
// BackProjectorByBin::set_up() sizes its vector of per-thread output images with the number of threads at THAT moment;
// back_project() indexes it with omp_get_thread_num().  A back projection with more threads than at the last set_up of
// the projector (thread count raised afterwards by omp_set_num_threads / stir::set_num_threads, or by STIR's own first
// setup_distributable_computation() that resets the count to its default inside the objective function's set_up)
// reads and writes beyond the vector.  Histories are rewritten at run time such that they stay outside exactly this class
// (a set_up step is inserted before such an operation, or the thread count before an objective-function set_up is lifted
// to the default it will be reset to); the rewriting is counted and switched off by VERIF_NO_EXCLUDE=1.
const char* const SIG_E1 = "C18:backprojector:more-threads-than-at-set_up";
//! set to true once the repair (work/fixes/C18_ext/01_*.diff) is committed in /repo: the class is then part of the normal search
// ---- finding E2 (DESIGN 12.9; found on /repo 66621e8da; REPAIRED ece0d8fa4, exclusion off) -------------------------------------------------------------
// The detector-pair tables of ProjDataInfoCylindricalNoArcCorr (uncompressed_view_tangpos_to_det1det2,
// det1det2_to_uncompressed_view_tangpos; ProjDataInfoGenericNoArcCorr has the same members) are built on first use under
// critical(PROJDATAINFOCYLINDRICALNOARCCORR_VIEWTANGPOS_TO_DETS / _DETS_TO_VIEWTANGPOS), but the IMPLICIT copy constructor
// (clone(), create_shared_clone(), get_empty_viewgram / sinogram / related_viewgrams, ProjDataInfoSubsetByView) reads them without
// the lock: a copy made while another thread builds them sees a vector in the middle of grow() (range assertions of
// VectorWithOffset in this build; reads of freed memory / a half-built table in a Release build).  Same pattern as the repaired
// ring-difference tables (66621e8da), which that repair left alone ("No failure could be provoked there").
// Exclusion (narrow, by construction): in the rounds / look-ups in which threads COPY the object, the harness builds the
// detector-pair tables with one thread before the parallel region -- only the ring-difference tables then have their first use
// next to the copies.  Counted in excluded_known; VERIF_NO_EXCLUDE=1 switches it off; the probe carries "prebuild": false.
const char* const SIG_E2 = "C18:detector-pair-tables:copied-during-first-use";
//! set to true once the repair is committed in /repo (ece0d8fa4): the class is then part of the normal search, the former probe is the
//! regression input replays/C18/fixed_detector_pair_tables_copied_during_first_use.json
const bool E2_REPAIRED = true;
bool
e2_exclusion_on()
{
  if (E2_REPAIRED)
    return false;
  static const bool on = []() {
    const char* e = std::getenv("VERIF_NO_EXCLUDE");
    return !(e && *e && std::string(e) != "0");
  }();
  return on;
}
const bool E1_REPAIRED = true;
bool
exclusions_on()
{
  static const bool on = []() {
    if (E1_REPAIRED)
      return false;
    const char* e = std::getenv("VERIF_NO_EXCLUDE");
    return !(e && *e && std::string(e) != "0");
  }();
  return on;
}

// ---- temporary files: one directory per case under VERIF_TMP, removed at the end of the case ---------------
std::string
tmp_root()
{
  const char* e = std::getenv("VERIF_TMP");
  std::string d = (e && *e) ? std::string(e) : cat("/tmp/verif_", long(getpid()));
  std::error_code ec;
  std::filesystem::create_directories(d, ec);
  return d;
}
struct CaseDir
{
  std::string path;
  CaseDir()
  {
    static long counter = 0;
    path = cat(tmp_root(), "/c18_", long(getpid()), "_", counter++);
    std::error_code ec;
    std::filesystem::remove_all(path, ec);
    std::filesystem::create_directories(path, ec);
  }
  ~CaseDir()
  {
    std::error_code ec;
    std::filesystem::remove_all(path, ec);
  }
  std::string sub(const std::string& name) const
  {
    const std::string p = path + "/" + name;
    std::error_code ec;
    std::filesystem::create_directories(p, ec);
    return p;
  }
};

// ---- the number of threads: what the harness does and what STIR does on its own ---------------------------
// stir/num_threads.h: set_num_threads(n>0) sets n; set_num_threads() [n==0] calls set_default_num_threads() if and only
// if it is the first call of set_num_threads (with any argument) in the process; setup_distributable_computation() calls
// set_num_threads().  g_set_once mirrors STIR's function-static flag.
bool g_set_once = false;
bool
child_mode()
{
  static const bool on = std::getenv("VERIF_C18_CHILD") != nullptr;
  return on;
}
int
current_threads()
{
#ifdef _OPENMP
  return omp_get_max_threads();
#else
  return 1;
#endif
}
void
threads_via_omp(int t)
{
#ifdef _OPENMP
  omp_set_num_threads(t);
#else
  (void)t;
#endif
}
void
threads_via_stir(int t)
{
  stir::set_num_threads(t);
  g_set_once = true;
}

// ---- settings that histories change -----------------------------------------------------------------------
struct Settings
{
  int cache = 0, lors = 1, nsub = 1;
  int max_lors = 2; // 1 for BlocksOnCylindrical data whose tangential range touches the detector-pair table (see blocks_lors_limited)
  bool use_add = false, use_norm = false;
  int sym = 31; // projector families: the five symmetry switches of the ray-tracing matrix
  int geom = 0; // projector families: which of the two image geometries the projectors / objective function are set up for
  long lm_cache = -1; // list-mode family: 'max cache size' (-1: the case's)
  int tb_state = 0;   // tables family: bit 0 = ring spacing doubled, bit 1 = first and last segment removed
  int act = 0; // scatter: index of the activity image
  bool sc_cache = true;
  // scatter simulation (indices into the pools of ScWorld)
  int sc_tmpl = 0;    // template
  int sc_exam = 0;    // energy window
  int sc_att = 0;     // attenuation image
  int sc_down = -1;   // >= 0: activity and attenuation image were replaced by downsample_images_to_scanner_size() while
                      //       template sc_down was current
  int sc_sp_kind = 0; // scatter-point image: 0 = copy of attenuation pool image sc_sp_a, 1 = made by
                      // downsample_density_image_for_scatter_points(explicit arguments coded by sc_sp_a) from the density image
  int sc_sp_a = 0;
  int sc_thr = 0; // index into the attenuation thresholds
};

//! BlocksOnCylindrical data + num_tangential_LORs > 1 + a tangential range that touches the (view, tangential position) ->
//! detector pair table: known finding of property C04 ("C04:blocks:tangential-LORs>1:tangential-range-reaches-detector-pair-
//! table-edge": ProjDataInfo::get_sampling_in_s evaluates get_s at tangential positions +-1, assertion / out-of-range read, with
//! one thread as well).  Not a thread effect: such data are projected with one tangential LOR (class counted).
bool
blocks_lors_limited(const json& c)
{
  const json& sc = c["scanner"];
  if (!sc.contains("geometry") || sc["geometry"].get<std::string>() != "BlocksOnCylindrical")
    return false;
  const int N = sc["ndet"].get<int>(), tang = c["pdi"]["tang"].get<int>();
  const int mn = -(tang / 2), mx = -(tang / 2) + tang - 1;
  return mn - 1 < -(N / 2) + 1 || mx + 1 > N / 2;
}
bool
is_blocks(const json& c)
{
  return c["scanner"].contains("geometry") && c["scanner"]["geometry"].get<std::string>() == "BlocksOnCylindrical";
}

Settings
initial_settings(const json& c)
{
  Settings s;
  s.cache = c["cache"].get<int>();
  s.max_lors = blocks_lors_limited(c) ? 1 : 2;
  s.lors = std::min(c["lors"].get<int>(), s.max_lors);
  s.nsub = c["subsets"].get<int>();
  s.use_add = c["use_add"].get<bool>();
  s.use_norm = c["use_norm"].get<bool>();
  s.sym = c["sym"].get<int>();
  return s;
}

// ---- file-backed projection data ----------------------------------------------------------------------------
long
num_values(const ProjDataInMemory& pd)
{
  return long(std::distance(pd.begin_all(), pd.end_all()));
}

void
write_to_stream(const ProjDataInMemory& src, const shared_ptr<std::iostream>& s, std::streamoff offset, ProjDataFromStream::StorageOrder order)
{
  ProjDataFromStream writer(src.get_exam_info_sptr(), src.get_proj_data_info_sptr(), s, offset, order);
  for (int k = src.get_min_tof_pos_num(); k <= src.get_max_tof_pos_num(); ++k)
    for (int seg = src.get_min_segment_num(); seg <= src.get_max_segment_num(); ++seg)
      for (int v = src.get_min_view_num(); v <= src.get_max_view_num(); ++v)
        if (writer.set_viewgram(src.get_viewgram(v, seg, false, k)) != Succeeded::yes)
          throw std::logic_error("harness: writing a viewgram to the temporary file failed");
  s->flush();
}

shared_ptr<std::iostream>
open_stream(const std::string& path, bool write)
{
  shared_ptr<std::iostream> s(
      new std::fstream(path.c_str(), write ? (std::ios::in | std::ios::out | std::ios::trunc | std::ios::binary) : (std::ios::in | std::ios::binary)));
  if (!*s)
    throw std::logic_error("harness: cannot open temporary file " + path);
  return s;
}

struct World
{
  shared_ptr<Scanner> sc;
  shared_ptr<ProjDataInfo> pdi;
  shared_ptr<VoxelsOnCartesianGrid<float>> image, image2;
  //! a second image geometry (two more columns and rows, same voxel sizes and origin) for "set_up for another image"
  shared_ptr<VoxelsOnCartesianGrid<float>> imageB, image2B;
  shared_ptr<ProjMatrixByBinUsingRayTracing> matrix;
  shared_ptr<ProjectorByBinPair> pair;
  shared_ptr<ProjData> data, add, mult; // in memory or file-backed
  shared_ptr<ProjDataInMemory> data_mem, add_mem, mult_mem;
};

void
apply_matrix_settings(ProjMatrixByBinUsingRayTracing& m, const Settings& st)
{
  m.enable_cache(st.cache != 0);
  m.store_only_basic_bins_in_cache(st.cache == 1);
  m.set_num_tangential_LORs(st.lors);
  const int sym = st.sym;
  m.set_do_symmetry_90degrees_min_phi((sym & 1) != 0);
  m.set_do_symmetry_180degrees_min_phi((sym & 2) != 0);
  m.set_do_symmetry_swap_segment((sym & 4) != 0);
  m.set_do_symmetry_swap_s((sym & 8) != 0);
  m.set_do_symmetry_shift_z((sym & 16) != 0);
}

shared_ptr<ProjMatrixByBinUsingRayTracing>
make_matrix(const json&, const Settings& st)
{
  shared_ptr<ProjMatrixByBinUsingRayTracing> m(new ProjMatrixByBinUsingRayTracing());
  apply_matrix_settings(*m, st);
  return m;
}

//! file_data: 0 in memory; 1 / 2 one file per data set, storage order Segment_View_AxialPos_TangPos /
//! Segment_AxialPos_View_TangPos; 3 all data sets in ONE file, read through one shared stream (order 1 or 2 by the seed)
World
make_world(const json& c, const Settings& st, const std::string& dir)
{
  World w;
  w.sc = vg::make_scanner(c["scanner"]);
  w.pdi = vg::make_pdi(w.sc, c["pdi"]);
  // "inval" 8: a REAL reduction of the segment range of the data's ProjDataInfo (as test_proj_data_info_subsets does), before
  // anything is made from it; the tables stay invalid until the first workload needs them (re-armed again before it)
  if (c.value("inval", 0) == 8 && w.pdi->get_num_segments() >= 3)
    w.pdi->reduce_segment_range(w.pdi->get_min_segment_num() + 1, w.pdi->get_max_segment_num() - 1);
  w.image = vg::make_image(c["image"], *w.pdi, 7);
  vg::fill_random(*w.image, c["dseed"].get<uint64_t>(), 0.5, 2.);
  w.image2.reset(w.image->clone());
  vg::fill_random(*w.image2, c["dseed"].get<uint64_t>() ^ 0x3141592ULL, 0.5, 2.);
  {
    json jb = c["image"];
    jb["nx"] = jb["nx"].get<int>() + 2;
    jb["ny"] = jb["ny"].get<int>() + 2;
    w.imageB = vg::make_image(jb, *w.pdi, 7);
    vg::fill_random(*w.imageB, c["dseed"].get<uint64_t>() ^ 0x2718281ULL, 0.5, 2.);
    w.image2B.reset(w.imageB->clone());
    vg::fill_random(*w.image2B, c["dseed"].get<uint64_t>() ^ 0x1618033ULL, 0.5, 2.);
  }
  w.matrix = make_matrix(c, st);
  w.pair.reset(new ProjectorByBinPairUsingProjMatrixByBin(w.matrix));
  shared_ptr<ExamInfo> exam(new ExamInfo(ImagingModality::PT));
  w.data_mem.reset(new ProjDataInMemory(exam, w.pdi));
  w.add_mem.reset(new ProjDataInMemory(exam, w.pdi));
  SplitMix g(c["dseed"].get<uint64_t>() ^ 0x1234567ULL);
  for (auto it = w.data_mem->begin_all(); it != w.data_mem->end_all(); ++it)
    *it = float(1 + g.range(0, 20));
  // (12.8) measured data with exact zeros (a back projector skips such bins BEFORE it asks for the matrix row, so other
  // rows enter the cache, by other threads, at other times): "zeros" 1 = about 60 % of the bins are 0; 2 = everything is 0
  // except one view of segment 0 (all but one work item have nothing to add: per-thread images stay untouched / all zero)
  const int zeros = c.value("zeros", 0);
  if (zeros == 1)
    {
      SplitMix gz(c["dseed"].get<uint64_t>() ^ 0x5a5a5ULL);
      for (auto it = w.data_mem->begin_all(); it != w.data_mem->end_all(); ++it)
        if (gz.unit() < 0.6)
          *it = 0.F;
    }
  else if (zeros == 2)
    {
      const int v0 = w.pdi->get_min_view_num() + int((c["dseed"].get<uint64_t>() >> 8) % uint64_t(w.pdi->get_num_views()));
      for (int k = w.data_mem->get_min_tof_pos_num(); k <= w.data_mem->get_max_tof_pos_num(); ++k)
        for (int seg = w.data_mem->get_min_segment_num(); seg <= w.data_mem->get_max_segment_num(); ++seg)
          for (int v = w.data_mem->get_min_view_num(); v <= w.data_mem->get_max_view_num(); ++v)
            if (!(seg == 0 && v == v0))
              {
                Viewgram<float> vg0 = w.data_mem->get_empty_viewgram(v, seg, false, k);
                if (w.data_mem->set_viewgram(vg0) != Succeeded::yes)
                  throw std::logic_error("harness: zeroing a viewgram failed");
              }
    }
  for (auto it = w.add_mem->begin_all(); it != w.add_mem->end_all(); ++it)
    *it = float(g.real(0.5, 1.5));
  w.mult_mem.reset(new ProjDataInMemory(exam, w.pdi->create_non_tof_clone()));
  for (auto it = w.mult_mem->begin_all(); it != w.mult_mem->end_all(); ++it)
    *it = float(g.real(0.5, 2.));
  const int fd = c.value("file_data", 0);
  if (fd == 0 || dir.empty())
    {
      w.data = w.data_mem;
      w.add = w.add_mem;
      w.mult = w.mult_mem;
      return w;
    }
  const bool order_b = fd == 2 || (fd == 3 && (c["dseed"].get<uint64_t>() & 1) != 0);
  const ProjDataFromStream::StorageOrder order
      = order_b ? ProjDataFromStream::Segment_AxialPos_View_TangPos : ProjDataFromStream::Segment_View_AxialPos_TangPos;
  if (fd == 3)
    {
      const std::string path = dir + "/all.s";
      const std::streamoff o_data = 0, o_add = o_data + std::streamoff(num_values(*w.data_mem)) * 4 + 12,
                           o_mult = o_add + std::streamoff(num_values(*w.add_mem)) * 4 + 20;
      {
        shared_ptr<std::iostream> s = open_stream(path, true);
        write_to_stream(*w.data_mem, s, o_data, order);
        write_to_stream(*w.add_mem, s, o_add, order);
        write_to_stream(*w.mult_mem, s, o_mult, order);
      }
      shared_ptr<std::iostream> s = open_stream(path, false);
      w.data.reset(new ProjDataFromStream(exam, w.data_mem->get_proj_data_info_sptr(), s, o_data, order));
      w.add.reset(new ProjDataFromStream(exam, w.add_mem->get_proj_data_info_sptr(), s, o_add, order));
      w.mult.reset(new ProjDataFromStream(exam, w.mult_mem->get_proj_data_info_sptr(), s, o_mult, order));
    }
  else
    {
      auto one = [&](const ProjDataInMemory& src, const std::string& name, std::streamoff off) -> shared_ptr<ProjData> {
        const std::string path = dir + "/" + name;
        {
          shared_ptr<std::iostream> s = open_stream(path, true);
          write_to_stream(src, s, off, order);
        }
        return shared_ptr<ProjData>(new ProjDataFromStream(exam, src.get_proj_data_info_sptr(), open_stream(path, false), off, order));
      };
      w.data = one(*w.data_mem, "data.s", 0);
      w.add = one(*w.add_mem, "add.s", 8);
      w.mult = one(*w.mult_mem, "mult.s", 0);
    }
  return w;
}

void
append(std::vector<double>& out, const target_type& im)
{
  for (auto it = im.begin_all_const(); it != im.end_all_const(); ++it)
    out.push_back(*it);
}
void
append(std::vector<double>& out, const ProjDataInMemory& pd)
{
  for (auto it = pd.begin_all(); it != pd.end_all(); ++it)
    out.push_back(*it);
}


// ---- output container of a forward projection (domain audit, DESIGN 12.8) ----------------------------------------------
//! kind 0: a freshly constructed ProjDataInMemory (all the harness used before); 1: a ProjDataInMemory that already holds
//! other numbers (forward_project documents that it overwrites: every related viewgram of the subset is set, the rest is
//! zeroed for num_subsets > 1, argument "zero"); 2: a FILE: ProjDataFromStream on a read/write stream that the harness has
//! pre-filled, in one of the two storage orders -- the only route on which set_viewgram's seek + write
//! (critical(PROJDATAFROMSTREAMIO)) runs inside a parallel region (ForwardProjectorByBin.cxx, critical(FORWARDPROJ_SETVIEWGRAMS)).
shared_ptr<ProjData>
make_forward_output(int kind, const shared_ptr<const ExamInfo>& exam, const shared_ptr<const ProjDataInfo>& pdi, const std::string& dir, bool order_b,
                    const std::string& name)
{
  if (kind == 0 || (kind == 2 && dir.empty()))
    return shared_ptr<ProjData>(new ProjDataInMemory(exam, pdi));
  shared_ptr<ProjDataInMemory> pre(new ProjDataInMemory(exam, pdi));
  float v = 3.F;
  for (auto it = pre->begin_all(); it != pre->end_all(); ++it, v += 0.25F)
    *it = v;
  if (kind == 1)
    return pre;
  const ProjDataFromStream::StorageOrder order
      = order_b ? ProjDataFromStream::Segment_AxialPos_View_TangPos : ProjDataFromStream::Segment_View_AxialPos_TangPos;
  const std::streamoff off = 16;
  shared_ptr<std::iostream> st = open_stream(dir + "/" + name, true); // in | out | trunc
  write_to_stream(*pre, st, off, order);
  return shared_ptr<ProjData>(new ProjDataFromStream(exam, pdi, st, off, order));
}
//! all values of a forward-projection output, in the order of ProjDataInMemory (files are read back viewgram by viewgram, by one thread)
void
append_forward_output(std::vector<double>& out, const ProjData& pd)
{
  if (const ProjDataInMemory* m = dynamic_cast<const ProjDataInMemory*>(&pd))
    {
      append(out, *m);
      return;
    }
  ProjDataInMemory back(pd.get_exam_info_sptr(), pd.get_proj_data_info_sptr());
  back.fill(-77.F);
  for (int k = pd.get_min_tof_pos_num(); k <= pd.get_max_tof_pos_num(); ++k)
    for (int seg = pd.get_min_segment_num(); seg <= pd.get_max_segment_num(); ++seg)
      for (int v = pd.get_min_view_num(); v <= pd.get_max_view_num(); ++v)
        if (back.set_viewgram(pd.get_viewgram(v, seg, false, k)) != Succeeded::yes)
          throw std::logic_error("harness: reading back a viewgram failed");
  append(out, back);
}

void
perturb_on(const json& c, uint64_t pseed)
{
  for (auto& m : g_perturb.site_thread_mask)
    m.store(0);
  g_perturb.seed = pseed;
  g_perturb.intensity = c["intensity"].get<int>();
  g_perturb.num_low_priority = c["lowprio"].get<int>();
  g_perturb.enabled.store(true);
}
void
perturb_off()
{
  g_perturb.enabled.store(false);
}
bool
site_hit_by_two()
{
  for (auto& m : g_perturb.site_thread_mask)
    if (__builtin_popcountl(m.load()) >= 2)
      return true;
  return false;
}

// ---- the geometry-table workload (6) -----------------------------------------------------------------------
//! detector pair -> bin, bin -> all detector pairs, ring pairs, m / tan(theta) for every detector pair, in a parallel
//! loop of the harness.  3 numbers per pair: bin code (integer), number of detector pairs of the bin + a position-
//! weighted checksum of their coordinates (multiples of 1e-6), m + 10 tan(theta).  Every number is computed by ONE
//! thread from the (shared, lazily built) tables, so the comparison of this workload is exact.

// ---- invalidating setters and concurrent copies (DESIGN 12.9; /repo 66621e8da) ------------------------------------------
//! One of the setters that set ProjDataInfoCylindrical::ring_diff_arrays_computed = false (reduce_segment_range,
//! set_min|max_axial_pos_num, set_num_axial_poss_per_segment, set_min|max_ring_difference, set_ring_spacing), called with the
//! value the object already has: the geometry stays what set_up accepted, the lazily built ring-difference tables have to be
//! rebuilt by the next const call that needs them -- which then happens inside the parallel region of the next workload, next
//! to threads that COPY the object (ProjData::get_empty_related_viewgrams -> ProjDataInfo::get_empty_viewgram -> clone()).
//! The ring-spacing / ring-difference setters are used on ProjDataInfoCylindricalNoArcCorr only (blocks data take their
//! coordinates from the crystal map); set_num_axial_poss_per_segment only when every segment starts at axial position 0
//! (it resets the minima to 0).
const char*
invalidate_tables(ProjDataInfo& pdi, int kind, int b)
{
  ProjDataInfoCylindricalNoArcCorr* cyl = dynamic_cast<ProjDataInfoCylindricalNoArcCorr*>(&pdi);
  const int seg = pdi.get_min_segment_num() + std::abs(b) % pdi.get_num_segments();
  switch (std::abs(kind) % 7)
    {
    case 1:
      pdi.set_min_axial_pos_num(pdi.get_min_axial_pos_num(seg), seg);
      return "set_min_axial_pos_num(same)";
    case 2:
      pdi.set_max_axial_pos_num(pdi.get_max_axial_pos_num(seg), seg);
      return "set_max_axial_pos_num(same)";
    case 3:
      {
        bool zero_based = true;
        VectorWithOffset<int> n(pdi.get_min_segment_num(), pdi.get_max_segment_num());
        for (int sg = pdi.get_min_segment_num(); sg <= pdi.get_max_segment_num(); ++sg)
          {
            n[sg] = pdi.get_num_axial_poss(sg);
            zero_based = zero_based && pdi.get_min_axial_pos_num(sg) == 0;
          }
        if (zero_based)
          {
            pdi.set_num_axial_poss_per_segment(n);
            return "set_num_axial_poss_per_segment(same)";
          }
        break;
      }
    case 4:
      if (cyl)
        {
          cyl->set_ring_spacing(cyl->get_ring_spacing());
          return "set_ring_spacing(same)";
        }
      break;
    case 5:
      if (cyl)
        {
          cyl->set_min_ring_difference(cyl->get_min_ring_difference(seg), seg);
          return "set_min_ring_difference(same)";
        }
      break;
    case 6:
      if (cyl)
        {
          cyl->set_max_ring_difference(cyl->get_max_ring_difference(seg), seg);
          return "set_max_ring_difference(same)";
        }
      break;
    default:
      break;
    }
  pdi.reduce_segment_range(pdi.get_min_segment_num(), pdi.get_max_segment_num());
  return "reduce_segment_range(same)";
}

//! copies of a ProjDataInfo made by the threads of query_tables() WHILE other threads make the first table-using calls
struct CopyPlan
{
  shared_ptr<ProjDataInfo> shared;               // the object under test (what p points to)
  shared_ptr<ProjDataInMemory> holder;           // projection data holding it (empty viewgrams / sinograms clone it)
  uint64_t seed = 0;
  static const int SLOTS = 8;
  long at[SLOTS] = { 1, 2, 3, 5, 8, 13, 21, 34 }; // loop iterations that copy (the first iterations run at the same time)
  shared_ptr<const ProjDataInfo> copies[SLOTS];
  static const char* kind_name(int k)
  {
    static const char* n[] = { "clone()", "create_shared_clone()", "get_empty_viewgram", "get_empty_sinogram", "get_empty_related_viewgrams",
                               "ProjDataInfoSubsetByView(object, views)", "copy constructor" };
    return n[k % 7];
  }
  int kind(int slot) const { return int((seed >> (3 * slot)) % 7); }
  template <class PDI>
  void copy(int slot, const PDI* p)
  {
    const int seg = shared->get_min_segment_num() + slot % shared->get_num_segments();
    const int view = shared->get_min_view_num() + slot % shared->get_num_views();
    switch (kind(slot))
      {
      case 0:
        copies[slot].reset(p->clone());
        break;
      case 1:
        copies[slot] = p->create_shared_clone();
        break;
      case 2:
        copies[slot] = holder->get_empty_viewgram(view, seg).get_proj_data_info_sptr();
        break;
      case 3:
        copies[slot] = holder->get_empty_sinogram(shared->get_min_axial_pos_num(seg), seg).get_proj_data_info_sptr();
        break;
      case 4:
        {
          const shared_ptr<DataSymmetriesForViewSegmentNumbers> sym(new TrivialDataSymmetriesForViewSegmentNumbers);
          copies[slot] = holder->get_empty_related_viewgrams(ViewSegmentNumbers(view, seg), sym).get_proj_data_info_sptr();
          break;
        }
      case 5:
        {
          const ProjDataInfoSubsetByView sub(shared, std::vector<int>(1, view));
          copies[slot] = sub.get_original_proj_data_info_sptr();
          break;
        }
      default:
        copies[slot].reset(new PDI(*p));
      }
  }
};

//! PDI = ProjDataInfoCylindricalNoArcCorr or ProjDataInfoGenericNoArcCorr (BlocksOnCylindrical / Generic scanners: the same
//! public functions, other lazily built tables: ProjDataInfoGenericNoArcCorr.inl, schedule points 3-6 and 16-19)
template <class PDI>
void
query_tables(const PDI* p, const Scanner& sc, bool tables_first, std::vector<double>& out, CopyPlan* plan = nullptr)
{
  const int ndet = sc.get_num_detectors_per_ring(), rings = sc.get_num_rings();
  const long n = long(ndet) * ndet * rings * rings;
  out.assign(std::size_t(n) * 3, 0.);
#ifdef _OPENMP
#  pragma omp parallel for schedule(dynamic)
#endif
  for (long i = 0; i < n; ++i)
    {
      const int d1 = int(i % ndet), d2 = int((i / ndet) % ndet), r1 = int((i / (long(ndet) * ndet)) % rings),
                r2 = int(i / (long(ndet) * ndet * rings));
      if (plan)
        for (int slot = 0; slot < CopyPlan::SLOTS; ++slot)
          if (plan->at[slot] == i)
            plan->copy(slot, p);
      if (d1 == d2)
        continue;
      Bin b;
      double code = -1, npairs = 0, m = 0;
      if (tables_first)
        { // ring-difference tables are touched first through the coordinate functions
          m = p->get_m(Bin(0, 0, 0, 0)) + p->get_tantheta(Bin(p->get_max_segment_num(), 0, 0, 0));
        }
      if (p->get_bin_for_det_pos_pair(b, DetectionPositionPair<>(DetectionPosition<>(d1, r1), DetectionPosition<>(d2, r2), 0)) == Succeeded::yes
          && b.axial_pos_num() >= p->get_min_axial_pos_num(b.segment_num()) && b.axial_pos_num() <= p->get_max_axial_pos_num(b.segment_num())
          && b.tangential_pos_num() >= p->get_min_tangential_pos_num() && b.tangential_pos_num() <= p->get_max_tangential_pos_num())
        {
          code = ((double(b.segment_num()) * 1000 + b.axial_pos_num()) * 1000 + b.view_num()) * 1000 + b.tangential_pos_num();
          std::vector<DetectionPositionPair<>> dps;
          p->get_all_det_pos_pairs_for_bin(dps, b);
          npairs = double(dps.size());
          for (auto& dp : dps)
            npairs += 1e-3 * (dp.pos1().axial_coord() + 2 * dp.pos2().axial_coord()) + 1e-6 * (dp.pos1().tangential_coord());
          m += p->get_m(b) + 10 * p->get_tantheta(b);
        }
      out[std::size_t(i) * 3] = code;
      out[std::size_t(i) * 3 + 1] = npairs;
      out[std::size_t(i) * 3 + 2] = m;
    }
  if (plan)
    { // every copy has to answer ALL table queries like the object itself (and like the copies of the single-thread run)
      for (int slot = 0; slot < CopyPlan::SLOTS; ++slot)
        if (plan->copies[slot])
          {
            const PDI* cp = dynamic_cast<const PDI*>(plan->copies[slot].get());
            if (!cp)
              throw std::logic_error("harness: a copy of the ProjDataInfo has another type");
            std::vector<double> tmp;
            query_tables(cp, sc, slot % 2 == 0, tmp);
            if (tmp.size() != out.size() || !std::equal(tmp.begin(), tmp.end(), out.begin()))
              stats().count(vf::cat("copy made by ", CopyPlan::kind_name(plan->kind(slot)), " answers differently from the object"));
            out.push_back(double(tmp.size()));
            out.insert(out.end(), tmp.begin(), tmp.end());
            stats().count(vf::cat("concurrent copy checked: ", CopyPlan::kind_name(plan->kind(slot))));
          }
    }
}


//! (12.9) The race of /repo 66621e8da stated directly.  Every round: a NEW object from the factory (its detector-pair tables are
//! not built), an invalidating setter (the ring-difference tables have to be rebuilt), then a parallel region in which, behind a
//! barrier, the even threads make the first table-using const calls (get_m, ring pairs, detector pair <-> bin) while the odd
//! threads COPY the object in one of the seven ways of CopyPlan.  Afterwards (one thread) every copy has to give the signature of
//! the object itself (all ring-pair lists, m, ring difference -> segment, detector pair -> bin for ring 0); a copy that differs
//! makes the run throw.  out gets the signature of the object per round (the same with one thread).  Perturbation is switched
//! off in the odd rounds (a delay at the top of the locked initialisation lets all copies finish before the rebuild starts).
template <class PDI>
double
table_signature(const PDI* p, const Scanner& sc)
{
  double sig = 0;
  for (int seg = p->get_min_segment_num(); seg <= p->get_max_segment_num(); ++seg)
    for (int ax = p->get_min_axial_pos_num(seg); ax <= p->get_max_axial_pos_num(seg); ++ax)
      {
        const ProjDataInfoCylindrical::RingNumPairs& rp = p->get_all_ring_pairs_for_segment_axial_pos_num(seg, ax);
        double v = double(rp.size());
        for (auto& pr : rp)
          v += 0.01 * pr.first + 0.0001 * pr.second;
        sig += (seg * 131 + ax * 7 + 1) * (v + p->get_m(Bin(seg, 0, ax, 0)));
      }
  for (int rd = -(sc.get_num_rings() - 1); rd <= sc.get_num_rings() - 1; ++rd)
    {
      int seg = 0;
      if (p->get_segment_num_for_ring_difference(seg, rd) == Succeeded::yes)
        sig += (rd + 100) * (seg + 50);
    }
  const int ndet = sc.get_num_detectors_per_ring();
  for (int d1 = 0; d1 < ndet; ++d1)
    for (int d2 = 0; d2 < ndet; ++d2)
      {
        Bin b;
        if (d1 != d2 && p->get_bin_for_det_pos_pair(b, DetectionPositionPair<>(DetectionPosition<>(d1, 0), DetectionPosition<>(d2, 0), 0)) == Succeeded::yes)
          sig += (d1 * 37 + d2 + 1) * (b.view_num() * 100 + b.tangential_pos_num());
      }
  return sig;
}

//! E2 exclusion: first use of the two detector-pair tables by one thread, before threads copy the object
template <class PDI>
void
prebuild_detector_pair_tables(const PDI* p)
{
  if (!e2_exclusion_on())
    return;
  Bin b;
  p->get_bin_for_det_pos_pair(b, DetectionPositionPair<>(DetectionPosition<>(0, 0), DetectionPosition<>(1, 0), 0));
  std::vector<DetectionPositionPair<>> dps; // (get_det_pos_pair_for_bin asserts "view mashing factor == 1"; this one works for all data)
  p->get_all_det_pos_pairs_for_bin(dps, Bin(0, p->get_min_view_num(), p->get_min_axial_pos_num(0), 0));
  stats().count(std::string("excluded:") + SIG_E2);
  stats().excluded_known++;
}

template <class PDI>
void
race_rounds(const std::function<shared_ptr<ProjDataInfo>()>& factory, const Scanner& sc, int rounds, uint64_t seed, std::vector<double>& out)
{
  const bool was_on = g_perturb.enabled.load();
  for (int r = 0; r < rounds; ++r)
    {
      CopyPlan plan;
      plan.shared = factory();
      const PDI* p = dynamic_cast<const PDI*>(plan.shared.get());
      if (!p)
        throw std::logic_error("harness: race_rounds on another ProjDataInfo type");
      plan.seed = seed + uint64_t(r) * 0x9e3779b97f4a7c15ULL;
      plan.holder.reset(new ProjDataInMemory(shared_ptr<ExamInfo>(new ExamInfo(ImagingModality::PT)), plan.shared, false));
      prebuild_detector_pair_tables(p);
      invalidate_tables(*plan.shared, int((seed >> 7) % 7) + r, r);
      g_perturb.enabled.store(was_on && r % 2 == 0);
      const int seg = p->get_min_segment_num() + r % p->get_num_segments();
      std::vector<shared_ptr<const ProjDataInfo>> copies(64);
#ifdef _OPENMP
#  pragma omp parallel
#endif
      {
#ifdef _OPENMP
        const int t = omp_get_thread_num();
#  pragma omp barrier
#else
        const int t = 0;
#endif
        if (t % 2 == 0)
          { // first table-using calls
            Bin b;
            volatile double sink = p->get_m(Bin(seg, 0, p->get_min_axial_pos_num(seg), 0));
            sink = sink + double(p->get_all_ring_pairs_for_segment_axial_pos_num(seg, p->get_max_axial_pos_num(seg)).size());
            if (p->get_bin_for_det_pos_pair(b, DetectionPositionPair<>(DetectionPosition<>(0, 0), DetectionPosition<>(1 + t % 3, 0), 0)) == Succeeded::yes)
              {
                std::vector<DetectionPositionPair<>> dps;
                p->get_all_det_pos_pairs_for_bin(dps, b);
                sink = sink + double(dps.size());
              }
          }
        if (t % 2 == 1 || t == 0)
          { // (thread 0 copies after its look-ups, so that the single-thread run makes a copy as well)
            CopyPlan mine = plan; // (own slots: threads t and t + 8 would share one)
            // copies in a row (about 0.1 ms): the release of the barrier is spread over tens of microseconds, the rebuild of the
            // tables of a small geometry takes about one -- a single copy would hardly ever meet it
            for (int again = 0; again < (t == 0 ? 1 : 150); ++again)
              mine.copy(t % CopyPlan::SLOTS, p);
            if (t < 64)
              copies[std::size_t(t)] = mine.copies[t % CopyPlan::SLOTS];
          }
      }
      g_perturb.enabled.store(was_on);
      const double sig = table_signature(p, sc);
      for (std::size_t t = 0; t < copies.size(); ++t)
        if (copies[t])
          {
            const PDI* cp = dynamic_cast<const PDI*>(copies[t].get());
            if (!cp)
              throw std::logic_error("harness: a copy of the ProjDataInfo has another type");
            stats().count("race round: copy made concurrently with the first look-ups checked");
            if (table_signature(cp, sc) != sig)
              throw std::runtime_error(cat("a copy made by ", CopyPlan::kind_name(plan.kind(int(t) % CopyPlan::SLOTS)), " (thread ", t, ", round ", r,
                                           ") while other threads made the first look-ups answers differently from the object"));
          }
      out.push_back(sig);
    }
}

//! query_tables with threads that copy the object concurrently with the first table-using calls
template <class PDI>
void
query_tables_with_copies(const shared_ptr<ProjDataInfo>& pdi, const PDI* p, const Scanner& sc, bool tables_first, uint64_t seed, std::vector<double>& out)
{
  CopyPlan plan;
  plan.shared = pdi;
  plan.seed = seed;
  // (constructed before the tables are needed: the constructor only asks for sizes)
  plan.holder.reset(new ProjDataInMemory(shared_ptr<ExamInfo>(new ExamInfo(ImagingModality::PT)), pdi, false));
  prebuild_detector_pair_tables(p);
  query_tables(p, sc, tables_first, out, &plan);
}

// ---- construction of the objects of the workloads -------------------------------------------------------------
typedef PoissonLogLikelihoodWithLinearModelForMeanAndProjData<target_type> PDObj;
typedef PoissonLogLikelihoodWithLinearModelForMeanAndListModeDataWithProjMatrixByBin<target_type> LMObj;

shared_ptr<PDObj>
make_pd_objective(const World& w, const Settings& st)
{
  shared_ptr<PDObj> obj(new PDObj);
  obj->set_proj_data_sptr(w.data);
  obj->set_projector_pair_sptr(w.pair);
  obj->set_use_subset_sensitivities(true);
  obj->set_num_subsets(st.nsub);
  if (st.use_add)
    obj->set_additive_proj_data_sptr(w.add);
  if (st.use_norm)
    obj->set_normalisation_sptr(shared_ptr<BinNormalisation>(new BinNormalisationFromProjData(w.mult)));
  return obj;
}

struct LMWorld
{
  shared_ptr<c18lm::SyntheticCListModeData> lm;
  shared_ptr<LMObj> obj;
  long accepted = 0;
  long cache = 0; // what was given to set_cache_max_size
};

//! 'max cache size' that keeps the stream outside the empty-last-batch precondition (see make_lm)
long
lm_cache_size(long cache, long accepted)
{
  while (cache > 0 && accepted % cache == 0) // (5 -> 6 is not enough for 60 kept prompts)
    ++cache;
  return cache;
}

//! list-mode objective function on a generated event stream.  Preconditions (LM_distributable_computation:
//! assert(!record_ptr.empty())): at least one kept prompt, and the number of kept prompts is not a multiple of
//! 'max cache size' (that leaves an empty last batch; documented in the C14 harness) -> the cache size is adjusted.
LMWorld
make_lm(const json& c, const World& w, const Settings& st, const std::string& cache_dir)
{
  LMWorld L;
  const json& J = c["lm"];
  const std::vector<c18lm::Rec> recs = c18lm::make_stream(J["seed"].get<uint64_t>(), J["n"].get<long>(), *w.sc);
  L.accepted = c18lm::count_accepted(recs, *w.pdi);
  if (L.accepted == 0)
    throw std::runtime_error("no prompt of the generated stream is inside the data (precondition of the list-mode computation)");
  L.lm.reset(new c18lm::SyntheticCListModeData(recs, w.pdi));
  L.obj.reset(new LMObj);
  L.obj->set_input_data(static_pointer_cast<ExamData>(L.lm));
  L.obj->set_proj_matrix(w.matrix);
  if (st.use_add)
    L.obj->set_additive_proj_data_sptr(w.add);
  if (st.use_norm)
    L.obj->set_normalisation_sptr(shared_ptr<BinNormalisation>(new BinNormalisationFromProjData(w.mult)));
  L.obj->set_num_subsets(st.nsub);
  L.obj->set_use_subset_sensitivities(true);
  L.obj->set_cache_path(cache_dir);
  L.obj->set_recompute_cache(true);
  L.cache = lm_cache_size(st.lm_cache >= 0 ? st.lm_cache : J["cache"].get<long>(), L.accepted);
  L.obj->set_cache_max_size(static_cast<unsigned long>(L.cache));
  return L;
}

// ---- scatter simulation --------------------------------------------------------------------------------------
// Preconditions (ScatterSimulation.cxx; the same as in the C16 harness): non-arc-corrected, span 1, no view mashing, non-TOF
// template of a scanner with energy resolution and reference energy; exam info with an energy window; activity,
// attenuation and scatter-point images with the same (min_z+max_z)*voxel_size_z (check_z_to_middle_consistent: here all
// three share one grid); randomly_place_scatter_points=false (else rand() seeded with time()); an explicit scatter-point
// image, so that set_up may be called repeatedly ("set_up() called twice is currently not supported" only concerns the
// automatic down-sampling); >= 2 rings (set_up has a debug self check that reads 0 < 0 for a single ring).
typedef VoxelsOnCartesianGrid<float> Image;
//
// What histories (and the "next frame" variant of the fresh-object cases) change on ONE simulation object, always through the
// public setters and always followed by set_up():
//  * set_template_proj_data_info(): the SAME template again (next frame / gate), another template of the same scanner
//    (same number of detectors, other tangential / segment range), a template of ANOTHER scanner (two more detectors
//    per ring), a template followed by downsample_scanner(rings, dets) with explicit arguments;
//  * set_exam_info() / set_exam_info_sptr(): same or other energy window;
//  * set_activity_image_sptr(), set_density_image_sptr(), set_density_image_for_scatter_points_sptr(),
//    downsample_density_image_for_scatter_points(explicit zooms), downsample_images_to_scanner_size();
//  * set_attenuation_threshold() BEFORE the scatter points are sampled (the setter is always followed by a setter that
//    samples them; the other order is outside the property, see the C16 harness, F7);
//  * set_use_cache().
// Soundness: the object always has an EXPLICIT scatter-point image when set_up() runs (set_density_image_sptr() drops it,
// so every such call is followed by one of the two calls that make a new one): the automatic down-sampling inside set_up
// ("set_up() called twice is currently not supported", and the known C16 findings about DERIVED scatter-point images and
// derived zoom factors) is never reached.  All pool images and all template-sized images have the same axial extent
// (check_z_to_middle_consistent) whenever downsample_images_to_scanner_size() is used ("len_match"); every template of the
// pool has the rings and the ring spacing of the case's scanner.  A step that re-sets the images always re-sets BOTH pool
// images, so that the state of the object is a function of the Settings and a freshly configured object can be given the
// same state (the second oracle).
const float SC_THRESHOLDS[3] = { 0.01F, 0.03F, 0.005F }; // cm^-1; attenuation values are 0 or in [0.02, 0.18]
struct ScWorld
{
  shared_ptr<Scanner> sc;
  shared_ptr<ProjDataInfo> pdi;
  shared_ptr<ExamInfo> exam;
  shared_ptr<Image> act[2], att[2];
  // pools
  shared_ptr<ProjDataInfo> tmpl[4];
  int tmpl_down_dets[4] = { 0, 0, 0, 0 }; // > 0: set_template_proj_data_info is followed by downsample_scanner(rings, that many)
  shared_ptr<ExamInfo> exams[2];
  bool len_match = false;
  shared_ptr<SingleScatterSimulation> sim;
};

shared_ptr<Image>
make_sc_image(const json& J, const Scanner& sc, uint64_t seed, double lo, double hi, double p_zero)
{
  const int nx = J["nx"], nz = J["nz"];
  const double half = sc.get_inner_ring_radius() * J["extent"].get<double>();
  // len_match: the axial extent of VoxelsOnCartesianGrid(template), i.e. 2*rings-1 planes of half a ring spacing
  const double len = J.value("len_match", false) ? double(sc.get_num_rings() - 1) / sc.get_num_rings() : J["len"].get<double>();
  const double L = sc.get_ring_spacing() * sc.get_num_rings() * len;
  IndexRange3D range(0, nz - 1, -(nx / 2), -(nx / 2) + nx - 1, -(nx / 2), -(nx / 2) + nx - 1);
  shared_ptr<Image> im(new Image(range, CartesianCoordinate3D<float>(0, 0, 0),
                                 CartesianCoordinate3D<float>(float(L / (nz - 1)), float(2 * half / nx), float(2 * half / nx))));
  SplitMix g(seed);
  for (auto it = im->begin_all(); it != im->end_all(); ++it)
    {
      const bool zero = g.unit() < p_zero;
      const double u = g.unit();
      *it = float(zero ? 0. : lo + (hi - lo) * u);
    }
  return im;
}

//! set_template_proj_data_info (+ downsample_scanner with explicit arguments) for pool template k
void
sc_apply_template(const ScWorld& S, SingleScatterSimulation& sim, int k)
{
  sim.set_template_proj_data_info(*S.tmpl[k]);
  if (S.tmpl_down_dets[k] > 0)
    if (sim.downsample_scanner(S.tmpl[k]->get_scanner_ptr()->get_num_rings(), S.tmpl_down_dets[k]) != Succeeded::yes)
      throw std::runtime_error("ScatterSimulation::downsample_scanner returned Succeeded::no");
}

//! gives the object the explicit scatter-point image that the settings describe (samples the scatter points)
void
sc_apply_scatter_point_image(const ScWorld& S, SingleScatterSimulation& sim, const Settings& st)
{
  if (st.sc_sp_kind == 0)
    {
      sim.set_density_image_for_scatter_points_sptr(shared_ptr<const DiscretisedDensity<3, float>>(S.att[st.sc_sp_a % 2]->clone()));
      return;
    }
  // downsample_density_image_for_scatter_points(): "error() if zoom_z>0 and |(new_z-1)/(old_z-1) - zoom_z| > .1"; new_z, old_z >= 2
  // (pool images have 2..4 planes, template-sized images 2*rings-1 >= 3); at most 7x7 columns (cost)
  const Image& att = dynamic_cast<const Image&>(sim.get_attenuation_image());
  const int old_z = att.get_z_size(), old_x = att.get_x_size();
  if (old_z < 2)
    throw std::logic_error("harness: attenuation image with one plane");
  const int new_z = 2 + (st.sc_sp_a / 3) % (std::min(old_z, 4) - 1);
  const float zoom_z = float(new_z - 1) / float(old_z - 1);
  static const float zxy[3] = { 0.5F, 0.75F, 1.F };
  const float zoom_xy = zxy[st.sc_sp_a % 3] * std::min(1.F, 6.F / float(old_x));
  sim.downsample_density_image_for_scatter_points(zoom_xy, zoom_z, -1, new_z);
}

//! configures a simulation object such that it is in the state that the settings describe
void
sc_configure(const ScWorld& S, SingleScatterSimulation& sim, const Settings& st)
{
  sim.set_attenuation_threshold(SC_THRESHOLDS[st.sc_thr % 3]);
  sim.set_randomly_place_scatter_points(false);
  sim.set_use_cache(st.sc_cache);
  sim.set_exam_info(*S.exams[st.sc_exam % 2]);
  sc_apply_template(S, sim, st.sc_down >= 0 ? st.sc_down : st.sc_tmpl);
  sim.set_activity_image_sptr(S.act[st.act % 2]);
  sim.set_density_image_sptr(S.att[st.sc_att % 2]);
  if (st.sc_down >= 0)
    if (sim.downsample_images_to_scanner_size() != Succeeded::yes)
      throw std::runtime_error("ScatterSimulation::downsample_images_to_scanner_size returned Succeeded::no");
  sc_apply_scatter_point_image(S, sim, st);
  if (st.sc_down >= 0 && st.sc_down != st.sc_tmpl)
    sc_apply_template(S, sim, st.sc_tmpl);
}

ScWorld
make_scatter(const json& c, const Settings& st)
{
  ScWorld S;
  const json& J = c["scat"];
  S.sc = vg::make_scanner(c["scanner"]);
  S.pdi = vg::make_pdi(S.sc, c["pdi"]);
  S.len_match = J.value("len_match", false);
  const int ndet = S.sc->get_num_detectors_per_ring(), rings = S.sc->get_num_rings();
  const uint64_t seed = c["dseed"].get<uint64_t>();
  // ---- templates: [0] the case's, [1] same scanner (same detectors), other tangential and / or segment range,
  //      [2] ANOTHER scanner: two more (or, at the upper end, two fewer) detectors per ring, one crystal per block,
  //      [3] template 0 followed by downsample_scanner(rings, new_dets): "new max tangential bins =
  //          ceil(tang*new_dets/old_dets)+1", must stay <= new_dets-1 (distinct detectors; as in the C16 harness)
  S.tmpl[0] = S.pdi;
  {
    json p = c["pdi"];
    const int tang = p["tang"].get<int>(), max_delta = p["max_delta"].get<int>();
    SplitMix g(seed ^ 0x7e3a1ULL);
    int tang1 = 2 + int(g.range(0, ndet - 3));
    if (tang1 == tang)
      tang1 = tang > 2 ? tang - 1 : tang + 1;
    p["tang"] = tang1;
    if (g.range(0, 1) == 1)
      p["max_delta"] = max_delta > 0 ? max_delta - 1 : rings - 1;
    S.tmpl[1] = vg::make_pdi(S.sc, p);
    json sj = c["scanner"];
    const int ndet2 = ndet >= 14 ? ndet - 2 : ndet + 2;
    sj["ndet"] = ndet2;
    sj["tr_cryst_per_block"] = 1;
    sj["tr_blocks_per_bucket"] = 1;
    sj["max_tang"] = ndet2 - 1;
    json p2 = c["pdi"];
    p2["views"] = ndet2 / 2;
    p2["tang"] = std::min(tang, ndet2 - 1);
    S.tmpl[2] = vg::make_pdi(vg::make_scanner(sj), p2);
    S.tmpl[3] = S.pdi;
    std::vector<int> ok;
    for (int nd = 4; nd <= ndet; nd += 2)
      if (int(std::ceil(double(tang) * nd / ndet)) + 1 <= nd - 1)
        ok.push_back(nd);
    if (!ok.empty())
      S.tmpl_down_dets[3] = ok[std::size_t(g.range(0, long(ok.size()) - 1))];
    else
      S.tmpl[3] = S.tmpl[1];
  }
  // ---- energy windows
  S.exam.reset(new ExamInfo(ImagingModality::PT));
  S.exam->set_low_energy_thres(J["low"].get<float>());
  S.exam->set_high_energy_thres(J["high"].get<float>());
  S.exams[0] = S.exam;
  S.exams[1].reset(new ExamInfo(ImagingModality::PT));
  S.exams[1]->set_low_energy_thres(J["low"].get<float>() > 400.F ? 375.F : 440.F);
  S.exams[1]->set_high_energy_thres(J["high"].get<float>() > 620.F ? 580.F : 680.F);
  // ---- images
  S.act[0] = make_sc_image(J, *S.sc, seed ^ 0x11, 0.1, 1., J["p_zero"].get<double>());
  S.act[1] = make_sc_image(J, *S.sc, seed ^ 0x22, 0.1, 1., J["p_zero"].get<double>());
  S.att[0] = make_sc_image(J, *S.sc, seed ^ 0x33, 0.02, 0.18, 0.15); // cm^-1
  S.att[1] = make_sc_image(J, *S.sc, seed ^ 0x44, 0.02, 0.18, 0.25);
  S.sim.reset(new SingleScatterSimulation);
  sc_configure(S, *S.sim, st);
  return S;
}

void
run_scatter(SingleScatterSimulation& sim, std::vector<double>& out)
{
  shared_ptr<ProjDataInMemory> pd(new ProjDataInMemory(sim.get_exam_info_sptr(), sim.get_template_proj_data_info_sptr()->create_shared_clone()));
  pd->fill(-1.F); // every bin must be written
  sim.set_output_proj_data_sptr(pd);
  if (sim.process_data() != Succeeded::yes)
    throw std::runtime_error("ScatterSimulation::process_data returned Succeeded::no");
  append(out, *pd);
}

int
workload_family(int workload)
{ // 0 projectors, 1 projection-data objective, 2 geometry tables, 3 list-mode objective, 4 scatter simulation
  return workload <= 1 ? 0 : workload <= 5 ? 1 : workload == 6 ? 2 : workload == 7 ? 3 : 4;
}

//! workload 8 with fresh objects: set_up + process_data, then for every entry [code, a, b] of c["scat"]["frames"] (the next
//! frame / gate: the same template again, another energy window, another activity image ...) that step and process_data again
//! on the SAME object; all results are compared with the single-thread run (defined behind FamScatter)
void run_scatter_frames(const json& c, std::vector<double>& out);

// ---- (a) fresh objects in every repetition ------------------------------------------------------------------------
//! run the workload once with fresh objects; returns the flattened result
std::vector<double>
run_workload(const json& c, int threads, bool perturb, uint64_t pseed, const std::string& dir)
{
  const int workload = c["workload"].get<int>();
  const Settings st = initial_settings(c);
  World w;
  if (workload != 8)
    w = make_world(c, st, dir);
  threads_via_stir(threads);
  if (perturb)
    perturb_on(c, pseed);
  std::vector<double> out;
  try
    {
      // (12.9) "inval" > 0: an invalidating setter on the ProjDataInfo that data, projectors and matrix SHARE, directly before
      // the multi-threaded workload (inval_first: before the set_up, the order of the library's own test)
      const int inval = c.value("inval", 0);
      const bool inval_first = c.value("inval_first", false);
      auto invalidate = [&](bool before_set_up) {
        if (inval > 0 && workload <= 5 && (before_set_up == inval_first || workload >= 2))
          invalidate_tables(*w.pdi, inval == 8 ? 0 : inval - 1, c["subset"].get<int>());
      };
      if (workload == 0)
        { // forward projection of a whole data set
          invalidate(true);
          w.pair->set_up(w.pdi, w.image);
          invalidate(false);
          const shared_ptr<ProjData> res = make_forward_output(c.value("fwd_out", 0), w.data->get_exam_info_sptr(), w.pdi, dir,
                                                               (c["dseed"].get<uint64_t>() & 2) != 0, "fwd.s");
          w.pair->get_forward_projector_sptr()->forward_project(*res, *w.image);
          append_forward_output(out, *res);
        }
      else if (workload == 6)
        { // lazily built geometry tables used concurrently from the first call on (fresh ProjDataInfo):
          // a ProjDataInfo object nobody has asked anything yet: its tables are built inside the parallel loop
          const shared_ptr<ProjDataInfo> fresh_pdi = vg::make_pdi(w.sc, c["pdi"]);
          // the constructor builds the ring-difference tables eagerly; every geometry setter re-arms their lazy
          // construction (documented in ProjDataInfoCylindrical.h), e.g. after set_ring_spacing()
          if (c.value("inval", 0) == 8 && fresh_pdi->get_num_segments() >= 3)
            fresh_pdi->reduce_segment_range(fresh_pdi->get_min_segment_num() + 1, fresh_pdi->get_max_segment_num() - 1);
          if (c.value("inval", 0) > 0)
            invalidate_tables(*fresh_pdi, c.value("inval", 0) == 8 ? 0 : c.value("inval", 0) - 1, c["subset"].get<int>());
          else if (ProjDataInfoCylindrical* pc = dynamic_cast<ProjDataInfoCylindricalNoArcCorr*>(fresh_pdi.get()))
            if (c["subset"].get<int>() % 3 != 0)
              pc->set_ring_spacing(pc->get_ring_spacing());
          const bool copies = c.value("copies", false); // threads copy the object while others make the first table-using calls
          const uint64_t cseed = c["dseed"].get<uint64_t>() ^ 0xc0b1e5ULL;
          const ProjDataInfoCylindricalNoArcCorr* p = dynamic_cast<const ProjDataInfoCylindricalNoArcCorr*>(fresh_pdi.get());
          const ProjDataInfoGenericNoArcCorr* pg = dynamic_cast<const ProjDataInfoGenericNoArcCorr*>(fresh_pdi.get());
          if (copies)
            {
              const int inval_v = c.value("inval", 0);
              const std::function<shared_ptr<ProjDataInfo>()> factory = [&]() {
                shared_ptr<ProjDataInfo> n = vg::make_pdi(w.sc, c["pdi"]);
                if (inval_v == 8 && n->get_num_segments() >= 3)
                  n->reduce_segment_range(n->get_min_segment_num() + 1, n->get_max_segment_num() - 1);
                return n;
              };
              if (p)
                race_rounds<ProjDataInfoCylindricalNoArcCorr>(factory, *w.sc, c.value("race_rounds", 0), cseed, out);
              else if (pg)
                race_rounds<ProjDataInfoGenericNoArcCorr>(factory, *w.sc, c.value("race_rounds", 0), cseed, out);
            }
          if (p && copies)
            query_tables_with_copies(fresh_pdi, p, *w.sc, c["subset"].get<int>() % 2 == 0, cseed, out);
          else if (pg && copies)
            query_tables_with_copies(fresh_pdi, pg, *w.sc, c["subset"].get<int>() % 2 == 0, cseed, out);
          else if (p)
            query_tables(p, *w.sc, c["subset"].get<int>() % 2 == 0, out);
          else if (pg) // BlocksOnCylindrical scanner: the tables of ProjDataInfoGenericNoArcCorr are built inside the loop
            query_tables(pg, *w.sc, c["subset"].get<int>() % 2 == 0, out);
          else
            throw std::runtime_error("workload 6 needs no-arc-correction data of a scanner with discrete detectors");
        }
      else if (workload == 1)
        { // back projection of a whole data set
          invalidate(true);
          w.pair->set_up(w.pdi, w.image);
          invalidate(false);
          shared_ptr<target_type> res(w.image->get_empty_copy());
          w.pair->get_back_projector_sptr()->back_project(*res, *w.data);
          append(out, *res);
        }
      else if (workload == 7)
        { // list-mode objective function: gradient (data term), value, Hessian x vector, sensitivity
          LMWorld L = make_lm(c, w, st, dir.empty() ? tmp_root() : dir);
          shared_ptr<target_type> target(w.image->clone());
          if (L.obj->set_up(target) != Succeeded::yes)
            {
              perturb_off();
              throw std::runtime_error("list-mode objective function set_up failed");
            }
          const int subset = c["subset"].get<int>() % L.obj->get_num_subsets();
          shared_ptr<target_type> grad(target->get_empty_copy());
          L.obj->compute_sub_gradient_without_penalty_plus_sensitivity(*grad, *target, subset);
          append(out, *grad);
          out.push_back(L.obj->compute_objective_function_without_penalty(*target, subset));
          shared_ptr<target_type> res(target->get_empty_copy());
          L.obj->accumulate_sub_Hessian_times_input_without_penalty(*res, *target, *w.image2, subset);
          append(out, *res);
          append(out, L.obj->get_subset_sensitivity(subset));
        }
      else if (workload == 8)
        run_scatter_frames(c, out); // set_up, process_data and the generated "next frame" steps on the same object
      else
        {
          shared_ptr<PDObj> objp = make_pd_objective(w, st);
          PDObj& obj = *objp;
          shared_ptr<target_type> target(w.image->clone());
          invalidate(true); // the sensitivities (parallel back projection inside set_up) are the first use
          if (obj.set_up(target) != Succeeded::yes)
            {
              perturb_off();
              throw std::runtime_error("objective function set_up failed");
            }
          invalidate(false);
          const int subset = c["subset"].get<int>() % obj.get_num_subsets();
          if (workload == 2)
            out.push_back(obj.compute_objective_function(*target));
          else if (workload == 3)
            {
              shared_ptr<target_type> grad(target->get_empty_copy());
              obj.compute_sub_gradient(*grad, *target, subset);
              append(out, *grad);
            }
          else if (workload == 4)
            {
              append(out, obj.get_subset_sensitivity(subset));
              shared_ptr<target_type> grad(target->get_empty_copy());
              obj.compute_sub_gradient_without_penalty_plus_sensitivity(*grad, *target, subset);
              append(out, *grad);
            }
          else
            {
              shared_ptr<target_type> res(target->get_empty_copy());
              shared_ptr<target_type> dir_im(target->clone());
              vg::fill_random(*dir_im, c["dseed"].get<uint64_t>() ^ 0x77, 0.1, 1.);
              obj.accumulate_sub_Hessian_times_input(*res, *target, *dir_im, subset);
              append(out, *res);
            }
        }
    }
  catch (...)
    {
      perturb_off();
      threads_via_stir(1);
      throw;
    }
  perturb_off();
  threads_via_stir(1);
  return out;
}

//! comparison of one result with its single-thread reference.  Tolerance: 1e-4 of the maximum of the reference (float
//! reassociation of per-thread partial sums; observed maxima are in the evidence); exact for the geometry tables
//! (integer-valued bin codes / counts; every number is computed by one thread) and for an all-zero reference; 1e-6 for the
//! scatter simulation (every bin is computed by one thread, cached integrals are the same floats: observed difference 0).
bool
compare(const std::vector<double>& got, const std::vector<double>& ref, int workload, const std::string& what, std::string& msg, double* scale_out = nullptr)
{
  if (got.size() != ref.size())
    {
      msg = cat(what, ": result size differs: ", got.size(), " vs ", ref.size());
      return false;
    }
  double scale = 0;
  for (double v : ref)
    scale = std::max(scale, std::fabs(v));
  if (scale_out)
    *scale_out = scale;
  double maxdiff = 0;
  std::size_t where = 0;
  for (std::size_t i = 0; i < ref.size(); ++i)
    {
      const double d = std::fabs(got[i] - ref[i]);
      if (!(d <= maxdiff))
        {
          maxdiff = d;
          where = i;
        }
    }
  if (scale > 0)
    stats().maxi(cat("max rel diff workload ", workload), maxdiff / scale);
  const double tol = workload == 6 ? 0. : workload == 8 ? 1e-6 : 1e-4;
  if (!(maxdiff <= tol * scale))
    {
      msg = cat(what, " differs from the single-thread result: |diff|=", maxdiff, " at element ", where, " (", ref.empty() ? 0. : got[where], " vs ",
                ref.empty() ? 0. : ref[where], "), scale ", scale);
      return false;
    }
  return true;
}

// ---- (b) object-reuse histories -----------------------------------------------------------------------------------
enum StepFlags
{
  F_BP = 1,       // uses the per-thread output images of a BackProjectorByBin
  F_SETUP = 2,    // (re-)sets up the projectors at the thread count of that moment
  F_IMPLICIT = 4, // reaches setup_distributable_computation(), i.e. STIR's own set_num_threads()
  F_RESULT = 8    // produces a result that is compared
};

struct Step
{
  int T, via; // via: 0 omp_set_num_threads(T), 1 stir::set_num_threads(T), 2 thread count left as it is
  int code, a, b;
  bool inserted;
};

//! one family of objects that live through a history
struct Family
{
  virtual ~Family() {}
  virtual int num_codes() const = 0;
  virtual int flags(int code) const = 0;
  virtual int setup_code() const = 0;
  virtual const char* name(int code) const = 0;
  virtual void exec(int code, int a, int b, std::vector<double>& out) = 0;
  virtual Settings settings() const { return Settings(); }
  //! the operation that produces the result of a step without changing any setting (what a fresh object is asked to do)
  virtual int result_code(int code) const { return code; }
  //! raw third entry of a generated step -> operation: numbers below num_codes() are the operation itself (fixed cases, saved
  //! replays, shrinking towards small numbers), larger ones are spread over the family's weight table such that about half of
  //! the steps produce a result that is compared
  virtual const std::vector<int>& weights() const = 0;
  int decode(long raw) const
  {
    if (raw < num_codes())
      return int(raw);
    const std::vector<int>& w = weights();
    return w[std::size_t(raw) % w.size()];
  }
};

std::vector<int>
subset_choice(int views, int b, int& subset)
{ // number of subsets: a divisor of the number of views (balanced), as for the objective functions
  const std::vector<int> d = vg::divisors(views);
  const int nsub = d[std::size_t(b) % d.size()];
  subset = (b / 16) % nsub;
  return { nsub };
}

// -- projector pair + matrix with its cache
struct FamProjectors : Family
{
  Settings settings() const override { return st; }
  enum
  {
    FWD = 0,
    BACK,
    FWD2,
    BACK2,
    CLEAR_CACHE,
    SET_UP,
    SET_CACHE,
    SET_LORS,
    SET_SYM,  // other (or the same) symmetry switches + set_up: the matrix rebuilds its symmetries and drops the cache
    SET_GEOM, // set_up for the other (or the same) image geometry: matrix cache, cache locks and the per-thread images
              // of the back projector (created lazily, one per thread that did some work) live through it
    INVAL_FWD,  // an invalidating setter on the shared ProjDataInfo (same value), then at once a forward projection
    INVAL_BACK, // ... a back projection
    SUBSET_FWD, // the scenario of test_proj_data_info_subsets: ProjDataInfoSubsetByView of the data's info and a clone of it,
                // reduce_segment_range on both, projectors set up for them, forward projection of the subset and of the full data
    N
  };
  World w;
  Settings st;
  std::string dir;
  int num_fwd = 0;
  const VoxelsOnCartesianGrid<float>& im(int which) const
  {
    return st.geom ? (which ? *w.image2B : *w.imageB) : (which ? *w.image2 : *w.image);
  }
  void set_up_pair() { w.pair->set_up(w.pdi, st.geom ? w.imageB : w.image); }
  const std::vector<int>& weights() const override
  {
    static const std::vector<int> w{ FWD, BACK, FWD2, BACK2, FWD, BACK, INVAL_BACK, INVAL_FWD, CLEAR_CACHE, SET_UP, SET_CACHE, SET_LORS, SET_SYM, SET_GEOM, SET_GEOM, CLEAR_CACHE, INVAL_FWD, SUBSET_FWD, INVAL_FWD };
    return w;
  }
  FamProjectors(const json& c, const std::string& dir_v, const Settings* o)
      : st(o ? *o : initial_settings(c)),
        dir(dir_v)
  {
    w = make_world(c, st, dir);
  }
  int num_codes() const override { return N; }
  int setup_code() const override { return SET_UP; }
  int flags(int code) const override
  {
    switch (code)
      {
      case FWD:
      case FWD2:
      case INVAL_FWD:
      case SUBSET_FWD:
        return F_RESULT;
      case BACK:
      case BACK2:
      case INVAL_BACK:
        return F_RESULT | F_BP;
      case CLEAR_CACHE:
        return 0;
      default:
        return F_SETUP;
      }
  }
  const char* name(int code) const override
  {
    static const char* n[] = { "forward_project", "back_project", "forward_project", "back_project", "clear_cache", "set_up", "cache mode + set_up", "num_tangential_LORs + set_up",
                               "symmetry switches + set_up", "set_up for the other image geometry",
                               "invalidating setter on the shared ProjDataInfo + forward_project", "invalidating setter on the shared ProjDataInfo + back_project",
                               "subset by view + reduce_segment_range + set_up + forward_project (subset and full)" };
    return n[code];
  }
  void exec(int code, int a, int b, std::vector<double>& out) override
  {
    int subset = 0;
    const int nsub = subset_choice(w.pdi->get_num_views(), b, subset)[0];
    if (code == INVAL_FWD || code == INVAL_BACK)
      stats().count(cat("invalidating setter before a projection: ", invalidate_tables(*w.pdi, b / 64, b)));
    switch (code)
      {
      case SUBSET_FWD:
        {
          // views of the subset: every k-th view from an offset (k = 1: all views)
          const int nv = w.pdi->get_num_views();
          const int k = 1 + (a % 4) % nv;
          std::vector<int> views;
          for (int v = (a / 4) % k; v < nv; v += k)
            views.push_back(v);
          const bool real_reduction = (a / 16) % 2 == 0 && w.pdi->get_num_segments() >= 3;
          // Seen, outside the statement (fails with ONE thread as well): for a BlocksOnCylindrical scanner
          // DataSymmetriesForBins_PET_CartesianGrid::find_basic_bin static_casts the ProjDataInfo to ProjDataInfoBlocksOnCylindrical,
          // which a ProjDataInfoSubsetByView is not (range assertion in get_min_ring_difference): blocks data do the "full" half only.
          const bool blocks = dynamic_cast<const ProjDataInfoGenericNoArcCorr*>(w.pdi.get()) != nullptr;
          if (blocks)
            stats().count("subset-by-view step on blocks data: only the full-data half (subset + blocks symmetries: not a thread matter)");
          for (int which = blocks ? 1 : 0; which < 2; ++which)
            {
              shared_ptr<ProjDataInfo> info(which == 0 ? static_cast<ProjDataInfo*>(new ProjDataInfoSubsetByView(w.pdi, views)) : w.pdi->clone());
              if (real_reduction)
                info->reduce_segment_range(info->get_min_segment_num() + 1, info->get_max_segment_num() - 1);
              else
                info->reduce_segment_range(info->get_min_segment_num(), info->get_max_segment_num());
              ProjDataInMemory res(w.data->get_exam_info_sptr(), info);
              Settings s2 = st;
              s2.sym = st.sym & 16; // view / s / segment symmetries need the full set of views (the library test uses regular subsets)
              shared_ptr<ProjMatrixByBinUsingRayTracing> m2 = make_matrix(json(), s2);
              ProjectorByBinPairUsingProjMatrixByBin pair2(m2);
              pair2.set_up(res.get_proj_data_info_sptr(), st.geom ? w.imageB : w.image);
              pair2.get_forward_projector_sptr()->forward_project(res, im(a % 2));
              append(out, res);
            }
          break;
        }
      case FWD:
      case FWD2:
      case INVAL_FWD:
        {
          // (a / 2) % 4: 0, 1 fresh in-memory output (all that saved cases use), 2 pre-filled in-memory output, 3 a pre-filled file
          const int kind = (a / 2) % 4 <= 1 ? 0 : (a / 2) % 4 - 1;
          const shared_ptr<ProjData> res = make_forward_output(kind, w.data->get_exam_info_sptr(), w.pdi, dir, (a / 8) % 2 != 0, cat("fwd", ++num_fwd, ".s"));
          w.pair->get_forward_projector_sptr()->forward_project(*res, im(a % 2), subset, nsub);
          append_forward_output(out, *res);
          if (kind)
            stats().count(kind == 1 ? "history: forward projection into a pre-filled ProjDataInMemory" : "history: forward projection into a file");
          break;
        }
      case BACK:
      case BACK2:
      case INVAL_BACK:
        {
          shared_ptr<target_type> res(im(0).get_empty_copy());
          w.pair->get_back_projector_sptr()->back_project(*res, *w.data, subset, nsub);
          append(out, *res);
          break;
        }
      case CLEAR_CACHE:
        w.matrix->clear_cache();
        break;
      case SET_CACHE:
        st.cache = a % 3;
        apply_matrix_settings(*w.matrix, st);
        set_up_pair();
        break;
      case SET_LORS:
        st.lors = std::min(1 + a % 2, st.max_lors);
        apply_matrix_settings(*w.matrix, st);
        set_up_pair();
        break;
      case SET_SYM:
        // every combination of the five switches is in the domain of the fresh-object cases as well (gen: "sym")
        st.sym = a % 4 == 0 ? st.sym : (a % 4 == 1 ? 31 : (a / 4) % 32);
        apply_matrix_settings(*w.matrix, st);
        set_up_pair();
        break;
      case SET_GEOM:
        st.geom = a % 2;
        set_up_pair();
        break;
      default:
        set_up_pair();
      }
  }
};

// -- objective function for projection data (owns the projector pair, which is also used directly)
struct FamObjective : Family
{
  Settings settings() const override { return st; }
  enum
  {
    VALUE = 0,
    GRAD,
    GRADPLUS,
    SENS,
    HESS,
    HESS_APPROX,
    SET_UP,
    CLEAR_CACHE,
    SET_NSUB,
    PAIR_BACK,
    GRAD2,
    HESS2,
    SET_DATA, // the SAME data / projector pair given again (set_proj_data_sptr, set_projector_pair_sptr) + set_up
    SET_ADD,  // additive term on / off / the same again + set_up
    SET_NORM, // normalisation on / off / the same again + set_up
    SET_GEOM, // set_up for the other (or the same) target geometry
    SET_SYM,  // other (or the same) symmetry switches of the matrix + set_up
    INVAL_GRAD, // an invalidating setter on the ProjDataInfo shared by data, projectors and matrix (same value), then at once the gradient
    INVAL_HESS, // ... the Hessian product
    INVAL_SET_UP, // ... set_up (the sensitivities are the first use)
    N
  };
  World w;
  Settings st;
  shared_ptr<PDObj> obj;
  shared_ptr<target_type> targets[2], targets2[2], dir_ims[2];
  const std::vector<int>& weights() const override
  {
    static const std::vector<int> w{ VALUE, GRAD, GRADPLUS, SENS, HESS, HESS_APPROX, PAIR_BACK, GRAD2, HESS2, INVAL_GRAD, INVAL_HESS, SET_UP, CLEAR_CACHE, SET_NSUB, SET_DATA, SET_ADD, SET_NORM, SET_GEOM, SET_SYM, INVAL_SET_UP, CLEAR_CACHE, SET_GEOM, INVAL_GRAD, INVAL_HESS };
    return w;
  }
  FamObjective(const json& c, const std::string& dir, const Settings* o)
      : st(o ? *o : initial_settings(c))
  {
    w = make_world(c, st, dir);
    obj = make_pd_objective(w, st);
    targets[0].reset(w.image->clone());
    targets2[0].reset(w.image2->clone());
    targets[1].reset(w.imageB->clone());
    targets2[1].reset(w.image2B->clone());
    for (int g = 0; g < 2; ++g)
      {
        dir_ims[g].reset(targets[g]->clone());
        vg::fill_random(*dir_ims[g], c["dseed"].get<uint64_t>() ^ 0x77 ^ uint64_t(g * 0x5151), 0.1, 1.);
      }
  }
  int num_codes() const override { return N; }
  int setup_code() const override { return SET_UP; }
  int flags(int code) const override
  {
    switch (code)
      {
      case VALUE:
        return F_RESULT | F_IMPLICIT;
      case GRAD:
      case GRAD2:
      case GRADPLUS:
      case INVAL_GRAD:
        return F_RESULT | F_IMPLICIT | F_BP;
      case SENS:
        return F_RESULT;
      case HESS:
      case HESS2:
      case HESS_APPROX:
      case PAIR_BACK:
      case INVAL_HESS:
        return F_RESULT | F_BP;
      case CLEAR_CACHE:
        return 0;
      default: // set_up: projector set_up, then (first time in the process) the reset of the thread count, then the sensitivities
        return F_SETUP | F_IMPLICIT | F_BP;
      }
  }
  const char* name(int code) const override
  {
    static const char* n[] = { "compute_objective_function", "compute_sub_gradient", "compute_sub_gradient_without_penalty_plus_sensitivity",
                               "get_subset_sensitivity", "accumulate_sub_Hessian_times_input", "add_multiplication_with_approximate_sub_Hessian",
                               "set_up", "clear_cache", "set_num_subsets + set_up", "back_project with the objective function's projector pair",
                               "compute_sub_gradient", "accumulate_sub_Hessian_times_input",
                               "set_proj_data_sptr / set_projector_pair_sptr (the same again) + set_up", "set_additive_proj_data_sptr + set_up",
                               "set_normalisation_sptr + set_up", "set_up for the other target geometry", "symmetry switches + set_up",
                               "invalidating setter on the shared ProjDataInfo + compute_sub_gradient", "invalidating setter on the shared ProjDataInfo + accumulate_sub_Hessian_times_input",
                               "invalidating setter on the shared ProjDataInfo + set_up" };
    return n[code];
  }
  void do_set_up()
  {
    if (obj->set_up(targets[st.geom]) != Succeeded::yes)
      throw std::runtime_error("objective function set_up failed");
  }
  void exec(int code, int a, int b, std::vector<double>& out) override
  {
    const int subset = b % obj->get_num_subsets();
    const shared_ptr<target_type>& target = targets[st.geom];
    const target_type& cur = a % 2 ? *targets2[st.geom] : *target;
    const target_type& dir_im = *dir_ims[st.geom];
    if (code == INVAL_GRAD || code == INVAL_HESS || code == INVAL_SET_UP)
      stats().count(cat("invalidating setter before an objective-function step: ", invalidate_tables(*w.pdi, b / 64, b)));
    switch (code)
      {
      case VALUE:
        out.push_back(obj->compute_objective_function(cur));
        break;
      case GRAD:
      case GRAD2:
      case INVAL_GRAD:
        {
          shared_ptr<target_type> g(target->get_empty_copy());
          obj->compute_sub_gradient(*g, cur, subset);
          append(out, *g);
          break;
        }
      case GRADPLUS:
        {
          shared_ptr<target_type> g(target->get_empty_copy());
          obj->compute_sub_gradient_without_penalty_plus_sensitivity(*g, cur, subset);
          append(out, *g);
          break;
        }
      case SENS:
        append(out, obj->get_subset_sensitivity(subset));
        break;
      case HESS:
      case HESS2:
      case INVAL_HESS:
        {
          shared_ptr<target_type> r(target->get_empty_copy());
          obj->accumulate_sub_Hessian_times_input(*r, cur, dir_im, subset);
          append(out, *r);
          break;
        }
      case HESS_APPROX:
        {
          shared_ptr<target_type> r(target->get_empty_copy());
          obj->add_multiplication_with_approximate_sub_Hessian(*r, dir_im, subset);
          append(out, *r);
          break;
        }
      case CLEAR_CACHE:
        w.matrix->clear_cache();
        break;
      case SET_NSUB:
        {
          const std::vector<int> d = vg::divisors(w.pdi->get_num_views());
          st.nsub = d[std::size_t(a) % d.size()];
          obj->set_num_subsets(st.nsub);
          do_set_up();
          break;
        }
      case PAIR_BACK:
        {
          shared_ptr<target_type> r(target->get_empty_copy());
          w.pair->get_back_projector_sptr()->back_project(*r, *w.data);
          append(out, *r);
          break;
        }
      case SET_DATA:
        if (a % 2)
          obj->set_proj_data_sptr(w.data);
        else
          obj->set_projector_pair_sptr(w.pair);
        do_set_up();
        break;
      case SET_ADD:
        st.use_add = a % 3 == 0 ? st.use_add : a % 3 == 1;
        obj->set_additive_proj_data_sptr(st.use_add ? shared_ptr<ExamData>(w.add) : shared_ptr<ExamData>());
        do_set_up();
        break;
      case SET_NORM:
        st.use_norm = a % 3 == 0 ? st.use_norm : a % 3 == 1;
        obj->set_normalisation_sptr(st.use_norm ? shared_ptr<BinNormalisation>(new BinNormalisationFromProjData(w.mult))
                                                : shared_ptr<BinNormalisation>(new TrivialBinNormalisation));
        do_set_up();
        break;
      case SET_GEOM:
        st.geom = a % 2;
        do_set_up();
        break;
      case SET_SYM:
        st.sym = a % 4 == 0 ? st.sym : (a % 4 == 1 ? 31 : (a / 4) % 32);
        apply_matrix_settings(*w.matrix, st);
        do_set_up();
        break;
      default:
        do_set_up();
      }
  }
};

// -- ProjDataInfo with its lazily built tables
struct FamTables : Family
{
  Settings settings() const override { return st; }
  enum
  {
    QUERY = 0,
    REARM,
    QUERY_TABLES_FIRST,
    REARM_SAME_VALUE, // one of the other setters documented to re-arm the tables, called with the value it already has
    COPY,             // the look-ups continue on a copy (clone) of the used object (its tables may be built or re-armed)
    TOGGLE_SPACING,   // set_ring_spacing(twice / once the scanner's): the tables have to be rebuilt with other contents
    REDUCE_SEGMENTS,  // reduce_segment_range(min+1, max-1) (once, if there are >= 3 segments)
    INVAL_QUERY_COPIES, // an invalidating setter (same value), then look-ups by threads while other threads copy the object
    QUERY_COPIES,       // look-ups while other threads copy the object (tables built or not, whatever the history left)
    N
  };
  Settings st;
  shared_ptr<Scanner> sc;
  shared_ptr<ProjDataInfo> pdi;
  const ProjDataInfoCylindricalNoArcCorr* p;
  float spacing0;
  void adopt(const shared_ptr<ProjDataInfo>& n)
  {
    pdi = n;
    p = dynamic_cast<const ProjDataInfoCylindricalNoArcCorr*>(pdi.get());
    if (!p)
      throw std::runtime_error("workload 6 needs cylindrical no-arc-correction data");
  }
  ProjDataInfoCylindrical& cyl() { return dynamic_cast<ProjDataInfoCylindrical&>(*pdi); }
  const std::vector<int>& weights() const override
  {
    static const std::vector<int> w{ QUERY, QUERY_TABLES_FIRST, QUERY, QUERY_TABLES_FIRST, INVAL_QUERY_COPIES, INVAL_QUERY_COPIES, QUERY_COPIES, REARM, REARM, REARM_SAME_VALUE, REARM_SAME_VALUE, COPY, TOGGLE_SPACING, REDUCE_SEGMENTS, INVAL_QUERY_COPIES };
    return w;
  }
  void apply_spacing() { cyl().set_ring_spacing((st.tb_state & 1) ? 2 * spacing0 : spacing0); }
  bool reduce()
  {
    if (pdi->get_num_segments() < 3)
      return false;
    pdi->reduce_segment_range(pdi->get_min_segment_num() + 1, pdi->get_max_segment_num() - 1);
    return true;
  }
  json pdi_json;
  FamTables(const json& c, const Settings* o)
      : st(o ? *o : Settings()),
        pdi_json(c["pdi"])
  {
    sc = vg::make_scanner(c["scanner"]);
    adopt(vg::make_pdi(sc, c["pdi"]));
    spacing0 = cyl().get_ring_spacing();
    if (st.tb_state & 2)
      reduce();
    if (st.tb_state & 1)
      apply_spacing();
  }
  int num_codes() const override { return N; }
  int setup_code() const override { return REARM; }
  int flags(int code) const override { return (code == QUERY || code == QUERY_TABLES_FIRST || code == INVAL_QUERY_COPIES || code == QUERY_COPIES) ? F_RESULT : 0; }
  int result_code(int code) const override { return code; }
  const char* name(int code) const override
  {
    static const char* n[] = { "table look-ups", "set_ring_spacing (re-arms the lazy tables)", "table look-ups (coordinates first)",
                               "set_min/max_ring_difference / set_min/max_axial_pos_num with the current value (re-arms the lazy tables)",
                               "look-ups continue on a clone", "set_ring_spacing(other value)", "reduce_segment_range",
                               "invalidating setter (same value) + table look-ups while other threads copy the object",
                               "table look-ups while other threads copy the object" };
    return n[code];
  }
  void exec(int code, int a, int b, std::vector<double>& out) override
  {
    switch (code)
      {
      case REARM:
        // every geometry setter re-arms the lazy construction of the ring-difference tables (ProjDataInfoCylindrical.h)
        apply_spacing();
        break;
      case REARM_SAME_VALUE:
        {
          const int seg = pdi->get_min_segment_num() + b % pdi->get_num_segments();
          switch (a % 4)
            {
            case 0:
              cyl().set_min_ring_difference(cyl().get_min_ring_difference(seg), seg);
              break;
            case 1:
              cyl().set_max_ring_difference(cyl().get_max_ring_difference(seg), seg);
              break;
            case 2:
              pdi->set_min_axial_pos_num(pdi->get_min_axial_pos_num(seg), seg);
              break;
            default:
              pdi->set_max_axial_pos_num(pdi->get_max_axial_pos_num(seg), seg);
            }
          break;
        }
      case COPY:
        adopt(shared_ptr<ProjDataInfo>(pdi->clone()));
        break;
      case INVAL_QUERY_COPIES:
      case QUERY_COPIES:
        if (code == INVAL_QUERY_COPIES)
          stats().count(cat("invalidating setter before the table look-ups: ", invalidate_tables(*pdi, a, b)));
        {
          const std::function<shared_ptr<ProjDataInfo>()> factory = [&]() {
            shared_ptr<ProjDataInfo> n = vg::make_pdi(sc, pdi_json);
            if ((st.tb_state & 2) && n->get_num_segments() >= 3)
              n->reduce_segment_range(n->get_min_segment_num() + 1, n->get_max_segment_num() - 1);
            if (st.tb_state & 1)
              dynamic_cast<ProjDataInfoCylindrical&>(*n).set_ring_spacing(2 * spacing0);
            return n;
          };
          race_rounds<ProjDataInfoCylindricalNoArcCorr>(factory, *sc, 6 + b % 12, uint64_t(a) * 7919ULL + uint64_t(b), out);
        }
        query_tables_with_copies(pdi, p, *sc, (a / 7) % 2 == 0, uint64_t(a) * 1000003ULL + uint64_t(b), out);
        break;
      case TOGGLE_SPACING:
        st.tb_state ^= 1;
        apply_spacing();
        break;
      case REDUCE_SEGMENTS:
        if (!(st.tb_state & 2) && reduce())
          st.tb_state |= 2;
        break;
      default:
        query_tables(p, *sc, code == QUERY_TABLES_FIRST, out);
      }
  }
};

// -- list-mode objective function
// The events (and their additive terms, looked up in a parallel loop over segments) are cached in batches of 'max cache
// size' events, in memory and in files my_CACHE<k>.bin under the cache path; set_up() with 'recompute cache' writes the
// files, without it the files found on disk are used as they are ("We will be ignoring any time frame definitions...").
struct FamListMode : Family
{
  Settings settings() const override { return st; }
  enum
  {
    GRADPLUS = 0,
    GRAD,
    VALUE,
    HESS,
    SENS,
    SET_UP,
    CLEAR_CACHE,
    GRADPLUS2,
    SET_NSUB,       // set_num_subsets + set_up
    SET_CACHE_SIZE, // set_cache_max_size(other or same) + set_up: other batches, cache files rewritten
    REUSE_CACHE,    // set_recompute_cache(false) + set_up: the cache files written by the previous set_up are used
    SET_ADD,        // set_additive_proj_data_sptr (again, or for the first time) + set_up
    N
  };
  World w;
  Settings st;
  LMWorld L;
  shared_ptr<target_type> target, target2, dir_im;
  // model of the cache files: STIR's own 'cache_size' member (0 becomes 1000000 in the first set_up without caching),
  // the number of files the last set_up wrote and the largest number any set_up wrote (files are never deleted)
  long obj_cache_size = 0, last_files = 0, max_files = 0;
  const std::vector<int>& weights() const override
  {
    static const std::vector<int> w{ GRADPLUS, GRAD, VALUE, HESS, SENS, GRADPLUS2, GRADPLUS, HESS, SET_UP, CLEAR_CACHE, SET_NSUB, SET_CACHE_SIZE, REUSE_CACHE, REUSE_CACHE, SET_ADD, SET_CACHE_SIZE };
    return w;
  }
  std::string cache_dir;
  FamListMode(const json& c, const std::string& dir, const std::string& cache_dir_v, const Settings* o)
      : st(o ? *o : initial_settings(c)),
        cache_dir(cache_dir_v)
  {
    w = make_world(c, st, dir);
    L = make_lm(c, w, st, cache_dir);
    st.lm_cache = L.cache;
    obj_cache_size = L.cache;
    target.reset(w.image->clone());
    target2.reset(w.image2->clone());
    dir_im.reset(w.image->clone());
    vg::fill_random(*dir_im, c["dseed"].get<uint64_t>() ^ 0x77, 0.1, 1.);
  }
  int num_codes() const override { return N; }
  int setup_code() const override { return SET_UP; }
  int flags(int code) const override
  {
    // set_up: the sensitivity back projector is set up and used in the same call, with the same number of threads;
    // the gradient / value / Hessian use local per-thread images sized by omp_get_max_threads() at the call
    switch (code)
      {
      case CLEAR_CACHE:
        return 0;
      case SET_UP:
      case SET_NSUB:
      case SET_CACHE_SIZE:
      case REUSE_CACHE:
      case SET_ADD:
        return F_SETUP | F_BP;
      default:
        return F_RESULT;
      }
  }
  const char* name(int code) const override
  {
    static const char* n[] = { "LM compute_sub_gradient_without_penalty_plus_sensitivity", "LM compute_sub_gradient_without_penalty",
                               "LM compute_objective_function_without_penalty", "LM accumulate_sub_Hessian_times_input_without_penalty",
                               "LM get_subset_sensitivity", "LM set_up", "clear_cache", "LM compute_sub_gradient_without_penalty_plus_sensitivity",
                               "LM set_num_subsets + set_up", "LM set_cache_max_size + set_up", "LM set_up re-using the cache files on disk",
                               "LM set_additive_proj_data_sptr + set_up" };
    return n[code];
  }
  void do_set_up(bool recompute = true)
  {
    if (!recompute)
      L.obj->set_recompute_cache(false);
    const Succeeded ok = L.obj->set_up(target);
    L.obj->set_recompute_cache(true);
    if (ok != Succeeded::yes)
      throw std::runtime_error("list-mode objective function set_up failed");
    if (!recompute)
      stats().count("list-mode set_up re-using the cache files on disk");
    if (recompute)
      {
        if (obj_cache_size > 0)
          { // set_up_before_sensitivity: "if (this->cache_size > 0 ...) cache_listmode_file()"; accepted % cache_size != 0
            last_files = L.accepted / obj_cache_size + 1;
            max_files = std::max(max_files, last_files);
          }
        else
          { // "else { this->cache_lm_file = false; this->cache_size = 1000000; }"
            obj_cache_size = 1000000;
            last_files = 0;
          }
        // the model is checked against the directory (a wrong model would make REUSE_CACHE read left-over files)
        long on_disk = 0;
        while (std::filesystem::exists(cat(cache_dir, "/my_CACHE", on_disk, ".bin")))
          ++on_disk;
        if (on_disk != max_files)
          throw std::logic_error(cat("harness: model of the list-mode cache files is wrong: ", on_disk, " files on disk, expected ", max_files));
      }
  }
  void exec(int code, int a, int b, std::vector<double>& out) override
  {
    const int subset = b % L.obj->get_num_subsets();
    const target_type& cur = a % 2 ? *target2 : *target;
    shared_ptr<target_type> r(target->get_empty_copy());
    switch (code)
      {
      case GRADPLUS:
      case GRADPLUS2:
        L.obj->compute_sub_gradient_without_penalty_plus_sensitivity(*r, cur, subset);
        append(out, *r);
        break;
      case GRAD:
        L.obj->compute_sub_gradient_without_penalty(*r, cur, subset);
        append(out, *r);
        break;
      case VALUE:
        out.push_back(L.obj->compute_objective_function_without_penalty(cur, subset));
        break;
      case HESS:
        L.obj->accumulate_sub_Hessian_times_input_without_penalty(*r, cur, *dir_im, subset);
        append(out, *r);
        break;
      case SENS:
        append(out, L.obj->get_subset_sensitivity(subset));
        break;
      case CLEAR_CACHE:
        w.matrix->clear_cache();
        break;
      case SET_NSUB:
        {
          const std::vector<int> d = vg::divisors(w.pdi->get_num_views());
          st.nsub = d[std::size_t(a) % d.size()];
          L.obj->set_num_subsets(st.nsub);
          do_set_up();
          break;
        }
      case SET_CACHE_SIZE:
        {
          static const long sizes[6] = { 0, 5, 17, 40, 120, 250 };
          st.lm_cache = a % 7 == 6 ? st.lm_cache : lm_cache_size(sizes[a % 7], L.accepted);
          L.obj->set_cache_max_size(static_cast<unsigned long>(st.lm_cache));
          obj_cache_size = st.lm_cache;
          do_set_up();
          break;
        }
      case REUSE_CACHE:
        // only when the files on disk are exactly those of the last set_up (no file with a higher number left over from a
        // set_up with smaller batches: the class counts the files it finds) and nothing was changed since; else recompute
        // (every setter step of this family ends with a recomputing set_up, so the files always describe the current settings)
        do_set_up(!(last_files > 0 && last_files == max_files));
        break;
      case SET_ADD:
        st.use_add = true; // (cannot be unset: the class has no way to clear 'has_add')
        L.obj->set_additive_proj_data_sptr(w.add);
        do_set_up();
        break;
      default:
        do_set_up();
      }
  }
};

// -- scatter simulation with its two caches (and the detector numbering they are indexed with)
// The caches are indexed [scatter point][detector number]; detector numbers are handed out in order of FIRST USE inside the
// parallel loop over bins (find_in_detection_points_vector), i.e. in thread-arrival order, and the list is emptied by
// set_template_proj_data_info().  Every setter that keeps or drops a cache, followed by set_up and process_data at another
// thread count, is therefore part of the alphabet: a cache that survives a renumbering is wrong with >= 2 threads only.
struct FamScatter : Family
{
  Settings settings() const override { return st; }
  enum
  {
    PROCESS = 0,
    SET_UP,
    TOGGLE_CACHE,
    SET_ACT,
    PROCESS2,
    TMPL_AGAIN,
    TMPL_OTHER,
    SET_EXAM,
    SET_ATT,
    SET_SP,
    DOWNSAMPLE_IMAGES,
    SET_THR,
    PROCESS3,
    N
  };
  Settings st;
  ScWorld S;
  FamScatter(const json& c, const Settings* o)
      : st(o ? *o : initial_settings(c))
  {
    S = make_scatter(c, st);
  }
  int num_codes() const override { return N; }
  int setup_code() const override { return SET_UP; }
  int flags(int code) const override { return (code == PROCESS || code == PROCESS2 || code == PROCESS3) ? F_RESULT : F_SETUP; }
  int result_code(int) const override { return PROCESS; }
  //! three of four setter steps are directly followed by process_data (at the same thread count), the others only by set_up
  //! (so that several setters can come between two simulations)
  static bool with_process(int a, int b) { return (a + b) % 4 != 0; }
  const std::vector<int>& weights() const override
  {
    static const std::vector<int> w{ PROCESS, PROCESS2, PROCESS3, SET_UP, TOGGLE_CACHE, SET_ACT, SET_ACT, TMPL_AGAIN, TMPL_AGAIN, TMPL_AGAIN, TMPL_OTHER, TMPL_OTHER, SET_EXAM, SET_EXAM, SET_ATT, SET_SP, DOWNSAMPLE_IMAGES, SET_THR };
    return w;
  }
  const char* name(int code) const override { return step_name(code); }
  static const char* step_name(int code)
  {
    static const char* n[] = { "scatter process_data",
                               "scatter set_up",
                               "scatter set_use_cache + set_up",
                               "scatter set_activity_image_sptr + set_up",
                               "scatter process_data",
                               "scatter set_template_proj_data_info(the same template again) + set_up",
                               "scatter set_template_proj_data_info(template of the pool) + set_up",
                               "scatter set_exam_info + set_up",
                               "scatter set_density_image_sptr + scatter-point image + set_up",
                               "scatter new scatter-point image (set_density_image_for_scatter_points_sptr / downsample_density_image_for_scatter_points) + set_up",
                               "scatter downsample_images_to_scanner_size + set_up",
                               "scatter set_attenuation_threshold + scatter-point image + set_up",
                               "scatter process_data" };
    return n[code];
  }
  void do_set_up()
  {
    if (S.sim->set_up() != Succeeded::yes)
      throw std::runtime_error("scatter simulation set_up failed");
  }
  //! both pool images again (after downsample_images_to_scanner_size() the object holds derived images; giving it only one
  //! pool image would make a state that a freshly configured object cannot be given)
  void set_pool_images()
  {
    S.sim->set_activity_image_sptr(S.act[st.act % 2]);
    S.sim->set_density_image_sptr(S.att[st.sc_att % 2]); // drops the scatter-point image
    st.sc_down = -1;
    sc_apply_scatter_point_image(S, *S.sim, st);
  }
  void exec(int code, int a, int b, std::vector<double>& out) override
  {
    exec_step(code, a, b);
    if ((flags(code) & F_RESULT) || with_process(a, b))
      run_scatter(*S.sim, out);
  }
  void exec_step(int code, int a, int b)
  {
    switch (code)
      {
      case PROCESS:
      case PROCESS2:
      case PROCESS3:
        break;
      case TOGGLE_CACHE:
        // removes both caches.  The cache arrays are only allocated by set_up() (initialise_cache_for_...), and set_use_cache()
        // does not mark the object as not set up: switching the cache ON without a new set_up indexes empty arrays even with
        // one thread (not a subject of C18; the C16 harness also follows the setter by set_up) -> always followed by set_up
        st.sc_cache = !st.sc_cache;
        S.sim->set_use_cache(st.sc_cache);
        do_set_up();
        break;
      case SET_ACT:
        st.act = a % 2;
        if (st.sc_down >= 0)
          set_pool_images();
        else
          S.sim->set_activity_image_sptr(S.act[st.act]); // the attenuation caches stay
        do_set_up();
        break;
      case TMPL_AGAIN: // next frame / gate: the same template is given again
        sc_apply_template(S, *S.sim, st.sc_tmpl);
        do_set_up();
        break;
      case TMPL_OTHER:
        st.sc_tmpl = a % 4;
        sc_apply_template(S, *S.sim, st.sc_tmpl);
        do_set_up();
        break;
      case SET_EXAM:
        st.sc_exam = a % 2;
        if (b % 2)
          S.sim->set_exam_info_sptr(S.exams[st.sc_exam]);
        else
          S.sim->set_exam_info(*S.exams[st.sc_exam]);
        do_set_up();
        break;
      case SET_ATT:
        st.sc_att = a % 2;
        set_pool_images();
        do_set_up();
        break;
      case SET_SP:
        st.sc_sp_kind = a % 2;
        st.sc_sp_a = b % 18;
        sc_apply_scatter_point_image(S, *S.sim, st);
        do_set_up();
        break;
      case DOWNSAMPLE_IMAGES:
        // needs pool images with the axial extent of the template-sized image (check_z_to_middle_consistent), else plain set_up
        if (S.len_match)
          {
            S.sim->set_activity_image_sptr(S.act[st.act % 2]);
            S.sim->set_density_image_sptr(S.att[st.sc_att % 2]);
            if (S.sim->downsample_images_to_scanner_size() != Succeeded::yes)
              throw std::runtime_error("ScatterSimulation::downsample_images_to_scanner_size returned Succeeded::no");
            st.sc_down = st.sc_tmpl;
            sc_apply_scatter_point_image(S, *S.sim, st);
          }
        do_set_up();
        break;
      case SET_THR:
        // only BEFORE the scatter points are sampled: the setter is followed by a call that samples them again
        st.sc_thr = a % 3;
        S.sim->set_attenuation_threshold(SC_THRESHOLDS[st.sc_thr]);
        sc_apply_scatter_point_image(S, *S.sim, st);
        do_set_up();
        break;
      default:
        do_set_up();
      }
  }
};

void
run_scatter_frames(const json& c, std::vector<double>& out)
{
  FamScatter fam(c, nullptr);
  fam.exec_step(FamScatter::SET_UP, 0, 0);
  fam.exec(FamScatter::PROCESS, 0, 0, out);
  if (c["scat"].contains("frames"))
    for (const json& f : c["scat"]["frames"])
      {
        if (!f.is_array() || f.size() < 3)
          continue;
        const int code = int(std::labs(f[0].get<long>()) % FamScatter::N);
        fam.exec_step(code, int(std::labs(f[1].get<long>()) % 1000), int(std::labs(f[2].get<long>()) % 1000));
        fam.exec(FamScatter::PROCESS, 0, 0, out);
      }
}

std::unique_ptr<Family>
make_family(const json& c, const CaseDir& dir, const std::string& tag, const Settings* o = nullptr)
{
  switch (workload_family(c["workload"].get<int>()))
    {
    case 0:
      return std::unique_ptr<Family>(new FamProjectors(c, dir.sub(tag), o));
    case 1:
      return std::unique_ptr<Family>(new FamObjective(c, dir.sub(tag), o));
    case 2:
      return std::unique_ptr<Family>(new FamTables(c, o));
    case 3:
      return std::unique_ptr<Family>(new FamListMode(c, dir.sub(tag), dir.sub(tag + "_lmcache"), o));
    default:
      return std::unique_ptr<Family>(new FamScatter(c, o));
    }
}

//! the thread count STIR itself would set: model of stir/num_threads.h
struct ThreadModel
{
  int cur;
  bool once;
  int bp; // size of the back projector's vector of per-thread images (0: not set up)
  void apply(const Step& s)
  {
    if (s.via == 0)
      cur = s.T;
    else if (s.via == 1)
      {
        cur = s.T;
        once = true;
      }
  }
  //! returns true if the operation back-projects with more threads than the projector was set up for (class E1)
  bool after_op(int flags, int default_threads)
  {
    if (flags & F_SETUP)
      bp = cur;
    if ((flags & F_IMPLICIT) && !once)
      {
        cur = default_threads;
        once = true;
      }
    return (flags & F_BP) && cur > bp;
  }
};

std::vector<Step>
decode_steps(const json& c, const Family& fam)
{
  std::vector<Step> v;
  // every history starts with a set_up at the thread count of its "init" entry
  {
    const json& i = c["init"];
    v.push_back(Step{ int(std::max(1L, i[0].get<long>())), int(i[1].get<long>() % 3), fam.setup_code(), 0, 0, false });
  }
  for (const json& o : c["ops"])
    {
      if (!o.is_array() || o.size() < 5)
        continue;
      Step s;
      s.T = int(std::max(1L, std::min(64L, std::labs(o[0].get<long>()))));
      s.via = int(std::labs(o[1].get<long>()) % 3);
      s.code = fam.decode(std::labs(o[2].get<long>()) % 1000);
      s.a = int(std::labs(o[3].get<long>()) % 1000);
      s.b = int(std::labs(o[4].get<long>()) % 1000);
      s.inserted = false;
      v.push_back(s);
    }
  return v;
}

//! rewrites a history such that it stays outside the known-finding class E1; returns the number of changes
int
avoid_e1(std::vector<Step>& steps, const Family& fam, ThreadModel m, int default_threads)
{
  int changes = 0;
  for (std::size_t k = 0; k < steps.size(); ++k)
    {
      ThreadModel t = m;
      t.apply(steps[k]);
      const int fl = fam.flags(steps[k].code);
      if (t.after_op(fl, default_threads))
        {
          ++changes;
          if (fl & F_SETUP)
            { // the reset of the thread count inside this set_up raises it: set up with that many threads
              steps[k].T = default_threads;
              steps[k].via = 0;
            }
          else
            {
              Step ins{ steps[k].T, steps[k].via, fam.setup_code(), 0, 0, true };
              steps[k].via = 2;
              steps.insert(steps.begin() + std::ptrdiff_t(k), ins);
            }
          --k; // re-examine
          if (changes > 1000)
            throw std::logic_error("harness: avoid_e1 does not terminate");
          continue;
        }
      m = t;
    }
  return changes;
}

bool
history_in_e1(const std::vector<Step>& steps, const Family& fam, ThreadModel m, int default_threads)
{
  for (const Step& s : steps)
    {
      m.apply(s);
      if (m.after_op(fam.flags(s.code), default_threads))
        return true;
    }
  return false;
}

struct Record
{
  std::size_t step;
  int code, threads, a, b;
  Settings st;
  std::vector<double> out;
};

struct HistoryRun
{
  std::vector<Record> records;
  bool multi_site = false;
  std::string model_error;
  int max_threads = 1, thread_changes_down = 0, thread_changes_up = 0;
  int implicit_resets = 0, implicit_reset_lowers = 0;
};

//! executes the steps on the family's objects.  single: every step with one thread, no perturbation (the reference).
HistoryRun
run_history(const json& c, Family& fam, const std::vector<Step>& steps, bool single, uint64_t pseed, int default_threads)
{
  HistoryRun R;
  if (single)
    threads_via_stir(1); // (the reference always comes second: STIR's one-time reset has happened or cannot happen any more)
  ThreadModel m{ current_threads(), g_set_once, 0 };
  int prev = -1;
  try
    {
      for (std::size_t k = 0; k < steps.size(); ++k)
        {
          const Step& s = steps[k];
          if (single)
            threads_via_omp(1);
          else
            {
              if (s.via == 0)
                threads_via_omp(s.T);
              else if (s.via == 1)
                threads_via_stir(s.T);
              m.apply(s);
            }
          const int fl = fam.flags(s.code);
          std::vector<double> out;
          if (!single)
            {
              stats().count(cat("step: ", fam.name(s.code)));
              perturb_on(c, pseed + uint64_t(k) * 7919ULL);
            }
          fam.exec(s.code, s.a, s.b, out);
          perturb_off();
          if (!single)
            {
              const bool reset = (fl & F_IMPLICIT) && !m.once;
              const int before = m.cur;
              m.after_op(fl, default_threads);
              if (reset)
                {
                  ++R.implicit_resets;
                  if (m.cur < before)
                    ++R.implicit_reset_lowers;
                }
              if (fl & F_IMPLICIT)
                g_set_once = true;
              R.multi_site = R.multi_site || site_hit_by_two();
              if (current_threads() != m.cur && R.model_error.empty())
                R.model_error = cat("after step ", k, " (", fam.name(s.code), ") omp_get_max_threads() is ", current_threads(),
                                    " but stir/num_threads.h documents ", m.cur);
              R.max_threads = std::max(R.max_threads, current_threads());
              if (prev > 0 && current_threads() < prev)
                ++R.thread_changes_down;
              if (prev > 0 && current_threads() > prev)
                ++R.thread_changes_up;
              prev = current_threads();
            }
          if (!out.empty()) // every F_RESULT operation, and the setter steps of the scatter family that end with process_data
            R.records.push_back(Record{ k, s.code, current_threads(), s.a, s.b, fam.settings(), std::move(out) });
        }
    }
  catch (...)
    {
      perturb_off();
      threads_via_stir(1);
      throw;
    }
  threads_via_stir(1);
  return R;
}

std::string
step_text(const Family& fam, const std::vector<Step>& steps, std::size_t upto)
{
  std::ostringstream s;
  for (std::size_t k = 0; k <= upto && k < steps.size(); ++k)
    s << (k ? "; " : "") << (steps[k].via == 0 ? "omp:" : steps[k].via == 1 ? "stir:" : "keep:") << steps[k].T << " " << fam.name(steps[k].code)
      << (steps[k].inserted ? " [inserted]" : "");
  return s.str();
}

Result
check_history_here(const json& c)
{
  CaseDir dir;
  const int workload = c["workload"].get<int>();
  const int default_threads = stir::get_default_num_threads();
  // (12.8) the model's "default number of threads" was whatever STIR reports.  Own statement of stir/num_threads.h: "the default
  // is normally set from the OMP_NUM_THREADS environment variable. However, if this is not set, we use ~90% of the available
  // processors" -- the variable is known to the harness (it starts the fresh process with the case's "env_threads"); "~90 %" is
  // taken as within 1 of 0.9 x omp_get_num_procs() (and at least 1, at most the number of processors).
  {
    const char* e = std::getenv("OMP_NUM_THREADS");
    int stated = (e && std::atoi(e) > 0) ? std::atoi(e) : 0;
    if (child_mode() && c.value("env_threads", 0) > 0)
      stated = c.value("env_threads", 0);
    stats().count("default number of threads compared with the harness's own statement");
    if (stated > 0)
      {
        VF_CHECK(default_threads == stated, "stir::get_default_num_threads() is ", default_threads, " but OMP_NUM_THREADS is ", stated,
                 " (stir/num_threads.h: the default is set from OMP_NUM_THREADS)");
      }
    else if (!e)
      {
#ifdef _OPENMP
        const int procs = omp_get_num_procs();
        VF_CHECK(default_threads >= 1 && default_threads <= std::max(procs, 1) && std::fabs(default_threads - 0.9 * procs) <= 1.,
                 "stir::get_default_num_threads() is ", default_threads, " with OMP_NUM_THREADS unset on ", procs,
                 " processors (stir/num_threads.h: ~90 % of the available processors)");
#endif
      }
  }
  if (!child_mode())
    threads_via_stir(1); // in-process cases do not depend on their position in the process: STIR's one-time reset is over
  std::unique_ptr<Family> fam, ref_fam;
  std::vector<Step> steps;
  try
    {
      fam = make_family(c, dir, "t");
      ref_fam = make_family(c, dir, "r");
      steps = decode_steps(c, *fam);
    }
  catch (const stir_verif::AssertionFailure&)
    {
      throw;
    }
  catch (const std::logic_error&)
    {
      throw;
    }
  catch (const std::exception& e)
    {
      return Result::reject(std::string("construction rejected: ") + std::string(e.what()).substr(0, 80));
    }
  const ThreadModel m0{ current_threads(), g_set_once, 0 };
  if (exclusions_on() && c.value("rewrite", true))
    {
      const int n = avoid_e1(steps, *fam, m0, default_threads);
      if (n > 0)
        {
          stats().excluded_known++;
          stats().count(std::string("excluded:") + SIG_E1);
          stats().count("set_up steps inserted / thread counts lifted to stay outside E1", n);
        }
    }
  HistoryRun T, Rf;
  std::string test_exception;
  try
    {
      T = run_history(c, *fam, steps, false, c["pseed"].get<uint64_t>(), default_threads);
    }
  catch (const stir_verif::AssertionFailure& e)
    {
      test_exception = std::string("ASSERT ") + e.what();
    }
  catch (const std::exception& e)
    {
      test_exception = e.what();
    }
  try
    {
      Rf = run_history(c, *ref_fam, steps, true, 0, default_threads);
    }
  catch (const stir_verif::AssertionFailure&)
    {
      throw;
    }
  catch (const std::exception& e)
    {
      return Result::reject(std::string("single-thread run rejected: ") + std::string(e.what()).substr(0, 80));
    }
  if (!test_exception.empty())
    return Result::fail(cat("history [", step_text(*fam, steps, steps.size()), "] threw with several threads but not with one: ", test_exception));
  VF_CHECK(T.model_error.empty(), T.model_error, " | history [", step_text(*fam, steps, steps.size()), "]");
  VF_CHECK(T.records.size() == Rf.records.size(), "number of results differs: ", T.records.size(), " vs ", Rf.records.size());
  bool any_scale = false;
  for (std::size_t r = 0; r < T.records.size(); ++r)
    {
      std::string msg;
      double scale = 0;
      const bool ok = compare(T.records[r].out, Rf.records[r].out, workload,
                              cat("step ", T.records[r].step, " (", fam->name(T.records[r].code), ", ", T.records[r].threads, " threads) of the history [",
                                  step_text(*fam, steps, T.records[r].step), "]"),
                              msg, &scale);
      any_scale = any_scale || scale > 0;
      if (!ok)
        return Result::fail(msg);
    }
  if (!any_scale)
    return Result::reject(cat("all-zero reference results workload ", workload));
  // Object reuse must not matter at all: the LAST result of the history (shown above to agree with the multi-threaded one) against
  // a FRESH object that is given the settings of that moment, with one thread.  A difference here is history dependence
  // that exists without any threading (the message says so; observed difference on the unchanged tree: exactly 0).
  if (!child_mode() && !Rf.records.empty())
    {
      const Record& last = Rf.records.back();
      threads_via_stir(1);
      std::vector<double> out;
      try
        {
          std::unique_ptr<Family> fresh = make_family(c, dir, "f", &last.st);
          fresh->exec(fresh->setup_code(), 0, 0, out);
          out.clear();
          fresh->exec(fresh->result_code(last.code), last.a, last.b, out);
        }
      catch (const stir_verif::AssertionFailure&)
        {
          throw;
        }
      catch (const std::exception& e)
        {
          return Result::fail(cat("a fresh object threw (", e.what(), ") for the operation that the reused object of the history [",
                                  step_text(*fam, steps, last.step), "] performed with one thread"));
        }
      double scale = 0, md = 0;
      for (double v : last.out)
        scale = std::max(scale, std::fabs(v));
      VF_CHECK(out.size() == last.out.size(), "fresh object: result size differs");
      for (std::size_t i = 0; i < out.size(); ++i)
        md = std::max(md, std::fabs(out[i] - last.out[i]));
      stats().count("history end compared with a fresh object");
      if (scale > 0)
        stats().maxi(cat("max rel diff one-thread history vs fresh object, family ", workload_family(workload)), md / scale);
      VF_CHECK(md <= (workload == 6 ? 0. : workload == 8 ? 1e-6 : 1e-4) * scale, "the reused object differs from a fresh object ALSO WITH ONE THREAD (history dependence, not a ",
               "thread effect): step ", last.step, " (", fam->name(last.code), ") of the history [", step_text(*fam, steps, last.step), "]: max |diff| ", md, ", scale ",
               scale);
    }
  stats().count("schedule_point_hits", g_perturb.hits.exchange(0));
  stats().count("history steps", long(steps.size()));
  stats().count("history results compared", long(T.records.size()));
  stats().count("history: thread count lowered between steps", T.thread_changes_down);
  stats().count("history: thread count raised between steps", T.thread_changes_up);
  if (T.multi_site)
    stats().cls("site hit by >=2 threads");
  stats().cls(cat("history workload family ", workload_family(workload)));
  if (T.thread_changes_down > 0)
    stats().cls("history with a lowered thread count");
  stats().count("history: thread count reset to the default by STIR's first setup_distributable_computation", T.implicit_resets);
  stats().count("history: ... and thereby lowered without a new set_up of the projectors", T.implicit_reset_lowers);
  if (child_mode())
    std::cout << "C18CHILD " << json({ { "maxima", stats().maxima }, { "counters", stats().counters }, { "classes", stats().classes } }).dump() << std::endl;
  return Result::pass();
}

//! runs the case in a fresh process (the binary re-executes itself with --replay): STIR's one-time reset of the thread
//! count by the first setup_distributable_computation() can only be observed there.  env_threads > 0: OMP_NUM_THREADS of
//! the child (= STIR's default number of threads), 0: unset (default = 90 % of the processors).
Result
check_history_in_child(const json& c)
{
  CaseDir dir;
  const std::string casefile = dir.path + "/case.json", outfile = dir.path + "/out.txt";
  {
    json j;
    j["property"] = "C18";
    j["case"] = c;
    std::ofstream f(casefile);
    f << j.dump() << "\n";
  }
  const int env_threads = c.value("env_threads", 0);
  // posix_spawn (no code of this multi-threaded process runs between fork and exec)
  std::vector<std::string> env_strings;
  for (char** e = environ; e && *e; ++e)
    {
      const std::string v(*e);
      if (v.compare(0, 16, "OMP_NUM_THREADS=") == 0 || v.compare(0, 16, "VERIF_C18_CHILD=") == 0)
        continue;
      env_strings.push_back(v);
    }
  env_strings.push_back("VERIF_C18_CHILD=1");
  if (env_threads > 0)
    env_strings.push_back("OMP_NUM_THREADS=" + std::to_string(env_threads));
  std::vector<char*> envp;
  for (auto& v : env_strings)
    envp.push_back(const_cast<char*>(v.c_str()));
  envp.push_back(nullptr);
  const char* argv[] = { "c18_child", "--replay", casefile.c_str(), nullptr };
  posix_spawn_file_actions_t fa;
  posix_spawn_file_actions_init(&fa);
  posix_spawn_file_actions_addopen(&fa, 1, outfile.c_str(), O_CREAT | O_WRONLY | O_TRUNC, 0666);
  posix_spawn_file_actions_adddup2(&fa, 1, 2);
  pid_t pid = 0;
  const int rc = posix_spawn(&pid, "/proc/self/exe", &fa, nullptr, const_cast<char* const*>(argv), envp.data());
  posix_spawn_file_actions_destroy(&fa);
  if (rc != 0)
    throw std::logic_error("harness: posix_spawn failed");
  int status = 0;
  while (waitpid(pid, &status, 0) < 0 && errno == EINTR)
    {
    }
  std::string last, line;
  {
    std::ifstream f(outfile);
    while (std::getline(f, line))
      {
        if (line.compare(0, 9, "C18CHILD ") == 0)
          {
            try
              {
                const json m = json::parse(line.substr(9));
                for (auto it = m["maxima"].begin(); it != m["maxima"].end(); ++it)
                  stats().maxi(it.key(), it.value().get<double>());
                for (auto it = m["counters"].begin(); it != m["counters"].end(); ++it)
                  {
                    stats().count(it.key(), it.value().get<long>());
                    if (it.key() == std::string("excluded:") + SIG_E1)
                      stats().excluded_known += it.value().get<long>();
                  }
                for (auto it = m["classes"].begin(); it != m["classes"].end(); ++it)
                  if (it.key().compare(0, 24, "history workload family ") != 0)
                    stats().cls(it.key(), it.value().get<long>());
              }
            catch (...)
              {
              }
          }
        else if (line.compare(0, 5, "PASS ") == 0 || line.compare(0, 5, "FAIL ") == 0 || line.compare(0, 7, "REJECT ") == 0 || line == "PASS")
          last = line;
        else if (!line.empty())
          last = last.empty() || last.compare(0, 4, "PASS") != 0 ? line : last;
      }
  }
  stats().cls("history in a fresh process");
  stats().cls(cat("history workload family ", workload_family(c["workload"].get<int>())));
  if (WIFEXITED(status) && WEXITSTATUS(status) == 0)
    {
      if (last.compare(0, 6, "REJECT") == 0)
        return Result::reject(last.substr(std::min<std::size_t>(7, last.size())));
      return Result::pass();
    }
  if (WIFEXITED(status) && WEXITSTATUS(status) == 3)
    return Result::fail("in a fresh process (OMP_NUM_THREADS " + (env_threads > 0 ? std::to_string(env_threads) : std::string("unset")) + "): " + last);
  return Result::fail(cat("the fresh process running the history died (", WIFSIGNALED(status) ? "signal " : "exit status ",
                          WIFSIGNALED(status) ? WTERMSIG(status) : WEXITSTATUS(status), "); last output: ", last.substr(0, 300)));
}

Result
check_fresh(const json& c)
{
  CaseDir dir;
  const int workload = c["workload"].get<int>();
  std::vector<double> ref;
  try
    {
      ref = run_workload(c, 1, false, 0, dir.sub("r"));
    }
  catch (const stir_verif::AssertionFailure&)
    {
      throw;
    }
  catch (const std::logic_error&)
    {
      throw;
    }
  catch (const std::exception& e)
    {
      return Result::reject(std::string("single-thread run rejected: ") + std::string(e.what()).substr(0, 80));
    }
  double scale = 0;
  for (double v : ref)
    scale = std::max(scale, std::fabs(v));
  if (!(scale > 0))
    return Result::reject(cat("all-zero reference result workload ", workload));
  const int threads = c["threads"].get<int>();
  const int reps = c["reps"].get<int>();
  bool multi_site = false;
  for (int rep = 0; rep < reps; ++rep)
    {
      std::vector<double> got;
      try
        {
          got = run_workload(c, threads, true, c["pseed"].get<uint64_t>() + uint64_t(rep) * 7919ULL, dir.sub("t"));
        }
      catch (const std::exception& e)
        {
          return Result::fail(cat("multi-threaded run (", threads, " threads, repetition ", rep, ") threw: ", e.what()));
        }
      multi_site = multi_site || site_hit_by_two();
      std::string msg;
      if (!compare(got, ref, workload, cat("workload ", workload, " with ", threads, " threads (repetition ", rep, ")"), msg))
        return Result::fail(msg);
    }
  stats().count("schedule_point_hits", g_perturb.hits.exchange(0));
  if (multi_site)
    stats().cls("site hit by >=2 threads");
  stats().cls(cat("workload ", workload));
  if (workload == 8 && c["scat"].contains("frames") && !c["scat"]["frames"].empty())
    {
      stats().cls("workload 8 with next-frame steps on the same object");
      for (const json& f : c["scat"]["frames"])
        if (f.is_array() && f.size() >= 3)
          stats().count(cat("frame step: ", FamScatter::step_name(int(std::labs(f[0].get<long>()) % FamScatter::N))));
    }
  stats().cls(cat("threads ", threads <= 2 ? "2" : threads <= 4 ? "3-4" : threads <= 8 ? "5-8" : "9-16+"));
  if (workload == 7 && c["lm"]["cache"].get<long>() > 0 && c["lm"]["cache"].get<long>() < threads)
    stats().cls("list-mode: fewer events per batch ('max cache size') than threads");
  if (threads == 5 || threads == 6 || (threads >= 9 && threads <= 15 && threads != 12))
    stats().cls("threads: a count that was never generated before the audit (5, 6, 9-11, 13-15)");
  if (is_blocks(c))
    {
      stats().cls(cat("BlocksOnCylindrical geometry, workload ", workload));
      if (blocks_lors_limited(c) && c["lors"].get<int>() > 1)
        stats().cls("BlocksOnCylindrical: one tangential LOR instead of two (known finding of C04, not a thread effect)");
    }
  if (c.value("inval", 0) > 0 && workload <= 6)
    stats().cls(cat("invalidating setter on the shared ProjDataInfo directly before the workload, family ", workload_family(workload),
                    c.value("inval", 0) == 8 ? " (real segment reduction)" : ""));
  if (workload == 6 && c.value("copies", false))
    stats().cls(cat("workload 6: threads copy the object during the first look-ups", c.value("inval", 0) > 0 ? " after an invalidating setter" : ""));
  if (workload == 0 && c.value("fwd_out", 0) != 0)
    stats().cls(c.value("fwd_out", 0) == 1 ? "forward projection into a pre-filled ProjDataInMemory" : "forward projection into a file (ProjDataFromStream)");
  if (c.value("zeros", 0) != 0 && workload >= 1 && workload <= 5)
    stats().cls(c.value("zeros", 0) == 1 ? "measured data with 60 % exact zeros" : "measured data: one non-zero view only");
  if (c.value("file_data", 0) != 0 && workload_family(workload) <= 1 && workload != 0)
    stats().cls(cat("file-backed projection data, layout ", c.value("file_data", 0)));
  return Result::pass();
}

bool
is_history(const json& c)
{
  return c.value("hist", 0) != 0 && c.contains("ops") && c.contains("init");
}

Result
check(const json& c)
{
  vg::quiet();
  if (!is_history(c))
    return check_fresh(c);
  if (child_mode())
    return check_history_here(c);
  const bool fresh_process = c.value("proc", 0) != 0;
  const Result r = fresh_process ? check_history_in_child(c) : check_history_here(c);
  if (r.kind == Result::PASS)
    {
      stats().cls("object-reuse history");
      if (is_blocks(c))
        stats().cls(cat("history on BlocksOnCylindrical geometry, family ", workload_family(c["workload"].get<int>())));
      if (c.value("zeros", 0) != 0 && workload_family(c["workload"].get<int>()) <= 1)
        stats().cls(c.value("zeros", 0) == 1 ? "history: measured data with 60 % exact zeros" : "history: measured data, one non-zero view only");
      {
        bool newcount = false;
        auto isnew = [](long t) { return t == 6 || (t >= 9 && t <= 15 && t != 12); };
        newcount = isnew(c["init"][0].get<long>());
        for (const json& o : c["ops"])
          if (o.is_array() && o.size() >= 5 && isnew(std::labs(o[0].get<long>())))
            newcount = true;
        if (newcount)
          stats().cls("history with a thread count that was never generated before the audit (6, 9-11, 13-15)");
      }
      if (c.value("file_data", 0) != 0 && workload_family(c["workload"].get<int>()) == 1)
        stats().cls(cat("file-backed projection data, layout ", c.value("file_data", 0)));
    }
  return r;
}

//! signature of the known-finding class: only cases that ask not to be rewritten ("rewrite": false, the probe) are
//! classified; generated cases are rewritten at run time instead (see avoid_e1) and never rejected
std::string
known_signature(const json& c)
{
  if (e2_exclusion_on() && c.value("workload", -1) == 6 && c.value("copies", false) && !c.value("prebuild", true))
    return SIG_E2;
  if (!exclusions_on() || !is_history(c) || c.value("rewrite", true))
    return "";
  try
    {
      CaseDir dir;
      std::unique_ptr<Family> fam = make_family(c, dir, "k");
      const std::vector<Step> steps = decode_steps(c, *fam);
      const bool child = c.value("proc", 0) != 0;
      const int env_threads = c.value("env_threads", 0);
      // in a fresh process the count starts at OMP_NUM_THREADS / the number of processors and STIR's flag is not set
      const ThreadModel m0{ child ? (env_threads > 0 ? env_threads : int(std::thread::hardware_concurrency())) : 1, !child, 0 };
      const int def = child && env_threads > 0 ? env_threads : stir::get_default_num_threads();
      return history_in_e1(steps, *fam, m0, def) ? SIG_E1 : "";
    }
  catch (...)
    {
      return "";
    }
}

json
small_scatter_scanner(Src& s)
{ // as in the C16 harness: block structure from divisors (Scanner::check_consistency), detector pitch ~ bin
  json j;
  const int ndet = 2 * int(s.range(3, 7)); // 6..14
  const int rings = int(s.pick(std::vector<int>{ 2, 2, 3 }));
  const double bin = s.nice_real(6., 20.);
  j["type"] = -1;
  j["ndet"] = ndet;
  j["rings"] = rings;
  const int a = s.pick(vg::divisors(ndet));
  const int b = s.pick(vg::divisors(ndet / a));
  j["tr_cryst_per_block"] = a;
  j["tr_blocks_per_bucket"] = b;
  const int d = s.pick(vg::divisors(rings));
  const int e = s.pick(vg::divisors(rings / d));
  j["ax_cryst_per_block"] = d;
  j["ax_blocks_per_bucket"] = e;
  j["singles_units"] = s.coin() ? 1 : 0;
  j["max_tang"] = ndet - 1;
  j["radius"] = std::floor(bin * ndet / 3.14159265 * 4.) / 4.;
  j["doi"] = s.coin() ? 0. : s.nice_real(0., 5.);
  j["ring_spacing"] = s.nice_real(10., 40.);
  j["bin_size"] = bin;
  j["tilt"] = 0.;
  j["tof_poss"] = 0;
  j["geometry"] = "Cylindrical";
  return j;
}

json
gen(Src& s, int size)
{
  json c;
  vg::ScannerOpts so;
  so.max_ndet = size < 40 ? 16 : 32;
  so.max_rings = 3;
  so.allow_tof = true;
  so.allow_tilt = false;
  c["scanner"] = vg::gen_scanner(s, so);
  shared_ptr<Scanner> sc = vg::make_scanner(c["scanner"]);
  vg::PdiOpts po;
  po.allow_trim = false;
  po.max_span = 3;
  c["pdi"] = vg::gen_pdi(s, *sc, po);
  c["pdi"]["arccorr"] = false;
  vg::ImageOpts io;
  io.max_xy = 13;
  c["image"] = vg::gen_image(s, io);
  c["dseed"] = s.seed64();
  c["pseed"] = s.seed64();
  c["workload"] = int(s.pick(std::vector<int>{ 0, 1, 1, 2, 3, 3, 4, 5, 5, 6, 7, 7, 8, 8 }));
  // quantifier: "thread counts 1..16 (and more threads than work items)": half of the cases draw from the whole range 2..16
  // (before the audit 5, 6, 9, 10, 11, 13, 14, 15 were never used), the others from the list weighted towards the corners
  c["threads"] = s.coin() ? int(s.range(2, 16)) : int(s.pick(std::vector<int>{ 2, 2, 3, 4, 4, 7, 8, 12, 16, 24 }));
  c["reps"] = int(s.range(2, 6));
  c["cache"] = int(s.range(0, 2));
  c["lors"] = int(s.range(1, 2));
  c["sym"] = int(s.chance(1, 2) ? 31 : s.range(0, 31));
  c["intensity"] = int(s.range(0, 2));
  c["lowprio"] = int(s.range(0, 3));
  // number of subsets: a divisor of the number of views (balanced)
  const int views = c["pdi"]["views"].get<int>();
  c["subsets"] = s.pick(vg::divisors(views));
  c["subset"] = int(s.range(0, 95));
  c["use_add"] = s.coin();
  c["use_norm"] = s.coin();
  // measured / additive / normalisation data: in memory or read from files written by the harness
  c["file_data"] = int(s.pick(std::vector<int>{ 0, 0, 1, 2, 3, 3 }));
  const int workload = c["workload"].get<int>();
  if (workload == 7)
    {
      // 'max cache size' = events per batch = work items of one parallel loop.  A quarter of the cached cases use 2..16 events
      // (at most ~25 batches), so that a batch has fewer events than there are threads (before the audit: 2 % of the
      // list-mode cases, only the remainder batch otherwise)
      const int lm_n = int(s.range(20, 200));
      const long lm_small = std::max<long>(s.range(2, 16), lm_n / 25 + 1);
      c["lm"] = { { "seed", s.seed64() }, { "n", lm_n }, { "cache", s.coin() ? 0L : (s.chance(1, 4) ? lm_small : s.range(5, 250)) } };
      c["reps"] = int(s.range(4, 8)); // cheap workload, and the one with real contention for single cache entries
    }
  if (workload == 8)
    { // scatter simulation has its own preconditions on scanner, template and images (see make_scatter)
      c["scanner"] = small_scatter_scanner(s);
      const int ndet = c["scanner"]["ndet"], rings = c["scanner"]["rings"];
      c["pdi"] = { { "span", 1 }, { "max_delta", s.chance(3, 4) ? rings - 1 : int(s.range(0, rings - 1)) }, { "views", ndet / 2 },
                   { "tang", int(s.range(2, ndet - 1)) }, { "arccorr", false }, { "tof_mash", 0 }, { "trim", json::object() } };
      c["scat"] = { { "nx", int(s.range(3, 6)) }, { "nz", int(s.range(2, 4)) }, { "extent", s.pick(std::vector<double>{ 0.4, 0.6, 0.8 }) },
                    { "len", s.pick(std::vector<double>{ 0.5, 0.8, 1. }) }, { "p_zero", s.pick(std::vector<double>{ 0., 0.3 }) },
                    { "low", s.pick(std::vector<double>{ 350., 425., 450. }) }, { "high", s.pick(std::vector<double>{ 600., 650. }) } };
      c["reps"] = int(s.range(2, 3));
      // pool images with the axial extent of a template-sized image: downsample_images_to_scanner_size() can be mixed with them
      c["scat"]["len_match"] = s.coin();
      // fresh-object cases: "next frame / gate" steps on the same object, each followed by process_data (see run_scatter_frames)
      json frames = json::array();
      if (s.chance(2, 3))
        {
          typedef FamScatter F;
          const int n = int(s.range(1, 2));
          for (int k = 0; k < n; ++k)
            frames.push_back(json::array({ int(s.pick(std::vector<int>{ F::TMPL_AGAIN, F::TMPL_AGAIN, F::TMPL_AGAIN, F::TMPL_OTHER, F::SET_EXAM, F::SET_ACT, F::SET_ACT,
                                                                        F::SET_ATT, F::SET_SP, F::DOWNSAMPLE_IMAGES, F::SET_THR, F::TOGGLE_CACHE, F::SET_UP })),
                                           int(s.range(0, 999)), int(s.range(0, 999)) }));
        }
      c["scat"]["frames"] = frames;
    }
  // (b) object-reuse history instead of fresh objects per repetition: 9 of 20 cases
  const bool hist = s.chance(9, 20);
  c["hist"] = hist ? 1 : 0;
  if (hist)
    {
      const std::vector<int> counts0{ 1, 2, 2, 3, 4, 4, 5, 7, 8, 8, 12, 16, 16 };
      // every count of 1..16 (a third of the draws; before the audit 6, 9, 10, 11, 13, 14, 15 never occurred)
      auto count = [&]() { return s.chance(1, 3) ? int(s.range(1, 16)) : int(s.pick(counts0)); };
      auto via = [&]() { return int(s.pick(std::vector<int>{ 0, 0, 0, 1, 1, 1, 1, 2 })); };
      c["init"] = json::array({ count(), via() });
      json ops = json::array();
      const int len = int(s.range(3, workload == 8 ? 6 : 4 + size / 12));
      for (int k = 0; k < len; ++k)
        ops.push_back(json::array({ count(), via(), int(s.range(0, 999)), int(s.range(0, 999)), int(s.range(0, 999)) }));
      c["ops"] = ops;
      // a sample of the objective-function histories runs in a fresh process (STIR's one-time reset of the thread count)
      const bool child = workload_family(workload) == 1 && s.chance(1, 4);
      c["proc"] = child ? 1 : 0;
      c["env_threads"] = child ? int(s.pick(std::vector<int>{ 0, 0, 1, 2, 3, 5, 8, 12 })) : 0;
    }
  // ---- domain audit (DESIGN 12.8): sub-domains that the quantifier covers and the generator never produced -------------
  // forward projection: output container pre-filled / a file (histories decide per step, see FamProjectors::exec)
  c["fwd_out"] = workload == 0 ? int(s.pick(std::vector<int>{ 0, 1, 2, 2 })) : 0;
  // measured data with exact zeros (projector and projection-data objective workloads; see make_world)
  c["zeros"] = (workload >= 1 && workload <= 5) ? int(s.pick(std::vector<int>{ 0, 0, 0, 1, 1, 2 })) : 0;
  // (12.9, /repo 66621e8da) an invalidating setter on the shared ProjDataInfo directly before the multi-threaded workload
  // (1..7: same value; 8: a real reduction of the segment range when the data are made + reduce_segment_range(same) before
  // the workload), before or after the set_up of the projectors; workload 6: threads that copy the object meanwhile
  c["inval"] = (workload <= 6 && s.chance(2, 5)) ? int(s.range(1, 8)) : 0;
  c["inval_first"] = s.coin();
  c["copies"] = workload == 6 && s.chance(2, 3);
  c["race_rounds"] = workload == 6 ? int(s.range(4, 30)) : 0;
  // the other geometry family: a BlocksOnCylindrical scanner, i.e. ProjDataInfoBlocksOnCylindricalNoArcCorr with the lazily
  // built tables of ProjDataInfoGenericNoArcCorr (own double-checked-locking guards, schedule points 3-6, 16-19) and the
  // crystal map of the Scanner, in the projector / objective-function workloads (fresh objects and histories) and in the
  // first-use workload 6 (fresh objects; the table histories use the setters of the cylindrical class).  1 case in 5.
  if (workload <= 6 && !(hist && workload == 6) && s.chance(1, 5))
    {
      vg::ScannerOpts sb;
      sb.max_ndet = 24;
      sb.max_rings = 3;
      sb.allow_tof = false; // "no TOF for blocks (constructor calls error())", stir_gen.h
      sb.allow_tilt = false;
      sb.allow_blocks = true;
      json scj;
      shared_ptr<Scanner> scb;
      for (int tries = 0; tries < 40; ++tries)
        {
          scj = vg::gen_scanner(s, sb);
          if (scj["geometry"].get<std::string>() != "BlocksOnCylindrical")
            continue;
          scb = vg::make_scanner(scj);
          if (scb->check_consistency() == Succeeded::yes)
            break;
          scb.reset();
        }
      if (scb)
        {
          c["scanner"] = scj;
          json pj = vg::gen_pdi(s, *scb, po);
          // blocks data: get_s / get_LOR error() "does not work for data with axial compression" (every matrix row fails)
          pj["span"] = 1;
          pj["arccorr"] = false;
          c["pdi"] = pj;
          // "the ray tracer shrinks the FOV by 5 voxels for blocks" (C04 harness): smaller images give empty rows only
          const int nx = int(s.range(13, 15));
          c["image"]["nx"] = nx;
          c["image"]["ny"] = s.coin() ? nx : int(s.range(13, 15));
          const int bviews = pj["views"].get<int>();
          c["subsets"] = s.pick(vg::divisors(bviews));
        }
    }
  return c;
}

bool
nontrivial(const json& c)
{
  // threads >= 2 and at least as many work items (view x segment x TOF groups) as threads is not known from the
  // case alone; use views as a lower bound of work items
  if (c["pdi"]["views"].get<int>() < 2)
    return false;
  if (!is_history(c))
    return c["threads"].get<int>() >= 2;
  // history: at least two different thread counts, one of them >= 2, and at least two steps
  int lo = 1 << 30, hi = 0, n = 0;
  auto see = [&](long t) {
    lo = std::min<long>(lo, t);
    hi = std::max<long>(hi, t);
  };
  see(c["init"][0].get<long>());
  for (const json& o : c["ops"])
    if (o.is_array() && o.size() >= 5)
      {
        ++n;
        if (o[1].get<long>() % 3 != 2)
          see(std::labs(o[0].get<long>()));
      }
  return n >= 2 && hi >= 2 && lo < hi;
}

//! corner histories that every run executes: the thread count is lowered WITHOUT a new set_up between two uses of the same
//! back projector (directly, inside an objective function, through STIR's own reset in a fresh process), file-backed data
//! in the gradient / Hessian workloads, list-mode objective function, lazy tables re-armed between look-ups
std::vector<json>
fixed_cases(int)
{
  const json base = json::parse(R"({"cache": 2, "dseed": 1480935306757403, "file_data": 0, "hist": 1, "image": {"nx": 5, "ny": 9, "nz_extra": 1,
    "ox": 0.0, "oy": 0.0, "vx_rel": 1.0, "vy_rel": 2.0, "vy_same": true, "z_div": 1, "z_shift_planes": 0}, "intensity": 1, "lors": 1, "lowprio": 1,
    "pdi": {"arccorr": false, "max_delta": 1, "span": 3, "tang": 12, "tof_mash": 0, "trim": {}, "views": 8}, "pseed": 1353336884124251, "reps": 2,
    "scanner": {"ax_blocks_per_bucket": 1, "ax_cryst_per_block": 1, "bin_size": 4.9375, "doi": 10.875, "geometry": "Cylindrical", "max_tang": 13,
    "ndet": 16, "radius": 364.5, "ring_spacing": 5.375, "rings": 2, "singles_units": 0, "tilt": 0.0, "tof_poss": 0, "tr_blocks_per_bucket": 2,
    "tr_cryst_per_block": 4, "type": -1}, "subset": 30, "subsets": 4, "sym": 31, "threads": 2, "use_add": true, "use_norm": true, "workload": 1,
    "proc": 0, "env_threads": 0})");
  std::vector<json> v;
  auto add = [&](int workload, json init, json ops, int file_data, int proc, int env_threads) {
    json c = base;
    c["workload"] = workload;
    c["init"] = init;
    c["ops"] = ops;
    c["file_data"] = file_data;
    c["proc"] = proc;
    c["env_threads"] = env_threads;
    if (workload == 7)
      c["lm"] = { { "seed", 77 }, { "n", 120 }, { "cache", 0 } };
    v.push_back(c);
  };
  typedef FamProjectors P;
  typedef FamObjective O;
  typedef FamListMode L;
  // projector pair: back projection with 8 threads, then with 2 (omp_set_num_threads), 1 (stir::set_num_threads), no set_up
  add(1, { 8, 0 }, { { 8, 2, P::BACK, 0, 0 }, { 2, 0, P::BACK, 0, 0 }, { 2, 2, P::FWD, 1, 0 }, { 1, 1, P::BACK, 0, 17 }, { 5, 1, P::CLEAR_CACHE, 0, 0 }, { 5, 2, P::BACK, 0, 0 } }, 2, 0, 0);
  // objective function: set_up (sensitivities) with 8 threads, gradient / Hessian / direct back projection with fewer
  add(3, { 8, 1 }, { { 8, 2, O::GRAD, 0, 0 }, { 3, 1, O::GRADPLUS, 0, 1 }, { 3, 2, O::HESS, 1, 0 }, { 2, 0, O::PAIR_BACK, 0, 0 }, { 2, 2, O::HESS_APPROX, 0, 2 }, { 1, 0, O::VALUE, 0, 0 } }, 3, 0, 0);
  add(5, { 16, 0 }, { { 4, 0, O::HESS, 0, 0 }, { 4, 2, O::SET_NSUB, 1, 0 }, { 2, 1, O::GRAD, 1, 1 }, { 2, 2, O::SENS, 0, 1 } }, 1, 0, 0);
  // the same in a fresh process: projectors set up with 12 threads, STIR's first setup_distributable_computation() lowers to 3
  add(3, { 12, 0 }, { { 12, 2, O::GRAD, 0, 0 }, { 12, 2, O::HESS, 0, 1 }, { 12, 2, O::PAIR_BACK, 0, 0 } }, 0, 1, 3);
  add(4, { 7, 2 }, { { 7, 2, O::GRADPLUS, 0, 0 }, { 7, 2, O::PAIR_BACK, 0, 0 } }, 0, 1, 0);
  // list-mode objective function and the lazily built tables
  add(7, { 8, 1 }, { { 8, 2, L::GRADPLUS, 0, 0 }, { 2, 0, L::GRADPLUS, 1, 1 }, { 2, 2, L::HESS, 0, 0 }, { 16, 1, L::VALUE, 0, 0 }, { 3, 0, L::SET_UP, 0, 0 }, { 3, 2, L::GRAD, 0, 2 } }, 1, 0, 0);
  add(6, { 1, 0 }, { { 16, 0, FamTables::QUERY, 0, 0 }, { 16, 2, FamTables::REARM, 0, 0 }, { 3, 1, FamTables::QUERY_TABLES_FIRST, 0, 0 } }, 0, 0, 0);
  // lazy tables: other re-arming setters, look-ups on a clone, other ring spacing, fewer segments
  add(6, { 8, 0 }, { { 8, 2, FamTables::QUERY, 0, 0 }, { 8, 2, FamTables::REARM_SAME_VALUE, 1, 1 }, { 12, 0, FamTables::QUERY, 0, 0 }, { 12, 2, FamTables::TOGGLE_SPACING, 0, 0 },
                     { 5, 1, FamTables::QUERY_TABLES_FIRST, 0, 0 }, { 5, 2, FamTables::COPY, 0, 0 }, { 5, 2, FamTables::REARM_SAME_VALUE, 2, 0 }, { 16, 0, FamTables::QUERY, 0, 0 },
                     { 16, 2, FamTables::REDUCE_SEGMENTS, 0, 0 }, { 7, 0, FamTables::QUERY_TABLES_FIRST, 0, 0 } }, 0, 0, 0);
  // projector pair: set_up for another image geometry and back, other symmetry switches, with thread counts up and down
  add(1, { 8, 0 }, { { 8, 2, P::BACK, 0, 0 }, { 8, 2, P::SET_GEOM, 1, 0 }, { 8, 2, P::BACK, 0, 0 }, { 3, 0, P::FWD, 1, 0 }, { 12, 1, P::SET_GEOM, 0, 0 }, { 12, 2, P::BACK, 0, 0 },
                     { 12, 2, P::SET_SYM, 6, 0 }, { 4, 0, P::BACK, 0, 16 }, { 4, 2, P::SET_SYM, 1, 0 }, { 16, 0, P::FWD, 0, 0 } }, 0, 0, 0);
  // objective function: the same data / pair again, additive and normalisation off and on, other target geometry
  add(3, { 8, 1 }, { { 8, 2, O::GRAD, 0, 0 }, { 8, 2, O::SET_DATA, 1, 0 }, { 3, 0, O::GRADPLUS, 0, 1 }, { 3, 2, O::SET_ADD, 2, 0 }, { 12, 0, O::HESS, 1, 0 }, { 12, 2, O::SET_GEOM, 1, 0 },
                     { 5, 0, O::GRAD, 0, 0 }, { 5, 2, O::SET_NORM, 2, 0 }, { 16, 1, O::VALUE, 0, 0 }, { 16, 2, O::SET_DATA, 0, 0 }, { 2, 0, O::HESS_APPROX, 0, 1 } }, 2, 0, 0);
  // list-mode objective function: other batch sizes, cache files re-used, other number of subsets
  add(7, { 8, 1 }, { { 8, 2, L::GRADPLUS, 0, 0 }, { 8, 2, L::SET_CACHE_SIZE, 2, 0 }, { 3, 0, L::GRAD, 0, 0 }, { 12, 0, L::REUSE_CACHE, 0, 0 }, { 12, 2, L::GRADPLUS, 1, 0 },
                     { 12, 2, L::SET_CACHE_SIZE, 4, 0 }, { 5, 0, L::REUSE_CACHE, 0, 0 }, { 5, 2, L::HESS, 0, 0 }, { 16, 1, L::SET_NSUB, 1, 0 }, { 16, 2, L::VALUE, 0, 1 } }, 3, 0, 0);
  // ---- (12.8) sub-domains added by the generator audit
  // OMP_NUM_THREADS=1 in a fresh process (the documented default is then 1), thread counts 6 / 9 / 13
  add(3, { 6, 0 }, { { 6, 2, O::GRAD, 0, 0 }, { 9, 0, O::HESS, 0, 1 }, { 13, 1, O::GRADPLUS, 0, 0 } }, 0, 1, 1);
  {
    const json blocks_scanner = json::parse(R"({"ax_blocks_per_bucket": 1, "ax_cryst_per_block": 3, "ax_crystal_spacing": 3.875, "bin_size": 1.8536958694458008,
      "block_gap_ax": 0.0, "block_gap_tr": 0.0, "doi": 1.5, "geometry": "BlocksOnCylindrical", "max_tang": 7, "ndet": 16, "radius": 5.0, "ring_spacing": 3.875,
      "rings": 3, "singles_units": 0, "tilt": 0.0, "tof_poss": 0, "tr_blocks_per_bucket": 1, "tr_cryst_per_block": 4, "tr_crystal_spacing": 2.5526962280273438, "type": -1})");
    const json blocks_pdi = json::parse(R"({"arccorr": false, "max_delta": 2, "span": 1, "tang": 7, "tof_mash": 0, "trim": {}, "views": 8})");
    const json blocks_image = json::parse(R"({"nx": 13, "ny": 14, "nz_extra": 0, "ox": 0.0, "oy": 0.0, "vx_rel": 1.0, "vy_rel": 0.5, "vy_same": true, "z_div": 1, "z_shift_planes": 0})");
    auto to_blocks = [&](json& c) {
      c["scanner"] = blocks_scanner;
      c["pdi"] = blocks_pdi;
      c["image"] = blocks_image;
    };
    // BlocksOnCylindrical: back projection, forward projection into a file (a = 6, 14) and into a pre-filled container (a = 4)
    add(1, { 6, 0 }, { { 6, 2, P::BACK, 0, 0 }, { 11, 0, P::FWD, 6, 0 }, { 3, 1, P::FWD, 4, 0 }, { 14, 0, P::BACK, 0, 0 }, { 14, 2, P::CLEAR_CACHE, 0, 0 }, { 5, 0, P::FWD, 14, 0 } }, 0, 0, 0);
    to_blocks(v.back());
    // ... the objective function on it, measured data with one non-zero view only
    add(3, { 10, 1 }, { { 10, 2, O::GRAD, 0, 0 }, { 2, 0, O::HESS, 0, 1 }, { 15, 0, O::GRADPLUS, 0, 0 } }, 0, 0, 0);
    to_blocks(v.back());
    v.back()["zeros"] = 2;
    // ... first use of the tables of ProjDataInfoGenericNoArcCorr by 13 threads, fresh objects in every repetition
    json t = base;
    to_blocks(t);
    t["hist"] = 0;
    t["workload"] = 6;
    t["threads"] = 13;
    t["reps"] = 4;
    t["subset"] = 30;
    v.push_back(t);
    t["subset"] = 31; // coordinates first
    t["threads"] = 6;
    v.push_back(t);
    // ... forward projection of a whole data set into a file
    t["workload"] = 0;
    t["threads"] = 9;
    t["fwd_out"] = 2;
    v.push_back(t);
  }
  // ---- (12.9) the scenario of test_proj_data_info_subsets (/repo 66621e8da), 16 threads, one fixed case per family
  {
    typedef FamTables T;
    auto three_segments = [&](json& c) { // span 1, ring differences -1..1: segments -1, 0, 1
      c["pdi"]["span"] = 1;
      c["pdi"]["max_delta"] = 1;
      c["intensity"] = 2;
    };
    // projector pair: subset by view + reduce_segment_range + set_up + forward projection of subset and full data (real reduction
    // and same range), invalidating setters directly before forward projections into memory / a file and before back projections
    add(1, { 16, 0 }, { { 16, 2, P::SUBSET_FWD, 2, 0 }, { 16, 2, P::INVAL_FWD, 0, 0 }, { 16, 2, P::SUBSET_FWD, 17, 0 }, { 16, 2, P::INVAL_BACK, 0, 64 },
                        { 16, 2, P::INVAL_FWD, 6, 128 }, { 16, 2, P::INVAL_FWD, 1, 256 }, { 16, 2, P::INVAL_BACK, 0, 320 }, { 16, 2, P::SUBSET_FWD, 8, 0 } }, 0, 0, 0);
    three_segments(v.back());
    v.push_back(v.back());
    v.back()["inval"] = 8; // the data's info really reduced before the projectors are set up
    // objective function: gradient / Hessian / set_up (sensitivities) as first use after the setter
    add(3, { 16, 1 }, { { 16, 2, O::INVAL_GRAD, 0, 0 }, { 16, 2, O::INVAL_HESS, 0, 128 }, { 16, 2, O::INVAL_SET_UP, 0, 64 }, { 16, 2, O::INVAL_GRAD, 1, 200 },
                        { 16, 2, O::INVAL_SET_UP, 0, 320 }, { 16, 2, O::INVAL_HESS, 1, 0 } }, 2, 0, 0);
    three_segments(v.back());
    v.back()["inval"] = 8;
    // tables: setter + look-ups while other threads copy the object, every setter once
    add(6, { 16, 0 }, { { 16, 2, T::INVAL_QUERY_COPIES, 0, 0 }, { 16, 2, T::INVAL_QUERY_COPIES, 1, 1 }, { 16, 2, T::INVAL_QUERY_COPIES, 2, 2 }, { 16, 2, T::INVAL_QUERY_COPIES, 3, 0 },
                        { 16, 2, T::INVAL_QUERY_COPIES, 4, 1 }, { 16, 2, T::INVAL_QUERY_COPIES, 5, 2 }, { 16, 2, T::REDUCE_SEGMENTS, 0, 0 }, { 16, 2, T::INVAL_QUERY_COPIES, 13, 0 },
                        { 16, 2, T::COPY, 0, 0 }, { 16, 2, T::QUERY_COPIES, 7, 3 } }, 0, 0, 0);
    three_segments(v.back());
    // fresh objects in every repetition: forward projection of a whole data set (into memory / a file) and back projection,
    // gradient, table look-ups with copies; setter before and after the set_up
    json f = base;
    three_segments(f);
    f["hist"] = 0;
    f["threads"] = 16;
    f["reps"] = 6;
    for (int k = 0; k < 6; ++k)
      {
        json g = f;
        g["workload"] = std::vector<int>{ 0, 0, 1, 3, 6, 6 }[k];
        g["inval"] = std::vector<int>{ 1, 8, 2, 1, 8, 5 }[k];
        g["inval_first"] = k % 2 == 0;
        g["fwd_out"] = k == 1 ? 2 : 0;
        g["copies"] = true;
        g["race_rounds"] = 40;
        g["file_data"] = k == 2 ? 1 : 0;
        v.push_back(g);
      }
  }
  // ---- scatter simulation: the next frame / gate on the same object
  {
    json sc = base;
    sc["workload"] = 8;
    sc["scanner"] = json::parse(R"({"type": -1, "ndet": 10, "rings": 2, "tr_cryst_per_block": 5, "tr_blocks_per_bucket": 1, "ax_cryst_per_block": 2,
      "ax_blocks_per_bucket": 1, "singles_units": 0, "max_tang": 9, "radius": 31.75, "doi": 0.0, "ring_spacing": 20.0, "bin_size": 10.0, "tilt": 0.0,
      "tof_poss": 0, "geometry": "Cylindrical"})");
    sc["pdi"] = json::parse(R"({"span": 1, "max_delta": 1, "views": 5, "tang": 7, "arccorr": false, "tof_mash": 0, "trim": {}})");
    sc["scat"] = json::parse(R"({"nx": 4, "nz": 3, "extent": 0.6, "len": 0.8, "p_zero": 0.0, "low": 425.0, "high": 650.0, "len_match": true, "frames": []})");
    sc["file_data"] = 0;
    typedef FamScatter F;
    auto add_sc = [&](json init, json ops) {
      json c = sc;
      c["init"] = init;
      c["ops"] = ops;
      v.push_back(c);
    };
    // the SAME template again (three times, thread counts up and down), other energy window, other activity image:
    // the attenuation cache may be kept only as long as the detector numbering is
    add_sc({ 8, 0 }, { { 8, 2, F::PROCESS, 0, 0 }, { 8, 2, F::TMPL_AGAIN, 1, 0 }, { 3, 0, F::TMPL_AGAIN, 1, 0 }, { 16, 1, F::SET_EXAM, 1, 0 }, { 16, 2, F::TMPL_AGAIN, 1, 0 },
                       { 2, 0, F::SET_ACT, 1, 0 }, { 12, 0, F::TMPL_AGAIN, 0, 0 }, { 12, 2, F::SET_UP, 0, 1 } });
    // other templates (same detectors / other scanner / down-sampled scanner), images, scatter points, threshold
    add_sc({ 4, 1 }, { { 4, 2, F::PROCESS, 0, 0 }, { 12, 0, F::TMPL_OTHER, 1, 0 }, { 12, 2, F::SET_ATT, 1, 0 }, { 5, 0, F::TMPL_OTHER, 3, 2 }, { 5, 2, F::DOWNSAMPLE_IMAGES, 1, 0 },
                       { 16, 0, F::SET_SP, 1, 4 }, { 16, 2, F::TMPL_OTHER, 2, 3 }, { 3, 1, F::SET_THR, 1, 0 }, { 8, 0, F::SET_ACT, 0, 1 }, { 8, 2, F::TMPL_AGAIN, 1, 0 } });
    // fresh objects in every repetition: two more frames on the object
    json f = sc;
    f["hist"] = 0;
    f["threads"] = 8;
    f["reps"] = 3;
    f["scat"]["frames"] = json::array({ json::array({ int(F::TMPL_AGAIN), 0, 0 }), json::array({ int(F::SET_ACT), 1, 0 }), json::array({ int(F::TMPL_AGAIN), 0, 0 }) });
    v.push_back(f);
  }
  return v;
}

} // namespace

const Property&
the_property()
{
  static Property p;
  p.id = "C18";
  p.gen = gen;
  p.check = check;
  p.nontrivial = nontrivial;
  p.fixed_cases = fixed_cases;
  p.shrink_lists = { "ops" };
  p.known_signature = known_signature;
  return p;
}

// C19 checks, part B: SeparableArrayFunctionObject (kind 4), Gaussian (kind 5), Metz (kind 6), SeparableConvolutionImageFilter (kind 7)
#pragma once
#include "c19_checks_a.h"
#include "stir/SeparableArrayFunctionObject.h"
#include "stir/SeparableGaussianArrayFilter.h"
#include "stir/SeparableGaussianImageFilter.h"
#include "stir/SeparableMetzArrayFilter.h"
#include "stir/SeparableConvolutionImageFilter.h"
#include "stir/VoxelsOnCartesianGrid.h"
#include "stir/CartesianCoordinate3D.h"
#include "stir/shared_ptr.h"
#include <sstream>
#include <functional>
#include <cstdio>
#include <iostream>
#include <unistd.h>
#include <fcntl.h>

namespace c19 {

// separable filters: element-wise relative to prod_d ||k_d||_1 * ||x||_inf   (DESIGN 1e-5; observed 5.7e-7)
constexpr double TOL_SEP = 1e-5;
// Gaussian kernel: shape (relative, see check_gauss), sum, rank-1 defect   (DESIGN 1e-5; observed 2.9e-7 / 1.3e-7 / 1.3e-7)
constexpr double TOL_GAUSS = 1e-5;
// Metz kernels are built with float FFTs of up to 2^19 points and cut where they fall below 1e-4 of the peak
// (SeparableMetzArrayFilter.cxx): kernel sum vs 1 observed 5.3e-4, constant region vs c observed 1.7e-4,
// kernel elements vs the documented formula observed 2.9e-4 of the peak
constexpr double TOL_METZ_SUM = 1e-2;
constexpr double TOL_METZ_FORMULA = 1e-2;

static const int PERMS[6][3] = { { 0, 1, 2 }, { 0, 2, 1 }, { 1, 0, 2 }, { 1, 2, 0 }, { 2, 0, 1 }, { 2, 1, 0 } };

//! SeparableMetzArrayFilter's constructor printf()s every kernel element: silence fd 1 around it
struct StdoutSilencer
{
  int saved;
  StdoutSilencer()
  {
    std::cout.flush();
    fflush(stdout);
    saved = dup(1);
    const int nul = open("/dev/null", O_WRONLY);
    dup2(nul, 1);
    close(nul);
  }
  ~StdoutSilencer()
  {
    fflush(stdout);
    dup2(saved, 1);
    close(saved);
  }
};

//! y'[idx'] with idx'[a] = idx[p[a]]
inline Nd
permute(const Nd& x, const int* p)
{
  Nd y;
  for (int a = 0; a < 3; ++a)
    {
      y.mn[a] = x.mn[p[a]];
      y.len[a] = x.len[p[a]];
    }
  y.alloc();
  int q[3], r[3];
  for (q[0] = x.mn[0]; q[0] <= x.mx(0); ++q[0])
    for (q[1] = x.mn[1]; q[1] <= x.mx(1); ++q[1])
      for (q[2] = x.mn[2]; q[2] <= x.mx(2); ++q[2])
        {
          for (int a = 0; a < 3; ++a)
            r[a] = q[p[a]];
          y.at(r) = x.at(q);
        }
  return y;
}
inline Nd
unpermute(const Nd& y, const int* p)
{
  int inv[3];
  for (int a = 0; a < 3; ++a)
    inv[p[a]] = a;
  return permute(y, inv);
}

struct Axis
{
  K1 k;
  int bc = 0;
};
//! successive 1-D filters (same range in and out), axes in the given order
inline Nd
separable_ref(const Nd& x, const Axis* f, const int* order)
{
  Nd y = x;
  for (int s = 0; s < 3; ++s)
    {
      const int a = order[s];
      y = conv_axis(y, a, f[a].k, y.mn[a], y.len[a], f[a].bc);
    }
  return y;
}
//! reference in all 6 axis orders; they must agree (tensor products commute) -- harness self check
inline Nd
separable_ref_all_orders(const Nd& x, const Axis* f, double scale)
{
  const Nd r0 = separable_ref(x, f, PERMS[0]);
  for (int p = 1; p < 6; ++p)
    {
      const Nd r = separable_ref(x, f, PERMS[p]);
      Result s = compare(r, r0, scale, 1e-11, "HARNESS: reference differs between axis orders", "harness: axis orders");
      if (s.failed())
        throw std::logic_error(s.msg);
    }
  return r0;
}
inline double
sep_scale(const Axis* f, const Nd& x)
{
  double s = maxabs(x);
  for (int a = 0; a < 3; ++a)
    s *= f[a].k.empty() ? 1. : f[a].k.abssum();
  return s;
}

inline stir::VectorWithOffset<float>
to_vwo(const K1& k)
{
  if (k.empty())
    return stir::VectorWithOffset<float>();
  stir::VectorWithOffset<float> v(k.mn, k.mx());
  for (int j = k.mn; j <= k.mx(); ++j)
    v[j] = float(k.c[std::size_t(j - k.mn)]);
  return v;
}

// =============================================================================================
// kind 4: SeparableArrayFunctionObject<3,float> from three 1-D filters, in every axis order
inline Result
check_separable(const json& c)
{
  int dmin[3], dlen[3];
  get3(c, "dmin", 3, dmin, 0);
  get3(c, "dlen", 3, dlen, 1);
  for (int a = 0; a < 3; ++a)
    if (dlen[a] < 1)
      return Result::reject("empty data"); // in_place_apply_array_function_on_1st_index reads array[min]: non-empty regular arrays
  Nd x(dmin, dlen);
  fill_data(x, c.at("seed").get<uint64_t>(), c.at("pat").get<int>());
  const bool allnull = c.value("allnull", false);
  Axis f[3];
  int type[3];
  for (int a = 0; a < 3; ++a)
    {
      const json& fj = c.at("f").at(std::size_t(a));
      type[a] = fj.at("type").get<int>(); // 0 general kernel, 1 symmetric-kernel class, 2 empty kernel (trivial)
      f[a].bc = type[a] == 0 ? fj.at("bc").get<int>() : 0;
      if (type[a] == 2 || allnull)
        continue;
      if (type[a] == 1)
        {
          const int L = fj.at("klen").get<int>() / 2;
          f[a].k = kernel1(-L, 2 * L + 1, fj.at("kseed").get<uint64_t>(), 2);
        }
      else
        f[a].k = kernel1(fj.at("kmin").get<int>(), fj.at("klen").get<int>(), fj.at("kseed").get<uint64_t>(), fj.at("kpat").get<int>());
    }
  const double scale = sep_scale(f, x);
  const Nd ref = separable_ref_all_orders(x, f, scale);
  const int mode = c.at("mode").get<int>();
  const int first_index = c.value("first_index", 0); // "The starting index is irrelevant"
  vf::stats().cls(allnull ? "separable all-null (trivial)" : "separable 3 x 1-D");
  std::string err;
  // run STIR with the data axes permuted (and the filters permuted in the same way): every axis order
  const int np = c.value("all_perms", true) ? 6 : 1;
  for (int pi = 0; pi < np; ++pi)
    {
      const int* p = PERMS[(pi + c.value("perm", 0)) % 6];
      stir::VectorWithOffset<stir::shared_ptr<stir::ArrayFunctionObject<1, float>>> fs(first_index, first_index + 2);
      for (int a = 0; a < 3 && !allnull; ++a)
        {
          const int o = p[a];
          if (type[o] == 1)
            {
              const int L = (int(f[o].k.c.size()) - 1) / 2;
              stir::VectorWithOffset<float> half(0, L);
              for (int j = 0; j <= L; ++j)
                half[j] = float(f[o].k.c[std::size_t(L + j)]);
              fs[first_index + a].reset(new stir::ArrayFilter1DUsingConvolutionSymmetricKernel<float>(half));
            }
          else
            fs[first_index + a].reset(new stir::ArrayFilter1DUsingConvolution<float>(
                to_vwo(f[o].k), f[o].bc == 0 ? stir::BoundaryConditions::zero : stir::BoundaryConditions::constant));
        }
      const stir::SeparableArrayFunctionObject<3, float> sep(fs);
      const Nd xp = permute(x, p);
      stir::Array<3, float> in = to_stir<3, float>(xp);
      Nd gotp;
      if (mode == 1)
        {
          sep(in);
          VF_CHECK((from_stir<3, float>(in, gotp, err)), err);
        }
      else
        {
          stir::Array<3, float> out(in.get_index_range()); // 2-argument form requires equal ranges (ArrayFunctionObject_1ArgumentImplementation)
          out.fill(777.F);
          sep(out, in);
          VF_CHECK((from_stir<3, float>(out, gotp, err)), err);
        }
      const Nd got = unpermute(gotp, p);
      Result r = compare(got, ref, scale, TOL_SEP, vf::cat("SeparableArrayFunctionObject (data axes in order ", p[0], p[1], p[2], ") vs successive 1-D filters"),
                         "separable: max err/(prod|k|1 |x|inf)");
      if (r.failed())
        return r;
    }
  return Result::pass();
}

// ---- helpers for Gaussian / Metz ----------------------------------------------------------------
//! data with a constant box: value cst inside [lo,hi] (per axis), uniform[-1,1] outside
inline void
fill_box(Nd& x, uint64_t seed, const int* lo, const int* hi, double cst)
{
  SplitMix g(seed ^ 0xb0cULL);
  for (int i = x.mn[0]; i <= x.mx(0); ++i)
    for (int j = x.mn[1]; j <= x.mx(1); ++j)
      for (int k = x.mn[2]; k <= x.mx(2); ++k)
        {
          const double r = f32(g.real(-1, 1));
          const bool in = i >= lo[0] && i <= hi[0] && j >= lo[1] && j <= hi[1] && k >= lo[2] && k <= hi[2];
          x.at(i, j, k) = in ? cst : r;
        }
}

//! apply a 3-D array function object in place or with two arguments (equal ranges)
inline Result
apply3(const stir::ArrayFunctionObject<3, float>& F, const Nd& x, int mode, Nd& got)
{
  std::string err;
  stir::Array<3, float> in = to_stir<3, float>(x);
  if (mode == 1)
    {
      F(in);
      VF_CHECK((from_stir<3, float>(in, got, err)), err);
    }
  else
    {
      stir::Array<3, float> out(in.get_index_range());
      out.fill(777.F);
      F(out, in);
      VF_CHECK((from_stir<3, float>(out, got, err)), err);
    }
  return Result::pass();
}

//! random-data and constant-box tests shared by Gaussian and Metz: F against successive 1-D convolutions with kernels kk
typedef std::function<Result(const Nd&, int, Nd&)> Runner;
inline Result
check_against_kernels(const Runner& run, const Axis* kk, const json& c, const char* name, const std::string& statkey,
                      bool expect_unit_gain, double gain_tol)
{
  int dmin[3], dlen[3];
  get3(c, "dmin", 3, dmin, 0);
  get3(c, "dlen", 3, dlen, 1);
  const int mode = c.at("mode").get<int>();
  Nd x(dmin, dlen);
  const bool box = c.at("pat").get<int>() == 5;
  int lo[3], hi[3];
  const double cst = 3.;
  if (box)
    {
      // constant over a box that leaves a margin of c["margin"] voxels to the border of the array
      for (int a = 0; a < 3; ++a)
        {
          const int m = std::min(c.at("margin").at(std::size_t(a)).get<int>(), (dlen[a] - 1) / 2);
          lo[a] = dmin[a] + m;
          hi[a] = dmin[a] + dlen[a] - 1 - m;
        }
      fill_box(x, c.at("seed").get<uint64_t>(), lo, hi, cst);
    }
  else
    fill_data(x, c.at("seed").get<uint64_t>(), c.at("pat").get<int>());
  const double scale = sep_scale(kk, x);
  const Nd ref = separable_ref_all_orders(x, kk, scale);
  Nd got;
  {
    Result r = run(x, mode, got);
    if (r.failed())
      return r;
    r = compare(got, ref, scale, TOL_SEP, vf::cat(name, " vs successive 1-D convolutions with its kernels"), statkey);
    if (r.failed())
      return r;
  }
  if (box)
    {
      // voxels whose whole kernel support lies inside the constant box keep the value (times the product of the kernel sums)
      double gain = 1;
      for (int a = 0; a < 3; ++a)
        gain *= kk[a].k.empty() ? 1. : kk[a].k.sum();
      long n = 0;
      double worst = 0, worst_unit = 0;
      for (int i = x.mn[0]; i <= x.mx(0); ++i)
        for (int j = x.mn[1]; j <= x.mx(1); ++j)
          for (int k = x.mn[2]; k <= x.mx(2); ++k)
            {
              const int p[3] = { i, j, k };
              bool interior = true;
              for (int a = 0; a < 3; ++a)
                {
                  const int kmn = kk[a].k.empty() ? 0 : kk[a].k.mn, kmx = kk[a].k.empty() ? 0 : kk[a].k.mx();
                  if (p[a] - kmx < lo[a] || p[a] - kmn > hi[a])
                    interior = false;
                }
              if (!interior)
                continue;
              ++n;
              worst = std::max(worst, std::fabs(got.at(i, j, k) - cst * gain));
              worst_unit = std::max(worst_unit, std::fabs(got.at(i, j, k) - cst));
            }
      if (n > 0)
        {
          vf::stats().cls(vf::cat(name, " constant-region case with interior voxels"));
          vf::stats().maxi(vf::cat(name, ": constant region rel err (vs c*gain)"), worst / cst);
          VF_CHECK(worst <= 5 * TOL_SEP * cst * std::max(1., std::fabs(gain)), name, ": data constant (", cst,
                   ") over the kernel support do not give c * (product of kernel sums = ", gain, "): max deviation ", worst);
          if (expect_unit_gain)
            {
              vf::stats().maxi(vf::cat(name, ": constant region rel err (vs c)"), worst_unit / cst);
              VF_CHECK(worst_unit <= gain_tol * cst, name, ": data constant (", cst, ") over the kernel support are not preserved: max deviation ",
                       worst_unit);
            }
        }
    }
  return Result::pass();
}

// =============================================================================================
// kind 5: SeparableGaussianArrayFilter<3,float> (directly, or through SeparableGaussianImageFilter with voxel sizes)
inline Result
check_gauss(const json& c)
{
  float fwhm_mm[3], vox[3];
  int m[3];
  for (int a = 0; a < 3; ++a)
    {
      fwhm_mm[a] = float(c.at("fwhm").at(std::size_t(a)).get<double>());
      vox[a] = float(c.at("vox").at(std::size_t(a)).get<double>());
      m[a] = c.at("maxk").at(std::size_t(a)).get<int>();
      // calculate_coefficients: error() for max_kernel_size==0 ("use -1 for auto-length"); only -1 is documented among the negatives
      if (m[a] == 0 || m[a] < -1)
        return Result::reject("max kernel size 0");
    }
  const bool normalise = c.at("normalise").get<bool>();
  const bool via_image = c.at("via_image").get<bool>();
  const int mode = c.at("mode").get<int>();
  vf::stats().cls(via_image ? "gauss via SeparableGaussianImageFilter" : "gauss array filter");
  vf::stats().cls(normalise ? "gauss normalised" : "gauss not normalised");

  stir::BasicCoordinate<3, float> fw, fw_mm, vx;
  stir::BasicCoordinate<3, int> mk;
  double sigma[3];
  for (int a = 0; a < 3; ++a)
    {
      fw_mm[a + 1] = fwhm_mm[a];
      vx[a + 1] = vox[a];
      fw[a + 1] = fwhm_mm[a] / vox[a]; // what SeparableGaussianImageFilter::virtual_set_up passes on (float division)
      mk[a + 1] = m[a];
      sigma[a] = double(fw[a + 1]) / std::sqrt(8. * std::log(2.));
    }
  stir::shared_ptr<stir::SeparableGaussianImageFilter<float>> imf;
  stir::shared_ptr<stir::SeparableGaussianArrayFilter<3, float>> arf;
  int dmin[3], dlen[3];
  get3(c, "dmin", 3, dmin, 0);
  get3(c, "dlen", 3, dlen, 1);
  if (via_image)
    {
      imf.reset(new stir::SeparableGaussianImageFilter<float>);
      imf->set_fwhms(fw_mm);
      imf->set_max_kernel_sizes(mk);
      imf->set_normalise(normalise);
    }
  else if (c.value("scalar_ctor", false) && fw[1] == fw[2] && fw[1] == fw[3] && m[0] == m[1] && m[0] == m[2])
    {
      // the overload with one FWHM and one max_kernel_size for all directions (the latter is a float parameter)
      vf::stats().cls("gauss constructor with one fwhm / max_kernel_size for all directions");
      arf.reset(new stir::SeparableGaussianArrayFilter<3, float>(float(fw[1]), float(m[0]), normalise));
    }
  else
    arf.reset(new stir::SeparableGaussianArrayFilter<3, float>(fw, mk, normalise));
  if (sigma[0] == 0 && sigma[1] == 0 && sigma[2] == 0)
    vf::stats().cls("gauss: FWHM 0 in every direction (no filtering at all)");

  // run the filter on an Nd (through the image class when asked for)
  auto run = [&](const Nd& x, int md, Nd& got) -> Result {
    if (!via_image)
      return apply3(*arf, x, md, got);
    std::string err;
    stir::VoxelsOnCartesianGrid<float> in(to_stir<3, float>(x), stir::CartesianCoordinate3D<float>(1.5F, -2.F, 0.F), vx);
    if (md == 1)
      {
        VF_CHECK(imf->apply(in) == stir::Succeeded::yes, "SeparableGaussianImageFilter::apply failed");
        VF_CHECK((from_stir<3, float>(in, got, err)), err);
      }
    else
      {
        stir::VoxelsOnCartesianGrid<float> out(in.get_index_range(), in.get_origin(), vx);
        out.fill(777.F);
        VF_CHECK(imf->apply(out, in) == stir::Succeeded::yes, "SeparableGaussianImageFilter::apply failed");
        VF_CHECK((from_stir<3, float>(out, got, err)), err);
      }
    return Result::pass();
  };

  // ---- impulse response on a probe array that is larger than any admissible kernel
  int H[3];
  for (int a = 0; a < 3; ++a)
    H[a] = sigma[a] == 0 ? 1 : (m[a] > 0 ? m[a] / 2 + 2 : int(std::ceil(5.3 * sigma[a])) + 3);
  int pmn[3], pln[3];
  for (int a = 0; a < 3; ++a)
    {
      pmn[a] = -H[a];
      pln[a] = 2 * H[a] + 1;
    }
  Nd imp(pmn, pln);
  imp.at(0, 0, 0) = 1.;
  Nd R;
  {
    Result r = run(imp, 0, R);
    if (r.failed())
      return r;
  }
  VF_CHECK(R.same_range(imp), "impulse response range ", R.range_str());
  const double R0 = R.at(0, 0, 0);
  VF_CHECK(R0 > 0, "Gaussian kernel centre is not positive: ", R0);
  Axis kk[3];
  int L[3];
  double total = 0;
  for (double e : R.v)
    total += e;
  for (int a = 0; a < 3; ++a)
    {
      auto r = [&](int i) {
        int p[3] = { 0, 0, 0 };
        p[a] = i;
        return R.at(p);
      };
      L[a] = 0;
      for (int i = 1; i <= H[a]; ++i)
        if (r(i) != 0 || r(-i) != 0)
          L[a] = i;
      if (L[a] >= H[a])
        {
          vf::stats().count(m[a] > 0 ? "gauss probe array too small (max_kernel_size given)" : "gauss probe array too small (auto length)");
          return Result::reject("probe too small");
        }
      for (int i = 1; i <= L[a]; ++i)
        VF_CHECK(r(i) == r(-i), "Gaussian kernel not symmetric along axis ", a + 1, " at ", i, ": ", r(i), " vs ", r(-i));
      // The header calls max_kernel_sizes the "maximum number of elements in the kernels"; the class builds the symmetric kernel
      // -(m/2)..(m/2), i.e. m+1 elements for an even m.  The property makes no statement about the number of elements (its
      // clauses are on the kernel sum and on data that are constant over the kernel *support*, and the support used below is the
      // measured one), so the number of elements is recorded, not judged.
      if (m[a] > 0)
        {
          const int n_el = 2 * L[a] + 1;
          vf::stats().count(n_el > m[a] ? "gauss axes with more kernel elements than max_kernel_size (not a claim)" : "gauss axes with at most max_kernel_size kernel elements");
          vf::stats().maxi("gauss: kernel elements - max_kernel_size", double(n_el - m[a]));
        }
      else if (sigma[a] > 0)
        {
          // "-1: size determined such that the smallest element is approximately 1E-6 times the largest": the first dropped one is below 1e-5
          const double dropped = std::exp(-double(L[a] + 1) * double(L[a] + 1) / (2 * sigma[a] * sigma[a]));
          VF_CHECK(dropped <= 1e-5, "auto-length Gaussian kernel (sigma ", sigma[a], " voxels) stops at +-", L[a], " where the next element would still be ",
                   dropped, " of the peak");
        }
      // shape: Gaussian with the given FWHM
      double ssum = 0;
      kk[a].k.mn = -L[a];
      kk[a].k.c.assign(std::size_t(2 * L[a] + 1), 0.);
      for (int i = -L[a]; i <= L[a]; ++i)
        {
          const double gref = (sigma[a] == 0) ? (i == 0 ? 1. : 0.) : std::exp(-double(i) * double(i) / (2 * sigma[a] * sigma[a]));
          const double s = r(i) / R0;
          // float rounding of sigma^2 is amplified by the exponent i^2/(2 sigma^2) in the far tail: tolerance relative to gref*(1+exponent)
          const double amp = 1 + (sigma[a] == 0 ? 0. : double(i) * double(i) / (2 * sigma[a] * sigma[a]));
          vf::stats().maxi("gauss: kernel shape rel err/(1+exponent)", std::fabs(s - gref) / (gref * amp + 1e-30));
          VF_CHECK(std::fabs(s - gref) <= TOL_GAUSS * gref * amp + 1e-30, "kernel along axis ", a + 1, " at ", i, " is ", s, " of the peak; a Gaussian with FWHM ",
                   double(fw[a + 1]), " voxels gives ", gref);
          kk[a].k.c[std::size_t(i + L[a])] = gref;
          ssum += gref;
        }
      if (normalise)
        for (auto& e : kk[a].k.c)
          e /= ssum;
      if (sigma[a] == 0)
        vf::stats().cls("gauss axis with FWHM 0 (no filtering)");
      else if (m[a] > 0 && std::exp(-double(L[a] + 1) * double(L[a] + 1) / (2 * sigma[a] * sigma[a])) > 1e-4)
        vf::stats().cls("gauss axis clipped by max_kernel_size");
    }
  // separability of the impulse response
  {
    double worst = 0;
    for (int i = -H[0]; i <= H[0]; ++i)
      for (int j = -H[1]; j <= H[1]; ++j)
        for (int k = -H[2]; k <= H[2]; ++k)
          worst = std::max(worst, std::fabs(R.at(i, j, k) * R0 * R0 - R.at(i, 0, 0) * R.at(0, j, 0) * R.at(0, 0, k)));
    vf::stats().maxi("gauss: impulse response rank-1 defect/R0^3", worst / (R0 * R0 * R0));
    VF_CHECK(worst <= TOL_GAUSS * R0 * R0 * R0, "impulse response is not the outer product of its axes: defect ", worst);
  }
  if (normalise)
    {
      vf::stats().maxi("gauss: |kernel sum - 1|", std::fabs(total - 1));
      VF_CHECK(std::fabs(total - 1) <= TOL_GAUSS, "normalised Gaussian kernel sums to ", total);
    }
  else
    {
      // amplitude is not documented for normalise=false: take it from the impulse response (shape still from the definition)
      for (auto& e : kk[0].k.c)
        e *= R0;
    }
  return check_against_kernels(run, kk, c, "gauss", "gauss: max err/(prod|k|1 |x|inf)", normalise, TOL_GAUSS * 5);
}

} // namespace c19

// C20, further parts (entry-point audit of the anchor files, see the table in DESIGN.md "### C20"):
//
//  part "reuse"   : OUTPUT-ARGUMENT RE-USE.  Every function of stir/ML_norm.h that takes an output or in-out container is called with a
//                   container that was USED BEFORE - for another geometry (other number of tangential positions = other fan size, other
//                   max ring difference, other scanner) or for the same geometry with other values, or pre-filled with a sentinel - and
//                   the result must be IDENTICAL (shape, every getter, every value, bit by bit) to that of a fresh container.
//                   make_fan_data_remove_gaps, set_fan_data_add_gaps, make_fan_sum_data (3 overloads), make_geo_data, make_block_data,
//                   iterate_geo_norm, iterate_block_norm, apply_* on containers that were assigned over a container of another geometry,
//                   FanProjData / BlockData3D / GeoData3D copy construction and assignment (all getters, deep copy).
//                   Oracle: differential against the sibling call with a fresh container, which the main part decides against the
//                   reference model.  (iterate_efficiencies is in-out by definition - the update uses the current values - and has no
//                   "fresh" twin; its histories are the descent clause and the driver.)
//  part "twod"    : the 2-D family (DetPairData, one sinogram pair (segment, axial position) at a time; utilities find_ML_normfactors /
//                   apply_normfactors): make_det_pair_data (both overloads), set_det_pair_data, apply_efficiencies / apply_geo_norm /
//                   apply_block_norm, make_fan_sum_data, make_geo_data, make_block_data, iterate_efficiencies / _geo_norm / _block_norm,
//                   KL(DetPairData).  Same oracles as the 3-D family: entry (a,b) = value of the bin get_bin_for_det_pos_pair assigns to
//                   (detector a on the first ring, detector b on the second ring of the sinogram), way back restores both sinograms
//                   and touches nothing else, factors against direct double loops, exact-model fixed points (with the guard of the code
//                   mirrored), KL against a double-precision sum; each output container also pre-used / pre-filled.
//  part "crystal" : multiply_crystal_factors(ProjData&, efficiencies, global_factor) (its own kind of case: any span, view mashing, TOF):
//                   bin = global_factor x sum over the detector pairs of the bin of e1 x e2 (/ number of TOF bins), as multiply_crystal_factors.h
//                   documents.  Reference: ALL unordered detector pairs of the scanner are enumerated and put into the bin
//                   get_bin_for_det_pos_pair assigns (the function under test goes the other way, get_all_det_pos_pairs_for_bin).
//                   The output is pre-filled / pre-used ("overwrites" is documented).
//  misc           : get_fan_info against the harness's FanDims; KL(Array,Array,threshold) template against a double-precision sum.
#pragma once
#include "c20_base.h"
#include "stir/multiply_crystal_factors.h"
#include "stir/Sinogram.h"
#include "stir/Bin.h"
#include <cstring>
#include <array>

namespace c20 {

inline bool
same_bits(float x, float y)
{
  return x == y || (x != x && y != y);
}

//! "" if the two fan containers are indistinguishable through the public interface, else a description of the first difference
inline std::string
diff_fan(const FanProjData& got, const FanProjData& want, const std::string& what)
{
  if (got.get_num_rings() != want.get_num_rings() || got.get_num_detectors_per_ring() != want.get_num_detectors_per_ring()
      || got.get_max_delta() != want.get_max_delta())
    return cat(what, ": rings x detectors x max ring difference = ", got.get_num_rings(), " x ", got.get_num_detectors_per_ring(), " x ", got.get_max_delta(),
               ", with a fresh container ", want.get_num_rings(), " x ", want.get_num_detectors_per_ring(), " x ", want.get_max_delta());
  if (want.get_num_rings() == 0)
    return "";
  if (got.get_min_ra() != want.get_min_ra() || got.get_max_ra() != want.get_max_ra() || got.get_min_a() != want.get_min_a()
      || got.get_max_a() != want.get_max_a())
    return cat(what, ": index ranges of ra / a differ from those of a fresh container");
  for (int a = want.get_min_a(); a <= want.get_max_a(); ++a)
    if (got.get_min_b(a) != want.get_min_b(a) || got.get_max_b(a) != want.get_max_b(a))
      return cat(what, ": fan of detector ", a, " is [", got.get_min_b(a), ",", got.get_max_b(a), "], with a fresh container [", want.get_min_b(a), ",",
                 want.get_max_b(a), "] (fan size not that of the data)");
  for (int ra = want.get_min_ra(); ra <= want.get_max_ra(); ++ra)
    if (got.get_min_rb(ra) != want.get_min_rb(ra) || got.get_max_rb(ra) != want.get_max_rb(ra))
      return cat(what, ": ring range of ring ", ra, " is [", got.get_min_rb(ra), ",", got.get_max_rb(ra), "], with a fresh container [", want.get_min_rb(ra),
                 ",", want.get_max_rb(ra), "]");
  const int n = want.get_num_detectors_per_ring();
  for (int ra = want.get_min_ra(); ra <= want.get_max_ra(); ++ra)
    for (int a = want.get_min_a(); a <= want.get_max_a(); ++a)
      for (int rb = want.get_min_rb(ra); rb <= want.get_max_rb(ra); ++rb)
        for (int b = want.get_min_b(a); b <= want.get_max_b(a); ++b)
          {
            if (got.is_in_data(ra, a, rb, b % n) != want.is_in_data(ra, a, rb, b % n))
              return cat(what, ": is_in_data(", ra, ",", a, ",", rb, ",", b % n, ") differs from a fresh container");
            const float x = got(ra, a, rb, b % n), y = want(ra, a, rb, b % n);
            if (!same_bits(x, y))
              return cat(what, ": entry (ra=", ra, ",a=", a, ",rb=", rb, ",b=", b % n, ") = ", x, ", with a fresh container ", y);
          }
  return "";
}

inline std::string
diff_geo(const GeoData3D& got, const GeoData3D& want, const std::string& what)
{
  if (got.get_num_axial_crystals_per_block() != want.get_num_axial_crystals_per_block()
      || got.get_half_num_transaxial_crystals_per_block() != want.get_half_num_transaxial_crystals_per_block())
    return cat(what, ": symmetry unit ", got.get_num_axial_crystals_per_block(), " x 2*", got.get_half_num_transaxial_crystals_per_block(),
               ", with a fresh container ", want.get_num_axial_crystals_per_block(), " x 2*", want.get_half_num_transaxial_crystals_per_block());
  const Array<4, float>& g = got;
  const Array<4, float>& w = want;
  if (!(g.get_index_range() == w.get_index_range()))
    return cat(what, ": index range differs from that of a fresh container");
  if (w.size_all() == 0)
    return "";
  if (got.get_min_ra() != want.get_min_ra() || got.get_max_ra() != want.get_max_ra() || got.get_min_a() != want.get_min_a()
      || got.get_max_a() != want.get_max_a())
    return cat(what, ": getters of the ra / a ranges differ");
  // through operator(): this is where the stored number of detectors per ring is used (index wrap b < min_b(a) -> b + n)
  for (int ra = want.get_min_ra(); ra <= want.get_max_ra(); ++ra)
    for (int a = want.get_min_a(); a <= want.get_max_a(); ++a)
      {
        if (got.get_min_b(a) != want.get_min_b(a) || got.get_max_b(a) != want.get_max_b(a) || got.get_max_rb(ra) != want.get_max_rb(ra))
          return cat(what, ": getters of the rb / b ranges differ at ra=", ra, " a=", a);
        const int n = want.get_max_b(a) - want.get_min_b(a) + 1;
        for (int rb = ra; rb <= want.get_max_rb(ra); ++rb)
          for (int b = 0; b < n; ++b)
            {
              if (got.is_in_data(ra, a, rb, b) != want.is_in_data(ra, a, rb, b))
                return cat(what, ": is_in_data(", ra, ",", a, ",", rb, ",", b, ") differs from a fresh container");
              const float x = got(ra, a, rb, b), y = want(ra, a, rb, b);
              if (!same_bits(x, y))
                return cat(what, ": cell (ra=", ra, ",a=", a, ",rb=", rb, ",b=", b, ") = ", x, ", with a fresh container ", y);
            }
      }
  return "";
}

template <int D>
inline std::string
diff_arr(const Array<D, float>& got, const Array<D, float>& want, const std::string& what)
{
  if (!(got.get_index_range() == want.get_index_range()))
    return cat(what, ": index range differs from that of a fresh array");
  auto i = got.begin_all();
  auto j = want.begin_all();
  long k = 0;
  for (; j != want.end_all(); ++i, ++j, ++k)
    if (!same_bits(*i, *j))
      return cat(what, ": element ", k, " (storage order) = ", *i, ", with a fresh array ", *j);
  return "";
}

#define C20_SAME(expr)                                                                                                           \
  do                                                                                                                             \
    {                                                                                                                            \
      const std::string c20_d_ = (expr);                                                                                         \
      if (!c20_d_.empty())                                                                                                       \
        return ::vf::Result::fail(::vf::cat(__FILE__, ":", __LINE__, ": re-used container: ", c20_d_));                          \
      ::vf::stats().count("reuse: differential comparisons");                                                                    \
    }                                                                                                                            \
  while (0)

const float SENTINEL = 3.0e30F;

struct ReuseIn
{
  shared_ptr<ExamInfo> exam;
  const ProjData* pd;              // data of the main geometry (distinct value per bin)
  const FanProjData* fan;          // = make_fan_data_remove_gaps(fresh, *pd), decided against the bins by the main part
  const std::vector<float>* back;  // = bins after set_fan_data_add_gaps(fresh projection data, *fan, gap)
  float gap;
  const DetectorEfficiencies* eff; // physical rings x detectors
  int unit_tr, unit_ax;            // symmetry unit of the geometric factors (0: not applicable)
  bool geo_ok, block_ok;
};

//! the other geometry of a re-use history: {"scanner": optional, "max_delta", "tang"}; empty pointer if it cannot be built
inline bool
other_geometry(const json& c, shared_ptr<Scanner>& sc2, shared_ptr<ProjDataInfo>& pdi2, Blocks& B2, FanDims& F2)
{
  const json& r = c["reuse"];
  try
    {
      sc2 = c20::make_scanner(r.contains("scanner") ? r["scanner"] : c["scanner"]);
      if (sc2->check_consistency() != Succeeded::yes)
        return false;
      json p = c["pdi"];
      p["max_delta"] = std::min(r["max_delta"].get<int>(), sc2->get_num_rings() - 1);
      p["views"] = sc2->get_num_detectors_per_ring() / 2;
      p["tang"] = std::max(1, std::min(r["tang"].get<int>(), sc2->get_max_num_non_arccorrected_bins()));
      pdi2 = vg::make_pdi(sc2, p);
    }
  catch (const std::exception&)
    {
      return false;
    }
  if (!dynamic_cast<const ProjDataInfoCylindricalNoArcCorr*>(pdi2.get()))
    return false;
  B2 = Blocks::from(*sc2);
  F2 = FanDims::from(*pdi2, B2);
  return F2.constructible(B2);
}

inline Result
check_reuse(Ctx& X, const ReuseIn& in)
{
  const Blocks& B = X.B;
  const FanDims& F = X.F;
  const int nph = B.nphys, nrph = B.nrphys;
  const FanProjData& fan = *in.fan;
  shared_ptr<Scanner> sc2;
  shared_ptr<ProjDataInfo> pdi2;
  Blocks B2;
  FanDims F2;
  if (!other_geometry(X.c, sc2, pdi2, B2, F2))
    {
      stats().cls("reuse: other geometry not constructible (history skipped)");
      return Result::pass();
    }
  stats().cls("reuse history");
  const bool other_scanner = X.c["reuse"].contains("scanner");
  if (other_scanner)
    stats().cls("reuse: container used for another scanner before");
  if (B2.nphys == nph && B2.nrphys == nrph && F2.new_max_delta == F.new_max_delta)
    {
      if (F2.new_half_fan > F.new_half_fan)
        stats().cls("reuse: same rings/detectors/ring difference, WIDER fan before");
      else if (F2.new_half_fan < F.new_half_fan)
        stats().cls("reuse: same rings/detectors/ring difference, NARROWER fan before");
      else
        stats().cls("reuse: same fan geometry before (other values)");
    }
  else if (B2.nphys == nph && B2.nrphys == nrph)
    stats().cls("reuse: same scanner dimensions, other max ring difference before");

  // ---- data of the other geometry and other data of the same geometry ------------------------------------------------------
  BinStore store(X.pdi_sptr), store2(pdi2);
  ProjDataInMemory pd_other(in.exam, pdi2), pd_alt(in.exam, X.pdi_sptr);
  {
    std::vector<float> v2(std::size_t(store2.total)), va(std::size_t(store.total));
    for (std::size_t i = 0; i < v2.size(); ++i)
      v2[i] = float(1000000 + long(i % 4000000));
    for (std::size_t i = 0; i < va.size(); ++i)
      va[i] = float(500000 + long(i % 4000000)) + 0.5F;
    store2.to_projdata(pd_other, v2);
    store.to_projdata(pd_alt, va);
  }
  FanProjData fan_other, fan_alt;
  make_fan_data_remove_gaps(fan_other, pd_other);
  make_fan_data_remove_gaps(fan_alt, pd_alt);

  // ---- R1 make_fan_data_remove_gaps ------------------------------------------------------------------------------------------------
  {
    FanProjData f;
    make_fan_data_remove_gaps(f, pd_other);
    make_fan_data_remove_gaps(f, *in.pd);
    C20_SAME(diff_fan(f, fan, "make_fan_data_remove_gaps into a container that held the fan data of another geometry"));
    // and back again to the other geometry, then once more (wide -> narrow -> wide ...)
    make_fan_data_remove_gaps(f, pd_other);
    C20_SAME(diff_fan(f, fan_other, "make_fan_data_remove_gaps (third use of the container)"));
    make_fan_data_remove_gaps(f, *in.pd);
    C20_SAME(diff_fan(f, fan, "make_fan_data_remove_gaps (fourth use of the container)"));
  }
  {
    FanProjData f = fan_alt;
    f.fill(SENTINEL);
    make_fan_data_remove_gaps(f, *in.pd);
    C20_SAME(diff_fan(f, fan, "make_fan_data_remove_gaps into a container of the same geometry pre-filled with a sentinel"));
  }
  {
    FanProjData f(B2.nrphys, B2.nphys, F2.new_max_delta, 2 * F2.new_half_fan + 1);
    f.fill(SENTINEL);
    make_fan_data_remove_gaps(f, *in.pd);
    C20_SAME(diff_fan(f, fan, "make_fan_data_remove_gaps into a container constructed for another geometry"));
  }

  // ---- R2 set_fan_data_add_gaps: projection data that were written before -------------------------------------------------
  {
    ProjDataInMemory pda(in.exam, X.pdi_sptr);
    pda.fill(SENTINEL);
    set_fan_data_add_gaps(pda, fan_alt, in.gap + 3.F);
    set_fan_data_add_gaps(pda, fan, in.gap);
    const std::vector<float> got = store.from_projdata(pda);
    VF_CHECK(got.size() == in.back->size(), "internal: number of bins");
    for (std::size_t i = 0; i < got.size(); ++i)
      VF_CHECK(same_bits(got[i], (*in.back)[i]), "set_fan_data_add_gaps into projection data that were written before: bin ", i, " (flat index) = ", got[i],
               ", into fresh projection data ", (*in.back)[i]);
    stats().count("reuse: differential comparisons");
  }

  // ---- R3 make_fan_sum_data (three overloads): the caller sizes the array, the function has to set every element -------------
  {
    Array<2, float> fresh(IndexRange2D(nrph, nph)), used(IndexRange2D(nrph, nph));
    used.fill(SENTINEL);
    make_fan_sum_data(fresh, fan);
    make_fan_sum_data(used, fan_alt);
    make_fan_sum_data(used, fan);
    C20_SAME(diff_arr(used, fresh, "make_fan_sum_data(FanProjData) into an array used before"));
    Array<2, float> fresh_e(IndexRange2D(nrph, nph)), used_e(IndexRange2D(nrph, nph));
    used_e.fill(SENTINEL);
    make_fan_sum_data(fresh_e, *in.eff, F.new_max_delta, F.new_half_fan);
    make_fan_sum_data(used_e, *in.eff, F.new_max_delta, F.new_half_fan);
    C20_SAME(diff_arr(used_e, fresh_e, "make_fan_sum_data(efficiencies) into an array pre-filled with a sentinel"));
    Array<2, float> fresh_p(IndexRange2D(B.nr, B.n)), used_p(IndexRange2D(B.nr, B.n));
    used_p.fill(SENTINEL);
    make_fan_sum_data(fresh_p, *in.pd);
    make_fan_sum_data(used_p, pd_alt);
    make_fan_sum_data(used_p, *in.pd);
    C20_SAME(diff_arr(used_p, fresh_p, "make_fan_sum_data(ProjData) into an array used before"));
  }

  // ---- R9 copy construction and assignment of the containers -------------------------------------------------------------------
  {
    FanProjData x = fan_other; // copy construction
    C20_SAME(diff_fan(x, fan_other, "FanProjData copy construction"));
    x = fan; // assignment over another geometry
    C20_SAME(diff_fan(x, fan, "FanProjData assignment over a container of another geometry"));
    const int ra = fan.get_min_ra(), a = fan.get_min_a(), rb = fan.get_max_rb(ra), b = fan.get_min_b(a) % nph;
    const float before = fan(ra, a, rb, b);
    x(ra, a, rb, b) = before + 1.F;
    VF_CHECK(fan(ra, a, rb, b) == before, "FanProjData assignment is not a deep copy: writing the copy changed the original");
    x(ra, a, rb, b) = before;
    x = x; // self-assignment
    C20_SAME(diff_fan(x, fan, "FanProjData self-assignment"));
    x = fan_other;
    x = FanProjData();
    VF_CHECK(x.get_num_rings() == 0 && x.get_num_detectors_per_ring() == 0, "FanProjData assignment of an empty container leaves ", x.get_num_rings(), " rings");
    x = fan;
    C20_SAME(diff_fan(x, fan, "FanProjData assignment into an emptied container"));
    // R8: apply_* on a container that was assigned over another geometry == on a copy-constructed one
    FanProjData y = fan_other, z = fan;
    y = fan;
    apply_efficiencies(y, *in.eff, true);
    apply_efficiencies(z, *in.eff, true);
    C20_SAME(diff_fan(y, z, "apply_efficiencies on a container assigned over another geometry"));
    apply_efficiencies(y, *in.eff, false);
    apply_efficiencies(z, *in.eff, false);
    C20_SAME(diff_fan(y, z, "apply_efficiencies(apply=false) on a container assigned over another geometry"));
  }

  // ---- R4/R5 geometric factors --------------------------------------------------------------------------------------------------------
  if (in.geo_ok)
    {
      const int ua = in.unit_ax, ut2 = in.unit_tr / 2;
      // a container of ANOTHER shape first (other symmetry unit and/or other scanner dimensions)
      const int ua_o = (other_scanner || ua == 1) ? B2.nrphys : 1;
      const int ut2_o = (B2.nphys % 4 == 0 && ut2 != 2) ? 2 : 1;
      auto used_geo = [&](int variant) {
        GeoData3D g(ua_o, ut2_o, B2.nrphys, B2.nphys);
        g.fill(7.F);
        if (variant == 0)
          g = GeoData3D(ua, ut2, nrph, nph); // assignment over another shape
        else
          {
            GeoData3D h(ua, ut2, nrph, nph);
            g = h;
          }
        g.fill(SENTINEL);
        return g; // (copy construction on return)
      };
      GeoData3D fresh(ua, ut2, nrph, nph);
      make_geo_data(fresh, fan);
      for (int variant = 0; variant < 2; ++variant)
        {
          GeoData3D g = used_geo(variant);
          C20_SAME(diff_geo(GeoData3D(g), g, "GeoData3D copy construction"));
          make_geo_data(g, fan_alt);
          make_geo_data(g, fan);
          C20_SAME(diff_geo(g, fresh, "make_geo_data into a container that was assigned over another shape and used before"));
          // apply_geo_norm with it == with the fresh one
          FanProjData y = fan, z = fan;
          apply_geo_norm(y, g, true);
          apply_geo_norm(z, fresh, true);
          C20_SAME(diff_fan(y, z, "apply_geo_norm with factors in a re-used GeoData3D"));
        }
      // iterate_geo_norm: the first argument is a pure output (make_geo_data of the model, then the ratio)
      GeoData3D n_fresh(ua, ut2, nrph, nph), n_used = used_geo(0);
      iterate_geo_norm(n_fresh, fresh, fan_alt);
      iterate_geo_norm(n_used, fresh, fan);     // used before, with another model
      iterate_geo_norm(n_used, fresh, fan_alt);
      C20_SAME(diff_geo(n_used, n_fresh, "iterate_geo_norm into a container used before"));
      // deep copy
      GeoData3D cp = fresh;
      cp(0, 0, 0, 0) += 1.F;
      VF_CHECK(cp(0, 0, 0, 0) != fresh(0, 0, 0, 0) || fresh(0, 0, 0, 0) > 1e7F, "GeoData3D copy is not a deep copy");
    }

  // ---- R4/R6 block factors -------------------------------------------------------------------------------------------------------------
  if (in.block_ok)
    {
      const bool b2ok = B2.nb_tr >= 2 && B2.nb_tr % 2 == 0 && (B2.nb_tr != B.nb_tr || B2.nb_ax != B.nb_ax);
      auto used_block = [&]() {
        BlockData3D g = b2ok ? BlockData3D(B2.nb_ax, B2.nb_tr, B2.nb_ax - 1, B2.nb_tr - 1) : BlockData3D(B.nb_ax + 1, B.nb_tr + 2, B.nb_ax, B.nb_tr - 1);
        g.fill(7.F);
        g = BlockData3D(B.nb_ax, B.nb_tr, B.nb_ax - 1, B.nb_tr - 1);
        g.fill(SENTINEL);
        return g;
      };
      BlockData3D fresh(B.nb_ax, B.nb_tr, B.nb_ax - 1, B.nb_tr - 1), g = used_block();
      make_block_data(fresh, fan);
      make_block_data(g, fan_alt);
      make_block_data(g, fan);
      C20_SAME(diff_fan(g, fresh, "make_block_data into a container that was assigned over another shape and used before"));
      FanProjData y = fan, z = fan;
      apply_block_norm(y, g, true);
      apply_block_norm(z, fresh, true);
      C20_SAME(diff_fan(y, z, "apply_block_norm with factors in a re-used BlockData3D"));
      BlockData3D n_fresh(B.nb_ax, B.nb_tr, B.nb_ax - 1, B.nb_tr - 1), n_used = used_block();
      iterate_block_norm(n_fresh, fresh, fan_alt);
      iterate_block_norm(n_used, fresh, fan);
      iterate_block_norm(n_used, fresh, fan_alt);
      C20_SAME(diff_fan(n_used, n_fresh, "iterate_block_norm into a container used before"));
    }
  return Result::pass();
}

// =====================================================================================================================================
// part "twod"
// =====================================================================================================================================

//! classes of ordered detector pairs (a,b), a,b in [0,n), generated by what the 2-D functions use (ML_norm.cxx:263-286, 311-347):
//! rotation by one unit and the mirror a -> n-1-a, b -> n-1-b (= mirror inside the unit composed with rotations)
struct GeoClasses2D
{
  int n;
  std::vector<int> parent;
  int find(int x)
  {
    while (parent[std::size_t(x)] != x)
      {
        parent[std::size_t(x)] = parent[std::size_t(parent[std::size_t(x)])];
        x = parent[std::size_t(x)];
      }
    return x;
  }
  void unite(int x, int y)
  {
    const int a = find(x), b = find(y);
    if (a != b)
      parent[std::size_t(std::max(a, b))] = std::min(a, b);
  }
  GeoClasses2D(int n_, int unit)
      : n(n_),
        parent(std::size_t(n_) * n_)
  {
    std::iota(parent.begin(), parent.end(), 0);
    for (int a = 0; a < n; ++a)
      for (int b = 0; b < n; ++b)
        {
          unite(a * n + b, ((a + unit) % n) * n + (b + unit) % n);
          unite(a * n + b, (n - 1 - a) * n + (n - 1 - b));
        }
  }
  int cls(int a, int b) { return find(a * n + ((b % n) + n) % n); }
};

struct Entry2
{
  int a, b; // b in [a + n/2 - hf, a + n/2 + hf] (not reduced)
};

inline std::string
diff_dpd(const DetPairData& got, const DetPairData& want, const std::string& what)
{
  if (got.get_num_detectors() != want.get_num_detectors() || got.get_min_index() != want.get_min_index() || got.get_max_index() != want.get_max_index())
    return cat(what, ": ", got.get_num_detectors(), " detectors [", got.get_min_index(), ",", got.get_max_index(), "], with a fresh container ",
               want.get_num_detectors(), " [", want.get_min_index(), ",", want.get_max_index(), "]");
  for (int a = want.get_min_index(); a <= want.get_max_index(); ++a)
    {
      if (got.get_min_index(a) != want.get_min_index(a) || got.get_max_index(a) != want.get_max_index(a))
        return cat(what, ": fan of detector ", a, " is [", got.get_min_index(a), ",", got.get_max_index(a), "], with a fresh container [", want.get_min_index(a),
                   ",", want.get_max_index(a), "]");
      for (int b = want.get_min_index(a); b <= want.get_max_index(a); ++b)
        if (!same_bits(got(a, b), want(a, b)))
          return cat(what, ": entry (", a, ",", b, ") = ", got(a, b), ", with a fresh container ", want(a, b));
    }
  return "";
}

inline Result
check_2d(Ctx& X, const shared_ptr<ExamInfo>& exam, const ProjData& pd, const std::vector<float>& vals, const ModelSpec& M)
{
  const json& j = X.c["twod"];
  const ProjDataInfoCylindricalNoArcCorr& p = *X.pdi;
  const Blocks& B = X.B;
  const int n = B.n; // the 2-D family works in scanner indices (virtual crystals are ordinary detectors here)
  const int hf = std::max(p.get_max_tangential_pos_num(), -p.get_min_tangential_pos_num()); // make_det_pair_data_help: max, not min
  // DetPairData addresses detector b as b or b + n: the fan has to be smaller than the ring
  if (2 * hf + 1 >= n)
    {
      stats().cls("2D: fan not smaller than the ring (part skipped)");
      return Result::pass();
    }
  stats().cls("2D family checked");
  BinStore store(X.pdi_sptr);
  int seg = int(j["seg"].get<long>() % long(p.get_max_segment_num() + 1));
  if (j["neg_seg"].get<bool>())
    seg = -seg;
  const int ax = p.get_min_axial_pos_num(seg) + int(j["ax"].get<long>() % long(p.get_num_axial_poss(seg)));
  if (seg != 0)
    stats().cls("2D: oblique sinogram pair");
  if (p.get_max_tangential_pos_num() != -p.get_min_tangential_pos_num())
    stats().cls("2D: even number of tangential positions (one column of the fan has no bin)");
  int r1, r2;
  p.get_ring_pair_for_segment_axial_pos_num(r1, r2, seg, ax);
  const uint64_t seed = j["seed"].get<uint64_t>();

  std::vector<Entry2> dom;
  for (int a = 0; a < n; ++a)
    for (int b = a + n / 2 - hf; b <= a + n / 2 + hf; ++b)
      dom.push_back(Entry2{ a, b });
  stats().count("2D: detector pairs enumerated", long(dom.size()));

  // ---- conversion ------------------------------------------------------------------------------------------------------------------------------
  DetPairData d0;
  make_det_pair_data(d0, pd, seg, ax);
  VF_CHECK(d0.get_num_detectors() == n && d0.get_min_index() == 0 && d0.get_max_index() == n - 1, "make_det_pair_data: ", d0.get_num_detectors(), " detectors [",
           d0.get_min_index(), ",", d0.get_max_index(), "] for a ring of ", n);
  for (int a = 0; a < n; ++a)
    VF_CHECK(d0.get_min_index(a) == a + n / 2 - hf && d0.get_max_index(a) == a + n / 2 + hf, "make_det_pair_data: fan of detector ", a, " is [", d0.get_min_index(a),
             ",", d0.get_max_index(a), "], expected half fan ", hf);
  long n_bin = 0, n_nobin = 0;
  for (const Entry2& e : dom)
    {
      const int bd = e.b % n;
      const DetectionPositionPair<> dp(DetectionPosition<>(e.a, r1), DetectionPosition<>(bd, r2));
      Bin bin;
      float want = 0.F;
      bool has = false;
      if (p.get_bin_for_det_pos_pair(bin, dp) == Succeeded::yes
          && store.in_range(bin.segment_num(), bin.axial_pos_num(), bin.view_num(), bin.tangential_pos_num()))
        {
          has = true;
          want = vals[std::size_t(store.index(bin.segment_num(), bin.axial_pos_num(), bin.view_num(), bin.tangential_pos_num()))];
        }
      (has ? n_bin : n_nobin)++;
      const float got = d0(e.a, bd);
      VF_CHECK(got == want, "make_det_pair_data(segment ", seg, ", axial position ", ax, "): entry (a=", e.a, ",b=", bd, ") [detector a on ring ", r1,
               ", detector b on ring ", r2, "] = ", got, has ? " but its bin (seg " : " but it has no bin in the data (seg ", bin.segment_num(), ", ax ",
               bin.axial_pos_num(), ", view ", bin.view_num(), ", tang ", bin.tangential_pos_num(), has ? ") holds " : "); expected ", want);
      VF_CHECK(d0.is_in_data(e.a, bd), "DetPairData::is_in_data(", e.a, ",", bd, ") is false for an entry of the fan");
    }
  stats().count("2D: entries with a bin", n_bin);
  stats().count("2D: entries without a bin", n_nobin);
  // the ProjDataInfo overload: "Makes a DetPairData of appropriate dimensions and fills it with 0"
  {
    DetPairData z;
    make_det_pair_data(z, p, seg, ax);
    DetPairData zero = d0;
    zero.fill(0.F);
    C20_SAME(diff_dpd(z, zero, "make_det_pair_data(ProjDataInfo)"));
    // a container used before: other size (2 detectors more, other fan), other values
    IndexRange<2> other;
    other.grow(0, n + 1);
    for (int a = 0; a <= n + 1; ++a)
      other[a] = IndexRange<1>(a + 1, a + 1 + ((seed >> 3) % 2 ? 2 * hf + 2 : std::max(0, 2 * hf - 2)));
    DetPairData u(other);
    u.fill(SENTINEL);
    make_det_pair_data(u, pd, seg, ax);
    C20_SAME(diff_dpd(u, d0, "make_det_pair_data into a container of another size filled with a sentinel"));
    DetPairData v(other);
    v.fill(SENTINEL);
    make_det_pair_data(v, p, seg, ax);
    C20_SAME(diff_dpd(v, zero, "make_det_pair_data(ProjDataInfo) into a container of another size filled with a sentinel"));
    DetPairData w = u; // copy construction, assignment
    C20_SAME(diff_dpd(w, d0, "DetPairData copy construction"));
    DetPairData w2(other);
    w2 = d0;
    C20_SAME(diff_dpd(w2, d0, "DetPairData assignment over a container of another size"));
    // same container for the next sinogram pair, as find_ML_normfactors does
    const int ax_next = p.get_min_axial_pos_num(seg) + (ax - p.get_min_axial_pos_num(seg) + 1) % p.get_num_axial_poss(seg);
    DetPairData t0, t1;
    make_det_pair_data(t0, pd, seg, ax_next);
    make_det_pair_data(t1, pd, seg, ax);
    make_det_pair_data(t1, pd, seg, ax_next);
    C20_SAME(diff_dpd(t1, t0, "make_det_pair_data into the container of the previous axial position"));
  }
  // back: both sinograms restored, nothing else touched
  {
    ProjDataInMemory pd2(exam, X.pdi_sptr);
    pd2.fill(-7.F);
    set_det_pair_data(pd2, d0, seg, ax);
    const std::vector<float> back = store.from_projdata(pd2);
    long n_restored = 0;
    for (int s = p.get_min_segment_num(); s <= p.get_max_segment_num(); ++s)
      for (int axp = p.get_min_axial_pos_num(s); axp <= p.get_max_axial_pos_num(s); ++axp)
        for (int v = p.get_min_view_num(); v <= p.get_max_view_num(); ++v)
          for (int t = p.get_min_tangential_pos_num(); t <= p.get_max_tangential_pos_num(); ++t)
            {
              const std::size_t idx = std::size_t(store.index(s, axp, v, t));
              if ((s == seg || s == -seg) && axp == ax)
                {
                  ++n_restored;
                  VF_CHECK(back[idx] == vals[idx], "set_det_pair_data: bin (seg ", s, ", ax ", axp, ", view ", v, ", tang ", t, ") = ", back[idx], " instead of ",
                           vals[idx]);
                }
              else
                VF_CHECK(back[idx] == -7.F, "set_det_pair_data(segment ", seg, ", axial position ", ax, ") changed bin (seg ", s, ", ax ", axp, ", view ", v,
                         ", tang ", t, ") to ", back[idx]);
            }
    stats().count("2D: bins restored", n_restored);
  }

  // ---- factors -------------------------------------------------------------------------------------------------------------------------------------
  auto snap = [&](const DetPairData& d) {
    std::vector<double> v(dom.size());
    for (std::size_t i = 0; i < dom.size(); ++i)
      v[i] = d(dom[i].a, dom[i].b % n);
    return v;
  };
  auto put = [&](DetPairData& d, const std::vector<double>& v) {
    for (std::size_t i = 0; i < dom.size(); ++i)
      d(dom[i].a, dom[i].b % n) = float(v[i]);
  };
  auto apply_check = [&](const char* what, const DetPairData& start, const std::vector<double>& base, const std::vector<double>& fac, auto apply) -> Result {
    DetPairData f = start;
    apply(f, true);
    std::vector<double> got = snap(f);
    double worst = 0;
    for (std::size_t i = 0; i < dom.size(); ++i)
      {
        const double want = base[i] * fac[i];
        const double err = std::fabs(got[i] - want) / std::max(std::fabs(want), 1e-300);
        if (want != 0)
          worst = std::max(worst, err);
        if (!(want == 0 ? got[i] == 0 : err <= TOL_APPLY))
          return Result::fail(cat(what, "(apply=true): entry (a=", dom[i].a, ",b=", dom[i].b % n, ") = ", got[i], " expected ", base[i], " x ", fac[i], " = ", want));
      }
    smax(std::string("max rel err ") + what + " apply", worst);
    apply(f, false);
    got = snap(f);
    worst = 0;
    for (std::size_t i = 0; i < dom.size(); ++i)
      {
        const double err = std::fabs(got[i] - base[i]) / std::max(std::fabs(base[i]), 1e-300);
        if (base[i] != 0)
          worst = std::max(worst, err);
        if (!(base[i] == 0 ? got[i] == 0 : err <= TOL_UNAPPLY))
          return Result::fail(cat(what, "(apply=false) does not restore entry (a=", dom[i].a, ",b=", dom[i].b % n, "): ", got[i], " instead of ", base[i]));
      }
    smax(std::string("max rel err ") + what + " un-apply", worst);
    return Result::pass();
  };

  // model of this sinogram pair: hashed on the ORDERED pair (for an oblique pair (a,b) and (b,a) are different LORs)
  std::vector<double> model(dom.size());
  {
    const double a0 = hreal(seed ^ 0xa0ULL, 1, 0., double(n));
    for (std::size_t i = 0; i < dom.size(); ++i)
      {
        const int a = dom[i].a, bd = dom[i].b % n;
        const uint64_t key = uint64_t(a) * 4096 + uint64_t(bd);
        double m = double(float(hreal(seed ^ 0x30de1ULL, key, 1., 50.)));
        if (M.wide)
          {
            const double xo = hf > 0 ? double(std::abs(dom[i].b - a - n / 2)) / double(hf) : 0.;
            auto h = [&](int d) {
              return M.det_shape == 1 ? hreal(seed ^ 0xde7ULL, uint64_t(d), 0., 1.) : 0.5 * (1. - std::cos(6.283185307179586 * (double(d) - a0) / double(n)));
            };
            m *= std::pow(10., -double(M.e_off) * xo * xo - double(M.e_det) * (h(a) + h(bd)));
            // exact zeros on UNORDERED pairs: a detector whose row is all zero then has an all-zero column too (its efficiency is
            // set to 0 by iterate_efficiencies and must not be needed by any other detector)
            if (M.zero_frac > 0 && hreal(seed ^ 0x2e20ULL, pair_key(0, a, 0, bd, n), 0., 1.) < M.zero_frac)
              m = 0.;
            if (M.dead && (a == int(seed % uint64_t(n)) || bd == int(seed % uint64_t(n))))
              m = 0.;
          }
        model[i] = double(float(m));
      }
  }
  DetPairData mdl = d0;
  mdl.fill(0.F);
  put(mdl, model);
  const std::vector<double> base = snap(d0);

  Array<1, float> eff(0, n - 1);
  for (int a = 0; a < n; ++a)
    eff[a] = float(hreal(seed, uint64_t(a), 0.2, 5.));
  std::vector<double> efac(dom.size());
  for (std::size_t i = 0; i < dom.size(); ++i)
    efac[i] = double(eff[dom[i].a]) * double(eff[dom[i].b % n]);
  {
    Result r = apply_check("2D apply_efficiencies", d0, base, efac, [&](DetPairData& f, bool ap) { apply_efficiencies(f, eff, ap); });
    if (r.kind != Result::PASS)
      return r;
    r = apply_check("2D apply_efficiencies (model)", mdl, model, efac, [&](DetPairData& f, bool ap) { apply_efficiencies(f, eff, ap); });
    if (r.kind != Result::PASS)
      return r;
  }
  // block factors: one per ORDERED pair of blocks (BlockData = Array<2>: [block of a][block of b])
  const int nb = B.nb_tr, cpb = B.c_tr;
  BlockData blk(IndexRange2D(nb, nb));
  for (int A = 0; A < nb; ++A)
    for (int Bk = 0; Bk < nb; ++Bk)
      blk[A][Bk] = factor_value(M, seed ^ 0xb10cULL, uint64_t(A) * 4096 + uint64_t(Bk));
  std::vector<double> bfac(dom.size());
  for (std::size_t i = 0; i < dom.size(); ++i)
    bfac[i] = double(blk[dom[i].a / cpb][(dom[i].b % n) / cpb]);
  {
    Result r = apply_check("2D apply_block_norm", d0, base, bfac, [&](DetPairData& f, bool ap) { apply_block_norm(f, blk, ap); });
    if (r.kind != Result::PASS)
      return r;
  }
  // geometric factors: symmetry unit = an even divisor of the ring (GeoData has unit/2 rows), block size preferred
  int unit = 0;
  {
    std::vector<int> ut;
    for (int d : vg::divisors(n))
      if (d % 2 == 0)
        ut.push_back(d);
    const int want = j["unit"].get<int>();
    unit = (want == 0 && cpb % 2 == 0) ? cpb : ut[std::size_t(want) % ut.size()];
  }
  GeoClasses2D cl(n, unit);
  GeoData geo(IndexRange2D(unit / 2, n));
  auto gval = [&](int a, int b) { return factor_value(M, seed ^ 0x6e0ULL, uint64_t(cl.cls(a, b))); };
  for (int a = 0; a < unit / 2; ++a)
    for (int b = 0; b < n; ++b)
      geo[a][b] = gval(a, b);
  std::vector<double> gfac(dom.size());
  for (std::size_t i = 0; i < dom.size(); ++i)
    gfac[i] = double(gval(dom[i].a, dom[i].b));
  {
    Result r = apply_check("2D apply_geo_norm", d0, base, gfac, [&](DetPairData& f, bool ap) { apply_geo_norm(f, geo, ap); });
    if (r.kind != Result::PASS)
      return r;
  }

  // ---- sums, fixed points --------------------------------------------------------------------------------------------------------------------------
  auto direct_sums = [&](const std::vector<double>& v) {
    std::vector<double> s(std::size_t(n), 0.);
    for (std::size_t i = 0; i < dom.size(); ++i)
      s[std::size_t(dom[i].a)] += v[i];
    return s;
  };
  {
    std::vector<double> data(dom.size());
    for (std::size_t i = 0; i < dom.size(); ++i)
      data[i] = double(float(model[i] * efac[i]));
    DetPairData dd = mdl;
    put(dd, data);
    Array<1, float> sums(0, n - 1);
    sums.fill(SENTINEL);
    make_fan_sum_data(sums, dd);
    const std::vector<double> ref = direct_sums(data);
    for (int a = 0; a < n; ++a)
      {
        if (ref[std::size_t(a)] == 0)
          {
            VF_CHECK(sums[a] == 0, "2D make_fan_sum_data det ", a, ": ", sums[a], " but all entries are 0");
            continue;
          }
        smax("max rel err 2D fan sums", std::fabs(sums[a] - ref[std::size_t(a)]) / ref[std::size_t(a)]);
        VF_CHECK(std::fabs(sums[a] - ref[std::size_t(a)]) <= TOL_SUMS * ref[std::size_t(a)], "2D make_fan_sum_data det ", a, ": ", sums[a], " vs direct sum ",
                 ref[std::size_t(a)]);
      }
    Array<1, float> e2 = eff;
    iterate_efficiencies(e2, sums, mdl);
    for (int a = 0; a < n; ++a)
      {
        if (ref[std::size_t(a)] == 0)
          {
            VF_CHECK(e2[a] == 0, "2D iterate_efficiencies: detector ", a, " has fan sum 0 but gets efficiency ", e2[a]);
            continue;
          }
        const double err = std::fabs(e2[a] - eff[a]) / eff[a];
        smax("max rel err 2D fixed point efficiencies", err);
        VF_CHECK(err <= TOL_FIXED, "2D iterate_efficiencies moves the exact parameters: det ", a, ": ", eff[a], " -> ", e2[a]);
      }
    // KL(DetPairData): sum of the documented term over all entries
    DetPairData pred = mdl;
    Array<1, float> eo(0, n - 1);
    for (int a = 0; a < n; ++a)
      eo[a] = float(hreal(seed ^ 0x57a7ULL, uint64_t(a), 0.3, 3.));
    apply_efficiencies(pred, eo, true);
    const std::vector<double> ps = snap(pred);
    for (double thr : { 0., X.c["kl_threshold"].get<double>() })
      {
        double want = 0, mag = 0;
        for (std::size_t i = 0; i < dom.size(); ++i)
          if (!(data[i] == 0 && ps[i] == 0))
            {
              want += kl_term(data[i], ps[i], thr);
              mag += data[i] + ps[i];
            }
        const double got = KL(dd, pred, thr);
        if (want > 1e-6 * mag)
          smax("max rel dev 2D stir::KL", std::fabs(got - want) / want);
        VF_CHECK(std::fabs(got - want) <= TOL_KL * want + 1e-12 * mag, "2D stir::KL(DetPairData) = ", got, " but the sum of the documented term over all entries is ",
                 want, " (threshold ", thr, ")");
      }
  }
  // geo fixed point (guard mirrored as in the 3-D clause: ML_norm.cxx:395-402)
  {
    std::vector<double> data(dom.size());
    for (std::size_t i = 0; i < dom.size(); ++i)
      data[i] = double(float(model[i] * gfac[i]));
    DetPairData dd = mdl;
    put(dd, data);
    GeoData measured(IndexRange2D(unit / 2, n)), norm(IndexRange2D(unit / 2, n)), msum(IndexRange2D(unit / 2, n));
    measured.fill(SENTINEL);
    norm.fill(SENTINEL);
    make_geo_data(measured, dd);
    make_geo_data(msum, mdl);
    iterate_geo_norm(norm, measured, mdl);
    const float thr = measured.find_max() / 10000.F;
    if (thr > 0)
      {
        long cnt = 0, n_off = 0, n_small = 0;
        for (int a = 0; a < unit / 2; ++a)
          for (int b = 0; b < n; ++b)
            {
              const double g = geo[a][b];
              const double got = norm[a][b];
              const float meas = measured[a][b];
              if (msum[a][b] == 0)
                {
                  VF_CHECK(meas == 0 && got == 0, "2D iterate_geo_norm: class (", a, ",", b, ") has model sum 0, data sum ", meas, " and gets ", got);
                  continue;
                }
              ++cnt;
              if (meas < thr)
                ++n_small;
              if (!(meas >= thr || g < 1e4))
                {
                  ++n_off;
                  VF_CHECK(got == 0, "2D iterate_geo_norm: class (", a, ",", b, ") with data sum ", meas, " < threshold ", thr, " and true factor ", g, " gets ", got,
                           " (0 expected from the guard in the code)");
                  continue;
                }
              const double err = std::fabs(got - g) / g;
              smax("max rel err 2D fixed point geo", err);
              VF_CHECK(err <= TOL_FIXED, "2D iterate_geo_norm moves the exact parameters: class (", a, ",", b, "): ", g, " -> ", got, " (data sum ", meas,
                       ", largest class ", measured.find_max(), ")");
            }
        stats().count("2D: geo parameters compared", cnt);
        stats().count("2D: geo classes below 1e-4 of the largest class", n_small);
        stats().count("2D: geo classes switched off by the guard", n_off);
      }
  }
  // block fixed point
  {
    std::vector<double> data(dom.size());
    for (std::size_t i = 0; i < dom.size(); ++i)
      data[i] = double(float(model[i] * bfac[i]));
    DetPairData dd = mdl;
    put(dd, data);
    BlockData measured(IndexRange2D(nb, nb)), norm(IndexRange2D(nb, nb)), msum(IndexRange2D(nb, nb));
    measured.fill(SENTINEL);
    norm.fill(SENTINEL);
    make_block_data(measured, dd);
    make_block_data(msum, mdl);
    iterate_block_norm(norm, measured, mdl);
    const float thr = measured.find_max() / 10000.F;
    if (thr > 0)
      {
        long cnt = 0;
        for (int A = 0; A < nb; ++A)
          for (int Bk = 0; Bk < nb; ++Bk)
            {
              const double g = blk[A][Bk];
              const double got = norm[A][Bk];
              const float meas = measured[A][Bk];
              if (msum[A][Bk] == 0)
                {
                  VF_CHECK(meas == 0 && got == 0, "2D iterate_block_norm: blocks (", A, ",", Bk, ") have model sum 0, data sum ", meas, " and get ", got);
                  continue;
                }
              ++cnt;
              if (!(meas >= thr || g < 1e4))
                {
                  VF_CHECK(got == 0, "2D iterate_block_norm: blocks (", A, ",", Bk, ") with data sum ", meas, " < threshold ", thr, " and true factor ", g, " get ",
                           got, " (0 expected from the guard in the code)");
                  continue;
                }
              const double err = std::fabs(got - g) / g;
              smax("max rel err 2D fixed point block", err);
              VF_CHECK(err <= TOL_FIXED, "2D iterate_block_norm moves the exact parameters: blocks (", A, ",", Bk, "): ", g, " -> ", got, " (data sum ", meas,
                       ", largest ", measured.find_max(), ")");
            }
        stats().count("2D: block parameters compared", cnt);
      }
  }
  return Result::pass();
}

// =====================================================================================================================================
// part "crystal": multiply_crystal_factors
// =====================================================================================================================================
inline Result
check_crystal(const json& c)
{
  shared_ptr<Scanner> sc;
  shared_ptr<ProjDataInfo> pdi_sptr;
  try
    {
      sc = c20::make_scanner(c["scanner"]);
      if (sc->check_consistency() != Succeeded::yes)
        return Result::reject("scanner inconsistent");
      pdi_sptr = vg::make_pdi(sc, c["pdi"]);
    }
  catch (const std::exception& e)
    {
      return Result::reject(std::string("construction rejected: ") + e.what());
    }
  // multiply_crystal_factors: error("Can only process not arc-corrected data")
  if (!dynamic_cast<const ProjDataInfoCylindricalNoArcCorr*>(pdi_sptr.get()))
    return Result::reject("not cylindrical non-arc-corrected data");
  const json& j = c["crystal"];
  const uint64_t seed = j["seed"].get<uint64_t>();
  const float gf = j["global_factor"].get<float>();
  const int n = sc->get_num_detectors_per_ring(), nr = sc->get_num_rings();
  const int ntof = pdi_sptr->get_num_tof_poss();
  stats().cls("crystal-factor case (multiply_crystal_factors)");
  const shared_ptr<ProjDataInfo> nontof_sptr = pdi_sptr->create_non_tof_clone();
  const ProjDataInfoCylindricalNoArcCorr& q = dynamic_cast<const ProjDataInfoCylindricalNoArcCorr&>(*nontof_sptr);
  if (ntof > 1)
    stats().cls("crystal: TOF data");
  // TOF data mashed to ONE TOF bin (tof mashing factor > 0, so is_tof_data() is true, but get_num_tof_poss() == 1): former finding F4
  // (the function took its non-TOF branch and set_sinogram() refused the sinograms of the non-TOF clone); repaired in /repo, the
  // class is part of the normal search and replays/C20/fixed_F4_crystal_factors_tof_one_bin.json is the regression input.
  if (ntof == 1 && pdi_sptr->is_tof_data())
    stats().cls("crystal: TOF data mashed to one TOF bin");

  Array<2, float> eff(IndexRange2D(nr, n)), eff_alt(IndexRange2D(nr, n));
  for (int r = 0; r < nr; ++r)
    for (int a = 0; a < n; ++a)
      {
        eff[r][a] = float(hreal(seed, uint64_t(r) * 4096 + uint64_t(a), 0.2, 5.));
        eff_alt[r][a] = float(hreal(seed ^ 0xa17ULL, uint64_t(r) * 4096 + uint64_t(a), 0.2, 5.));
      }
  // reference: every unordered pair of detectors, put into the bin the geometry assigns to it
  BinStore store(nontof_sptr);
  std::vector<double> ref(std::size_t(store.total), 0.);
  std::vector<int> terms(std::size_t(store.total), 0);
  std::vector<std::array<int, 4>> first_pair(std::size_t(store.total), std::array<int, 4>{ -1, -1, -1, -1 });
  long n_pairs = 0;
  for (int r1 = 0; r1 < nr; ++r1)
    for (int a = 0; a < n; ++a)
      for (int r2 = r1; r2 < nr; ++r2)
        for (int b = 0; b < n; ++b)
          {
            if (a == b || (r1 == r2 && b < a))
              continue;
            Bin bin;
            const DetectionPositionPair<> dp(DetectionPosition<>(a, r1), DetectionPosition<>(b, r2));
            if (q.get_bin_for_det_pos_pair(bin, dp) != Succeeded::yes
                || !store.in_range(bin.segment_num(), bin.axial_pos_num(), bin.view_num(), bin.tangential_pos_num()))
              continue;
            const std::size_t idx = std::size_t(store.index(bin.segment_num(), bin.axial_pos_num(), bin.view_num(), bin.tangential_pos_num()));
            ref[idx] += double(eff[r1][a]) * double(eff[r2][b]);
            if (terms[idx] == 0)
              first_pair[idx] = { r1, a, r2, b };
            ++terms[idx];
            ++n_pairs;
          }
  stats().count("crystal: detector pairs inside the data", n_pairs);

  shared_ptr<ExamInfo> exam(new ExamInfo);
  ProjDataInMemory pd(exam, pdi_sptr);
  const int history = j["history"].get<int>();
  if (history == 1)
    pd.fill(SENTINEL);
  else if (history == 2)
    {
      stats().cls("crystal: output used before with other factors");
      multiply_crystal_factors(pd, eff_alt, 2.F * gf + 1.F);
    }
  multiply_crystal_factors(pd, eff, gf);
  double worst = 0;
  long nbins = 0;
  for (int tp = pdi_sptr->get_min_tof_pos_num(); tp <= pdi_sptr->get_max_tof_pos_num(); ++tp)
    for (int s = q.get_min_segment_num(); s <= q.get_max_segment_num(); ++s)
      {
        const SegmentBySinogram<float> segm = pd.get_segment_by_sinogram(s, tp);
        for (int ax = q.get_min_axial_pos_num(s); ax <= q.get_max_axial_pos_num(s); ++ax)
          for (int v = q.get_min_view_num(); v <= q.get_max_view_num(); ++v)
            for (int t = q.get_min_tangential_pos_num(); t <= q.get_max_tangential_pos_num(); ++t)
              {
                const std::size_t idx = std::size_t(store.index(s, ax, v, t));
                const double want = double(gf) * ref[idx] / double(ntof);
                const double got = segm[ax][v][t];
                ++nbins;
                if (want == 0)
                  {
                    VF_CHECK(got == 0, "multiply_crystal_factors: bin (seg ", s, ", ax ", ax, ", view ", v, ", tang ", t, ", TOF ", tp, ") has no detector pair but holds ", got);
                    continue;
                  }
                const double err = std::fabs(got - want) / want;
                worst = std::max(worst, err);
                // one float product per pair, float accumulation of `terms` of them, two float factors (observed maximum over the
                // calibration runs 2.9e-7)
                const double tol = 1e-5;
                if (!(err <= tol))
                  {
                    std::vector<DetectionPositionPair<>> dps;
                    q.get_all_det_pos_pairs_for_bin(dps, Bin(s, v, ax, t));
                    std::string lst;
                    for (const auto& d : dps)
                      lst += cat(" (ring ", d.pos1().axial_coord(), " det ", d.pos1().tangential_coord(), " - ring ", d.pos2().axial_coord(), " det ",
                                 d.pos2().tangential_coord(), ")");
                    return Result::fail(cat("multiply_crystal_factors: bin (seg ", s, ", ax ", ax, ", view ", v, ", tang ", t, ", TOF ", tp, ") = ", got, " but global factor ", gf,
                                            " x sum over its ", terms[idx], " detector pairs of e1 x e2 / ", ntof, " TOF bins = ", want, "; first pair that get_bin_for_det_pos_pair puts there: ring ",
                                            first_pair[idx][0], " det ", first_pair[idx][1], " - ring ", first_pair[idx][2], " det ", first_pair[idx][3],
                                            "; get_all_det_pos_pairs_for_bin lists ", dps.size(), " pairs:", lst));
                  }
              }
      }
  smax("max rel err multiply_crystal_factors", worst);
  stats().count("crystal: bins compared", nbins);
  return Result::pass();
}

} // namespace c20

// C09 — priors: value, gradient and Hessian are mutually consistent and convex.
//
// Oracle: the reference in c09_ref.h (double, from the class documentation).  In every case the reference's own
// gradient / Hessian are first validated against central differences of its own value / gradient in long double
// ("anchor"), then STIR's value, gradient, Hessian rows, Hessian-times-input and surrogate curvature are compared
// with it; in addition direct relations on STIR alone (row j == H e_j, symmetry, v'Hv >= 0, linearity in the
// penalisation factor, zero gradient of uniform images, kappa=0 padding, singleton dimensions).
//
// Known STIR defects found with this harness are described in work/notes/C09_findings.md; the corresponding input
// classes are excluded by construction (gen) / restricted (check) unless VERIF_NO_EXCLUDE=1.
#include "stir_gen.h"
#include "c09_ref.h"
#include "stir/recon_buildblock/QuadraticPrior.h"
#include "stir/recon_buildblock/RelativeDifferencePrior.h"
#include "stir/recon_buildblock/LogcoshPrior.h"
#include "stir/recon_buildblock/PLSPrior.h"
#include "stir/recon_buildblock/PriorWithParabolicSurrogate.h"
#include "stir/VoxelsOnCartesianGrid.h"
#include "stir/IndexRange3D.h"
#include <sstream>
#include <iomanip>
#include <cfloat>

using namespace vf;
using namespace stir;
using namespace c09;

namespace {

typedef DiscretisedDensity<3, float> Img;
typedef VoxelsOnCartesianGrid<float> Vox;
typedef GeneralisedPrior<Img> Prior;
typedef std::vector<double> Vec;

bool
no_exclude()
{
  static const bool v = std::getenv("VERIF_NO_EXCLUDE") != nullptr && std::string(std::getenv("VERIF_NO_EXCLUDE")) != "0";
  return v;
}

// ---- tolerances (relative to the magnitude = sum of absolute values of the terms of the compared quantity) -------------
// calibrated over VERIF_SEED=1..10 quick runs, see the maxima in evidence/C09.json; observed maxima in the comments
const double TOL = 1e-5;        // STIR vs reference, all pairwise clauses (observed max ~6e-7)
const double TOL_PLS = 1e-4;    // PLS is evaluated in float with a cancellation |g|^2 - <g,xi>^2 (observed max ~4e-6)
const double TOL_ANCHOR = 1e-6; // reference derivative vs long double central difference (observed max ~2e-9)
const double TOL_REL = 2e-6;    // relations on STIR alone that only re-order float operations (observed max ~2e-7)

// ---- case -------------------------------------------------------------------------------------------------------------
struct Cfg
{
  int kind = 0;
  Grid g;
  float beta = 1;
  int wmode = 0; // 0 default 3D, 1 default only_2D, 2 user weights
  int hz = 1, hy = 1, hx = 1;
  uint64_t wseed = 0;
  int wzero = 0;      // eighths of zero weights
  double wcentre = 0; // centre weight of user weights
  int construct = 0;  // 0 explicit constructor/setters, 1 via parsing
  int kmode = 0;      // 0 none, 1 random positive, 2 random with zeros, 3 constant
  uint64_t kseed = 0;
  double kconst = 1;
  int imode = 0; // 0 random, 1 uniform, 2 coarse grid with zeros and ties, 3 nearly uniform
  uint64_t iseed = 0;
  double iscale = 1;
  float gamma = 2, eps = 0.1f, scalar = 1;
  double eta = 1, alpha = 1;
  int amode = 0; // anatomical: 0 random, 1 uniform, 2 proportional to the emission image
  uint64_t aseed = 0;
  double ascale = 1;
  uint64_t dseed = 0;
  int pad[6] = { 1, 1, 1, 1, 1, 1 }; // zlo zhi ylo yhi xlo xhi
  bool only_2D() const { return wmode == 1; }
};

Cfg
decode(const json& c)
{
  Cfg k;
  k.kind = c.at("prior").get<int>();
  k.g.nz = c.at("nz");
  k.g.ny = c.at("ny");
  k.g.nx = c.at("nx");
  k.g.oz = c.at("oz");
  k.g.oy = c.at("oy");
  k.g.ox = c.at("ox");
  k.g.vz = c.at("vz").get<float>();
  k.g.vy = c.at("vy").get<float>();
  k.g.vx = c.at("vx").get<float>();
  k.g.org_z = c.value("org_z", 0.f);
  k.g.org_y = c.value("org_y", 0.f);
  k.g.org_x = c.value("org_x", 0.f);
  k.beta = c.at("beta").get<float>();
  k.wmode = c.at("wmode");
  k.hz = c.value("hz", 1);
  k.hy = c.value("hy", 1);
  k.hx = c.value("hx", 1);
  k.wseed = c.value("wseed", uint64_t(0));
  k.wzero = c.value("wzero", 0);
  k.wcentre = c.value("wcentre", 0.);
  k.construct = c.value("construct", 0);
  k.kmode = c.at("kmode");
  k.kseed = c.value("kseed", uint64_t(0));
  k.kconst = c.value("kconst", 1.);
  k.imode = c.at("imode");
  k.iseed = c.value("iseed", uint64_t(0));
  k.iscale = c.value("iscale", 1.);
  k.gamma = c.value("gamma", 2.f);
  k.eps = c.value("eps", 0.1f);
  k.scalar = c.value("scalar", 1.f);
  k.eta = c.value("eta", 1.);
  k.alpha = c.value("alpha", 1.);
  k.amode = c.value("amode", 0);
  k.aseed = c.value("aseed", uint64_t(0));
  k.ascale = c.value("ascale", 1.);
  k.dseed = c.value("dseed", uint64_t(0));
  if (c.contains("pad"))
    for (int i = 0; i < 6; ++i)
      k.pad[i] = c["pad"][std::size_t(i)].get<int>();
  return k;
}

// ---- bulk data (pure functions of the seeds in the case) --------------------------------------------------------------
Vec
make_image(const Cfg& k)
{
  SplitMix r(k.iseed);
  Vec x(std::size_t(k.g.N()));
  const double u0 = r.real(0.2, 1.);
  for (auto& v : x)
    {
      double t;
      switch (k.imode)
        {
        case 1:
          t = u0;
          break;
        case 2:
          t = double(r.range(0, 4)) / 4.;
          break;
        case 3:
          t = u0 * (1. + 0.02 * r.unit());
          break;
        default:
          t = r.real(0.05, 1.);
        }
      v = double(float(t * k.iscale)); // the image is a float image: the reference sees exactly the float values
    }
  return x;
}

Vec
make_kappa(const Cfg& k, const Grid& g)
{
  Vec v;
  if (k.kmode == 0)
    return v;
  SplitMix r(k.kseed);
  v.resize(std::size_t(g.N()));
  for (auto& e : v)
    {
      double t = r.real(0.2, 3.);
      const bool zero = r.range(0, 3) == 0;
      if (k.kmode == 2 && zero)
        t = 0.;
      if (k.kmode == 3)
        t = k.kconst;
      e = double(float(t));
    }
  return v;
}

Vec
make_anatomical(const Cfg& k, const Vec& image)
{
  SplitMix r(k.aseed);
  Vec v(image.size());
  for (std::size_t i = 0; i < v.size(); ++i)
    {
      double t;
      switch (k.amode)
        {
        case 1:
          t = k.ascale;
          break;
        case 2:
          t = image[i] / k.iscale * k.ascale;
          break;
        default:
          t = r.real(0., 1.) * k.ascale;
        }
      v[i] = double(float(t));
    }
  return v;
}

Vec
make_direction(uint64_t seed, std::size_t n, double scale)
{
  SplitMix r(seed);
  Vec v(n);
  for (auto& e : v)
    e = double(float(r.real(-1., 1.) * scale));
  return v;
}

//! user weights: symmetric w(dr) = w(-dr) (DESIGN section 10 item 3), non-negative, some zeros
Weights
make_user_weights(const Cfg& k)
{
  Weights w;
  w.hz = k.hz;
  w.hy = k.hy;
  w.hx = k.hx;
  w.w.assign(std::size_t(w.size()), 0.);
  SplitMix r(k.wseed);
  for (int dz = -w.hz; dz <= w.hz; ++dz)
    for (int dy = -w.hy; dy <= w.hy; ++dy)
      for (int dx = -w.hx; dx <= w.hx; ++dx)
        {
          if (std::make_tuple(dz, dy, dx) <= std::make_tuple(0, 0, 0))
            continue;
          double t = r.real(0.05, 2.);
          if (int(r.range(0, 7)) < k.wzero)
            t = 0.;
          t = double(float(t));
          w.ref(dz, dy, dx) = t;
          w.ref(-dz, -dy, -dx) = t;
        }
  w.ref(0, 0, 0) = double(float(k.wcentre));
  return w;
}

Weights
weights_of(const Cfg& k, const Grid& g)
{
  return k.wmode == 2 ? make_user_weights(k) : default_weights(g, k.only_2D());
}

// ---- STIR objects -----------------------------------------------------------------------------------------------------
shared_ptr<Vox>
make_vox(const Grid& g)
{
  return shared_ptr<Vox>(new Vox(IndexRange3D(g.oz, g.oz + g.nz - 1, g.oy, g.oy + g.ny - 1, g.ox, g.ox + g.nx - 1),
                                 CartesianCoordinate3D<float>(g.org_z, g.org_y, g.org_x),
                                 CartesianCoordinate3D<float>(g.vz, g.vy, g.vx)));
}

shared_ptr<Vox>
to_vox(const Grid& g, const Vec& v)
{
  shared_ptr<Vox> im = make_vox(g);
  for (int z = 0; z < g.nz; ++z)
    for (int y = 0; y < g.ny; ++y)
      for (int x = 0; x < g.nx; ++x)
        (*im)[g.oz + z][g.oy + y][g.ox + x] = float(v[std::size_t(g.idx(z, y, x))]);
  return im;
}

shared_ptr<Vox>
filled_vox(const Grid& g, float value)
{
  shared_ptr<Vox> im = make_vox(g);
  im->fill(value);
  return im;
}

Vec
from_vox(const Grid& g, const Img& im)
{
  Vec v(std::size_t(g.N()));
  for (int z = 0; z < g.nz; ++z)
    for (int y = 0; y < g.ny; ++y)
      for (int x = 0; x < g.nx; ++x)
        v[std::size_t(g.idx(z, y, x))] = double(im[g.oz + z][g.oy + y][g.ox + x]);
  return v;
}

Array<3, float>
to_array(const Weights& w)
{
  Array<3, float> a(IndexRange3D(-w.hz, w.hz, -w.hy, w.hy, -w.hx, w.hx));
  for (int dz = -w.hz; dz <= w.hz; ++dz)
    for (int dy = -w.hy; dy <= w.hy; ++dy)
      for (int dx = -w.hx; dx <= w.hx; ++dx)
        a[dz][dy][dx] = float(w.at(dz, dy, dx));
  return a;
}

std::string
weights_text(const Weights& w)
{
  std::ostringstream s;
  s << std::setprecision(9) << "{";
  for (int dz = -w.hz; dz <= w.hz; ++dz)
    {
      s << (dz > -w.hz ? "," : "") << "{";
      for (int dy = -w.hy; dy <= w.hy; ++dy)
        {
          s << (dy > -w.hy ? "," : "") << "{";
          for (int dx = -w.hx; dx <= w.hx; ++dx)
            s << (dx > -w.hx ? "," : "") << float(w.at(dz, dy, dx));
          s << "}";
        }
      s << "}";
    }
  s << "}";
  return s.str();
}

struct Spec
{ // everything needed to build one prior object
  int kind = 0;
  float beta = 1;
  bool only_2D = false;
  const Weights* user_w = nullptr; // null: default weights (lazily computed by STIR)
  int construct = 0;
  float gamma = 2, eps = 0.1f, scalar = 1;
  double eta = 1, alpha = 1;
  shared_ptr<Vox> kappa; // may be null
  shared_ptr<Vox> anat;  // PLS
};

struct Made
{
  shared_ptr<Prior> p;
  PriorWithParabolicSurrogate<Img>* ps = nullptr;
};

template <class P>
void
parse_into(P& p, const std::string& name, const Spec& s, const std::string& extra)
{
  std::ostringstream t;
  t << std::setprecision(9);
  t << name << " Parameters:=\n";
  t << "only 2D:=" << (s.only_2D ? 1 : 0) << "\n";
  t << "penalisation factor:=" << s.beta << "\n";
  t << extra;
  if (s.user_w)
    t << "weights:=" << weights_text(*s.user_w) << "\n";
  t << "END " << name << " Parameters:=\n";
  std::istringstream is(t.str());
  if (!p.parse(is))
    throw std::runtime_error("parsing of the prior parameters failed");
}

//! throws std::exception if STIR rejects the configuration at construction / set_up
Made
make_prior(const Spec& s, const shared_ptr<Vox>& target)
{
  Made m;
  std::ostringstream extra;
  extra << std::setprecision(9);
  switch (s.kind)
    {
    case QUAD:
      {
        shared_ptr<QuadraticPrior<float>> p;
        if (s.construct == 1)
          {
            p.reset(new QuadraticPrior<float>);
            parse_into(*p, "Quadratic Prior", s, "");
          }
        else
          {
            p.reset(new QuadraticPrior<float>(s.only_2D, s.beta));
            if (s.user_w)
              p->set_weights(to_array(*s.user_w));
          }
        if (s.kappa)
          p->set_kappa_sptr(s.kappa);
        m.p = p;
        m.ps = p.get();
        break;
      }
    case RDP:
      {
        shared_ptr<RelativeDifferencePrior<float>> p;
        if (s.construct == 1)
          {
            p.reset(new RelativeDifferencePrior<float>);
            extra << "gamma value:=" << s.gamma << "\nepsilon value:=" << s.eps << "\n";
            parse_into(*p, "Relative Difference Prior", s, extra.str());
          }
        else
          {
            p.reset(new RelativeDifferencePrior<float>(s.only_2D, s.beta, s.gamma, s.eps));
            if (s.user_w)
              p->set_weights(to_array(*s.user_w));
          }
        if (s.kappa)
          p->set_kappa_sptr(s.kappa);
        m.p = p;
        break;
      }
    case LOGCOSH:
      {
        shared_ptr<LogcoshPrior<float>> p;
        if (s.construct == 1)
          {
            p.reset(new LogcoshPrior<float>);
            extra << "scalar:=" << s.scalar << "\n";
            parse_into(*p, "Logcosh Prior", s, extra.str());
          }
        else
          {
            p.reset(new LogcoshPrior<float>(s.only_2D, s.beta, s.scalar));
            if (s.user_w)
              p->set_weights(to_array(*s.user_w));
          }
        if (s.kappa)
          p->set_kappa_sptr(s.kappa);
        m.p = p;
        m.ps = p.get();
        break;
      }
    default:
      {
        shared_ptr<PLSPrior<float>> p;
        if (s.construct == 1)
          { // default constructor + setters
            p.reset(new PLSPrior<float>);
            p->set_penalisation_factor(s.beta);
            p->set_only_2D(s.only_2D);
          }
        else
          p.reset(new PLSPrior<float>(s.only_2D, s.beta));
        p->set_eta(s.eta);
        p->set_alpha(s.alpha);
        p->set_anatomical_image_sptr(s.anat);
        if (s.kappa)
          p->set_kappa_sptr(s.kappa);
        m.p = p;
      }
    }
  if (m.p->set_up(target) != Succeeded::yes)
    throw std::runtime_error("set_up returned Succeeded::no");
  return m;
}

// ---- comparison helpers -----------------------------------------------------------------------------------------------
double
vmax(const Vec& v)
{
  double m = 0;
  for (double e : v)
    m = std::max(m, std::fabs(e));
  return m;
}

//! per-voxel comparison: |a-b| <= tol * (mag_r + 1e-3 max mag + FLT_MIN-ish); returns "" or a message
std::string
cmp_vec(const std::string& what, const Vec& got, const Vec& want, const Vec& mag, double tol, const Grid& g, const std::vector<char>* mask = nullptr)
{
  const double gm = vmax(mag);
  double worst = 0;
  std::string msg;
  for (std::size_t i = 0; i < got.size(); ++i)
    {
      if (mask && !(*mask)[i])
        continue;
      const double scale = mag[i] + 1e-3 * gm + 1e-30;
      const double e = std::fabs(got[i] - want[i]) / scale;
      if (!(e <= worst)) // also catches NaN
        {
          worst = e;
          if (!(e <= tol))
            {
              const int x = int(i) % g.nx, y = (int(i) / g.nx) % g.ny, z = int(i) / (g.nx * g.ny);
              msg = cat(what, ": voxel (z,y,x)=(", g.oz + z, ",", g.oy + y, ",", g.ox + x, ") STIR ", got[i], " reference ", want[i], " magnitude ", mag[i],
                        " rel.err ", e, " > ", tol);
            }
        }
    }
  stats().maxi("max rel err " + what, worst);
  return msg;
}

std::string
cmp_scalar(const std::string& what, double got, double want, double mag, double tol)
{
  const double e = std::fabs(got - want) / (mag + 1e-30);
  stats().maxi("max rel err " + what, std::isfinite(e) ? e : 1e300);
  if (!(e <= tol))
    return cat(what, ": STIR ", got, " reference ", want, " magnitude ", mag, " rel.err ", e, " > ", tol);
  return "";
}

#define C09_TRY(expr)                                                                                                            \
  do                                                                                                                             \
    {                                                                                                                            \
      const std::string m_ = (expr);                                                                                             \
      if (!m_.empty())                                                                                                           \
        return Result::fail(m_);                                                                                                 \
    }                                                                                                                            \
  while (0)

template <class T, class U>
std::vector<T>
conv(const std::vector<U>& v)
{
  std::vector<T> o(v.size());
  for (std::size_t i = 0; i < v.size(); ++i)
    o[i] = T(v[i]);
  return o;
}

const char*
kind_name(int k)
{
  static const char* n[] = { "Quadratic", "RDP", "Logcosh", "PLS" };
  return n[k & 3];
}

// ---- anchor: the reference's derivatives against long double central differences of the reference itself -------------------
//! characteristic length of the potential (third derivatives ~ 1/l^2 relative)
double
char_length(const Cfg& k, const Vec& x)
{
  double mn = 1e300, mx = 0;
  for (double e : x)
    {
      mn = std::min(mn, e);
      mx = std::max(mx, e);
    }
  switch (k.kind)
    {
    case RDP:
      return double(k.eps) + 2 * std::max(0., mn);
    case LOGCOSH:
      return 1. / double(k.scalar);
    case PLS:
      return k.alpha;
    default:
      return std::max(mx, 1e-3);
    }
}

template <class RefD>
std::string
anchor_gradient(const RefD& ref, const Vec& x, const Vec& grad, const Vec& gmag, const Vec& dir, double len)
{
  typedef long double L;
  auto rl = ref.template as<L>();
  const L h = L(1e-6) * L(len);
  std::vector<L> xp = conv<L>(x), xm = conv<L>(x);
  for (std::size_t i = 0; i < x.size(); ++i)
    {
      xp[i] += h * L(dir[i]);
      xm[i] -= h * L(dir[i]);
    }
  const L fd = (rl.value(xp) - rl.value(xm)) / (2 * h);
  double an = 0, scale = 0;
  for (std::size_t i = 0; i < x.size(); ++i)
    {
      an += grad[i] * dir[i];
      scale += gmag[i] * std::fabs(dir[i]);
    }
  if (scale == 0.)
    scale = 1e-30;
  const double e = std::fabs(double(fd) - an) / scale;
  stats().maxi("anchor: reference gradient vs long double central difference of reference value", e);
  if (!(e <= TOL_ANCHOR))
    return cat("HARNESS anchor: reference gradient.direction ", an, " != central difference of the reference value ", double(fd), " (scale ", scale, ")");
  return "";
}

template <class RefD>
std::string
anchor_hessian(const RefD& ref, const Vec& x, const Vec& hv, const Vec& hmag, const Vec& v, double len, const Grid& g)
{
  typedef long double L;
  auto rl = ref.template as<L>();
  const double vm = std::max(vmax(v), 1e-30);
  const L h = L(1e-8) * L(len) / L(vm);
  std::vector<L> xp = conv<L>(x), xm = conv<L>(x), gp, gm;
  for (std::size_t i = 0; i < x.size(); ++i)
    {
      xp[i] += h * L(v[i]);
      xm[i] -= h * L(v[i]);
    }
  rl.gradient(xp, gp);
  rl.gradient(xm, gm);
  const double hm = std::max(vmax(hmag), 1e-30);
  double worst = 0;
  for (std::size_t i = 0; i < x.size(); ++i)
    {
      const double fd = double((gp[i] - gm[i]) / (2 * h));
      worst = std::max(worst, std::fabs(fd - hv[i]) / (hmag[i] + 1e-3 * hm));
    }
  (void)g;
  stats().maxi("anchor: reference Hessian.v vs long double central difference of reference gradient", worst);
  if (!(worst <= TOL_ANCHOR))
    return cat("HARNESS anchor: reference Hessian-times-vector differs from the central difference of the reference gradient, rel ", worst);
  return "";
}

// ---- access to STIR's weights (after first use they hold the lazily computed defaults) ---------------------------------
bool
stir_weights(const Made& m, int kind, Array<3, float>& w)
{
  if (kind == QUAD)
    w = dynamic_cast<QuadraticPrior<float>&>(*m.p).get_weights();
  else if (kind == RDP)
    w = dynamic_cast<RelativeDifferencePrior<float>&>(*m.p).get_weights();
  else if (kind == LOGCOSH)
    w = dynamic_cast<LogcoshPrior<float>&>(*m.p).get_weights();
  else
    return false;
  return true;
}

Vec
stir_gradient(Prior& p, const Grid& g, const Vox& x)
{
  shared_ptr<Vox> out = filled_vox(g, 7.25f); // "The derived class should overwrite any data in prior_gradient"
  p.compute_gradient(*out, x);
  return from_vox(g, *out);
}

Vec
stir_row(const Prior& p, const Grid& g, const Vox& x, int z, int y, int xx)
{
  shared_ptr<Vox> out = filled_vox(g, -3.5f);
  p.compute_Hessian(*out, make_coordinate(g.oz + z, g.oy + y, g.ox + xx), x);
  return from_vox(g, *out);
}

//! output = prefill; accumulate_Hessian_times_input; returns output - prefill
Vec
stir_hess_times(const Prior& p, const Grid& g, const Vox& x, const Vec& v, const Vec& prefill)
{
  shared_ptr<Vox> out = to_vox(g, prefill);
  shared_ptr<Vox> in = to_vox(g, v);
  p.accumulate_Hessian_times_input(*out, x, *in);
  Vec r = from_vox(g, *out);
  for (std::size_t i = 0; i < r.size(); ++i)
    r[i] -= double(float(prefill[i]));
  return r;
}

std::vector<int>
sample_voxels(const Grid& g, uint64_t seed, int max_n)
{
  std::vector<int> v;
  const int N = g.N();
  if (N <= max_n)
    {
      for (int i = 0; i < N; ++i)
        v.push_back(i);
      return v;
    }
  for (int z : { 0, g.nz - 1 })
    for (int y : { 0, g.ny - 1 })
      for (int x : { 0, g.nx - 1 })
        v.push_back(g.idx(z, y, x));
  v.push_back(g.idx(g.nz / 2, g.ny / 2, g.nx / 2));
  SplitMix r(seed);
  while (int(v.size()) < max_n)
    v.push_back(int(r.range(0, N - 1)));
  std::sort(v.begin(), v.end());
  v.erase(std::unique(v.begin(), v.end()), v.end());
  return v;
}

Spec
spec_of(const Cfg& k, const Weights* user_w, const shared_ptr<Vox>& kappa, const shared_ptr<Vox>& anat)
{
  Spec s;
  s.kind = k.kind;
  s.beta = k.beta;
  s.only_2D = k.only_2D();
  s.user_w = user_w;
  s.construct = k.construct;
  s.gamma = k.gamma;
  s.eps = k.eps;
  s.scalar = k.scalar;
  s.eta = k.eta;
  s.alpha = k.alpha;
  s.kappa = kappa;
  s.anat = anat;
  return s;
}

//! padded configuration: border of thickness pad[] with kappa = 0 and arbitrary (positive) image values
struct Padded
{
  Grid g;
  Vec x, kap;
  std::vector<char> interior;
  std::vector<int> map; // small index -> padded index
};

Padded
make_padded(const Cfg& k, const Vec& x, const Vec& kap, const int pad[6])
{
  Padded p;
  p.g = k.g;
  p.g.nz += pad[0] + pad[1];
  p.g.ny += pad[2] + pad[3];
  p.g.nx += pad[4] + pad[5];
  p.g.oz -= pad[0];
  p.g.oy -= pad[2];
  p.g.ox -= pad[4];
  SplitMix r(k.dseed + 17);
  p.x.resize(std::size_t(p.g.N()));
  for (auto& e : p.x)
    e = double(float(r.real(0.05, 1.) * k.iscale));
  p.kap.assign(std::size_t(p.g.N()), 0.);
  p.interior.assign(std::size_t(p.g.N()), 0);
  p.map.resize(std::size_t(k.g.N()));
  for (int z = 0; z < k.g.nz; ++z)
    for (int y = 0; y < k.g.ny; ++y)
      for (int xx = 0; xx < k.g.nx; ++xx)
        {
          const int a = k.g.idx(z, y, xx), b = p.g.idx(z + pad[0], y + pad[2], xx + pad[4]);
          p.x[std::size_t(b)] = x[std::size_t(a)];
          p.kap[std::size_t(b)] = kap.empty() ? 1. : kap[std::size_t(a)];
          p.interior[std::size_t(b)] = 1;
          p.map[std::size_t(a)] = b;
        }
  return p;
}

Vec
restrict_to(const Padded& p, const Vec& big)
{
  Vec v(p.map.size());
  for (std::size_t a = 0; a < p.map.size(); ++a)
    v[a] = big[std::size_t(p.map[a])];
  return v;
}

std::string
border_is_zero(const std::string& what, const Padded& p, const Vec& big)
{
  for (std::size_t i = 0; i < big.size(); ++i)
    if (!p.interior[i] && big[i] != 0.)
      return cat(what, ": voxel ", i, " of the kappa=0 border has the non-zero value ", big[i]);
  return "";
}

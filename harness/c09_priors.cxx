// C09 — priors: value, gradient and Hessian are mutually consistent and convex.
//
// Oracle: the reference in c09_ref.h (double, from the class documentation).  In every case the reference's own
// gradient / Hessian are first validated against central differences of its own value / gradient in long double
// ("anchor"), then STIR's value, gradient, Hessian rows, Hessian-times-input and surrogate curvature are compared
// with it; in addition direct relations on STIR alone (row j == H e_j, symmetry, v'Hv >= 0, linearity in the
// penalisation factor, zero gradient of uniform images, kappa=0 padding, singleton dimensions).
//
// The STIR defects found with this harness (F1 centre weight in the Hessian, F2 only_2D ignored by the explicit
// constructors, F3/F4 PLS gradient at border voxels / with a non-uniform kappa) are repaired; their input classes are part
// of the normal search and the minimal cases are regression inputs under replays/C09/fixed_*.json.
//
// Two of five generated cases are OBJECT HISTORIES on one prior object (order of first use of the six calls, second set_up for
// another geometry, setters / parsing between uses; see the section OBJECT HISTORIES below).  One known finding of that search
// (F6: computed default weights are never recomputed) is kept out by construction, see there.
#include "stir_gen.h"
#include "c09_ref.h"
#include "stir/recon_buildblock/QuadraticPrior.h"
#include "stir/recon_buildblock/RelativeDifferencePrior.h"
#include "stir/recon_buildblock/LogcoshPrior.h"
#include "stir/recon_buildblock/PLSPrior.h"
#include "stir/recon_buildblock/PriorWithParabolicSurrogate.h"
#include "stir/VoxelsOnCartesianGrid.h"
#include "stir/IndexRange3D.h"
#include <sstream>
#include <iomanip>
#include <cfloat>

using namespace vf;
using namespace stir;
using namespace c09;

namespace {

typedef DiscretisedDensity<3, float> Img;
typedef VoxelsOnCartesianGrid<float> Vox;
typedef GeneralisedPrior<Img> Prior;
typedef std::vector<double> Vec;

// ---- tolerances (relative to the magnitude = sum of absolute values of the terms of the compared quantity) -------------
// calibrated over 8 seeds x 8000 cases plus the quick runs VERIF_SEED=1..5 (maxima in evidence/C09.json); observed maxima in the comments
const double TOL = 1e-5;        // STIR vs reference, all pairwise clauses (observed max 8e-7)
const double TOL_HV = 2e-5;     // Hessian-times-input: STIR sums up to 125 products in float (observed max ~1.1e-6)
const double TOL_PLS = 1e-4;    // PLS is evaluated in float with a cancellation |g|^2 - <g,xi>^2 (observed max 8.9e-6, all voxels, any kappa)
const double TOL_ANCHOR = 1e-6; // reference derivative vs long double central difference (observed max: gradient 7e-9, Hessian 3e-8)
const double TOL_REL = 2e-6;    // relations on STIR alone that only re-order float operations (observed max 1.1e-7)

// ---- case -------------------------------------------------------------------------------------------------------------
struct Cfg
{
  int kind = 0;
  Grid g;
  float beta = 1;
  int wmode = 0; // 0 default 3D, 1 default only_2D, 2 user weights
  int hz = 1, hy = 1, hx = 1;
  uint64_t wseed = 0;
  int wzero = 0;      // eighths of zero weights
  double wcentre = 0; // centre weight of user weights
  int construct = 0;  // 0 explicit constructor/setters, 1 via parsing
  int kmode = 0;      // 0 none, 1 random positive, 2 random with zeros, 3 constant
  uint64_t kseed = 0;
  double kconst = 1;
  int imode = 0; // 0 random, 1 uniform, 2 coarse grid with zeros and ties, 3 nearly uniform
  uint64_t iseed = 0;
  double iscale = 1;
  float gamma = 2, eps = 0.1f, scalar = 1;
  double eta = 1, alpha = 1;
  int amode = 0; // anatomical: 0 random, 1 uniform, 2 proportional to the emission image
  uint64_t aseed = 0;
  double ascale = 1;
  uint64_t dseed = 0;
  int pad[6] = { 1, 1, 1, 1, 1, 1 }; // zlo zhi ylo yhi xlo xhi
  bool only_2D() const { return wmode == 1; }
};

Cfg
decode(const json& c)
{
  Cfg k;
  k.kind = c.at("prior").get<int>();
  k.g.nz = c.at("nz");
  k.g.ny = c.at("ny");
  k.g.nx = c.at("nx");
  k.g.oz = c.at("oz");
  k.g.oy = c.at("oy");
  k.g.ox = c.at("ox");
  k.g.vz = c.at("vz").get<float>();
  k.g.vy = c.at("vy").get<float>();
  k.g.vx = c.at("vx").get<float>();
  k.g.org_z = c.value("org_z", 0.f);
  k.g.org_y = c.value("org_y", 0.f);
  k.g.org_x = c.value("org_x", 0.f);
  k.beta = c.at("beta").get<float>();
  k.wmode = c.at("wmode");
  k.hz = c.value("hz", 1);
  k.hy = c.value("hy", 1);
  k.hx = c.value("hx", 1);
  k.wseed = c.value("wseed", uint64_t(0));
  k.wzero = c.value("wzero", 0);
  k.wcentre = c.value("wcentre", 0.);
  k.construct = c.value("construct", 0);
  k.kmode = c.at("kmode");
  k.kseed = c.value("kseed", uint64_t(0));
  k.kconst = c.value("kconst", 1.);
  k.imode = c.at("imode");
  k.iseed = c.value("iseed", uint64_t(0));
  k.iscale = c.value("iscale", 1.);
  k.gamma = c.value("gamma", 2.f);
  k.eps = c.value("eps", 0.1f);
  k.scalar = c.value("scalar", 1.f);
  k.eta = c.value("eta", 1.);
  k.alpha = c.value("alpha", 1.);
  k.amode = c.value("amode", 0);
  k.aseed = c.value("aseed", uint64_t(0));
  k.ascale = c.value("ascale", 1.);
  k.dseed = c.value("dseed", uint64_t(0));
  if (c.contains("pad"))
    for (int i = 0; i < 6; ++i)
      k.pad[i] = c["pad"][std::size_t(i)].get<int>();
  return k;
}

// ---- bulk data (pure functions of the seeds in the case) --------------------------------------------------------------
Vec
make_image(const Cfg& k)
{
  SplitMix r(k.iseed);
  Vec x(std::size_t(k.g.N()));
  const double u0 = r.real(0.2, 1.);
  // AUD_E degenerate images (imode 4..6): zero everywhere / exactly one non-zero voxel / values over three decades with exact zeros
  // (all legal: the priors are defined for non-negative images; RDP has epsilon > 0 so that psi(0,0) = 0/epsilon)
  const std::size_t hot = x.empty() ? 0 : std::size_t(SplitMix(k.iseed ^ 0x51ULL).range(0, long(x.size()) - 1));
  std::size_t idx = 0;
  for (auto& v : x)
    {
      double t;
      const std::size_t i = idx++;
      switch (k.imode)
        {
        case 4:
          t = 0.;
          break;
        case 5:
          t = i == hot ? u0 : 0.;
          break;
        case 6:
          t = std::pow(10., r.real(-3., 0.));
          if (r.range(0, 7) == 0)
            t = 0.;
          break;
        case 1:
          t = u0;
          break;
        case 2:
          t = double(r.range(0, 4)) / 4.;
          break;
        case 3:
          t = u0 * (1. + 0.02 * r.unit());
          break;
        default:
          t = r.real(0.05, 1.);
        }
      v = double(float(t * k.iscale)); // the image is a float image: the reference sees exactly the float values
    }
  return x;
}

Vec
make_kappa(const Cfg& k, const Grid& g)
{
  Vec v;
  if (k.kmode == 0)
    return v;
  SplitMix r(k.kseed);
  v.resize(std::size_t(g.N()));
  for (auto& e : v)
    {
      double t = r.real(0.2, 3.);
      const bool zero = r.range(0, 3) == 0;
      if (k.kmode == 2 && zero)
        t = 0.;
      if (k.kmode == 3)
        t = k.kconst;
      if (k.kmode == 4)
        t = 0.; // AUD_E: kappa zero everywhere (legal, no lower bound documented): value, gradient, Hessian vanish
      e = double(float(t));
    }
  return v;
}

Vec
make_anatomical(const Cfg& k, const Vec& image)
{
  SplitMix r(k.aseed);
  Vec v(image.size());
  for (std::size_t i = 0; i < v.size(); ++i)
    {
      double t;
      switch (k.amode)
        {
        case 1:
          t = k.ascale;
          break;
        case 2:
          t = image[i] / k.iscale * k.ascale;
          break;
        default:
          t = r.real(0., 1.) * k.ascale;
        }
      v[i] = double(float(t));
    }
  return v;
}

Vec
make_direction(uint64_t seed, std::size_t n, double scale)
{
  SplitMix r(seed);
  Vec v(n);
  for (auto& e : v)
    e = double(float(r.real(-1., 1.) * scale));
  return v;
}

//! user weights: symmetric w(dr) = w(-dr) (DESIGN section 10 item 3), non-negative, some zeros
Weights
make_user_weights(const Cfg& k)
{
  Weights w;
  w.hz = k.hz;
  w.hy = k.hy;
  w.hx = k.hx;
  w.w.assign(std::size_t(w.size()), 0.);
  SplitMix r(k.wseed);
  for (int dz = -w.hz; dz <= w.hz; ++dz)
    for (int dy = -w.hy; dy <= w.hy; ++dy)
      for (int dx = -w.hx; dx <= w.hx; ++dx)
        {
          if (std::make_tuple(dz, dy, dx) <= std::make_tuple(0, 0, 0))
            continue;
          double t = r.real(0.05, 2.);
          if (int(r.range(0, 7)) < k.wzero)
            t = 0.;
          t = double(float(t));
          w.ref(dz, dy, dx) = t;
          w.ref(-dz, -dy, -dx) = t;
        }
  w.ref(0, 0, 0) = double(float(k.wcentre));
  return w;
}

Weights
weights_of(const Cfg& k, const Grid& g)
{
  return k.wmode == 2 ? make_user_weights(k) : default_weights(g, k.only_2D());
}

// ---- STIR objects -----------------------------------------------------------------------------------------------------
shared_ptr<Vox>
make_vox(const Grid& g)
{
  return shared_ptr<Vox>(new Vox(IndexRange3D(g.oz, g.oz + g.nz - 1, g.oy, g.oy + g.ny - 1, g.ox, g.ox + g.nx - 1),
                                 CartesianCoordinate3D<float>(g.org_z, g.org_y, g.org_x),
                                 CartesianCoordinate3D<float>(g.vz, g.vy, g.vx)));
}

shared_ptr<Vox>
to_vox(const Grid& g, const Vec& v)
{
  shared_ptr<Vox> im = make_vox(g);
  for (int z = 0; z < g.nz; ++z)
    for (int y = 0; y < g.ny; ++y)
      for (int x = 0; x < g.nx; ++x)
        (*im)[g.oz + z][g.oy + y][g.ox + x] = float(v[std::size_t(g.idx(z, y, x))]);
  return im;
}

shared_ptr<Vox>
filled_vox(const Grid& g, float value)
{
  shared_ptr<Vox> im = make_vox(g);
  im->fill(value);
  return im;
}

Vec
from_vox(const Grid& g, const Img& im)
{
  Vec v(std::size_t(g.N()));
  for (int z = 0; z < g.nz; ++z)
    for (int y = 0; y < g.ny; ++y)
      for (int x = 0; x < g.nx; ++x)
        v[std::size_t(g.idx(z, y, x))] = double(im[g.oz + z][g.oy + y][g.ox + x]);
  return v;
}

Array<3, float>
to_array(const Weights& w)
{
  Array<3, float> a(IndexRange3D(-w.hz, w.hz, -w.hy, w.hy, -w.hx, w.hx));
  for (int dz = -w.hz; dz <= w.hz; ++dz)
    for (int dy = -w.hy; dy <= w.hy; ++dy)
      for (int dx = -w.hx; dx <= w.hx; ++dx)
        a[dz][dy][dx] = float(w.at(dz, dy, dx));
  return a;
}

std::string
weights_text(const Weights& w)
{
  std::ostringstream s;
  s << std::setprecision(9) << "{";
  for (int dz = -w.hz; dz <= w.hz; ++dz)
    {
      s << (dz > -w.hz ? "," : "") << "{";
      for (int dy = -w.hy; dy <= w.hy; ++dy)
        {
          s << (dy > -w.hy ? "," : "") << "{";
          for (int dx = -w.hx; dx <= w.hx; ++dx)
            s << (dx > -w.hx ? "," : "") << float(w.at(dz, dy, dx));
          s << "}";
        }
      s << "}";
    }
  s << "}";
  return s.str();
}

struct Spec
{ // everything needed to build one prior object
  int kind = 0;
  float beta = 1;
  bool only_2D = false;
  const Weights* user_w = nullptr; // null: default weights (lazily computed by STIR)
  int construct = 0;
  float gamma = 2, eps = 0.1f, scalar = 1;
  double eta = 1, alpha = 1;
  shared_ptr<Vox> kappa; // may be null
  shared_ptr<Vox> anat;  // PLS
};

struct Made
{
  shared_ptr<Prior> p;
  PriorWithParabolicSurrogate<Img>* ps = nullptr;
};

template <class P>
void
parse_into(P& p, const std::string& name, const Spec& s, const std::string& extra)
{
  std::ostringstream t;
  t << std::setprecision(9);
  t << name << " Parameters:=\n";
  t << "only 2D:=" << (s.only_2D ? 1 : 0) << "\n";
  t << "penalisation factor:=" << s.beta << "\n";
  t << extra;
  if (s.user_w)
    t << "weights:=" << weights_text(*s.user_w) << "\n";
  t << "END " << name << " Parameters:=\n";
  std::istringstream is(t.str());
  if (!p.parse(is))
    throw std::runtime_error("parsing of the prior parameters failed");
}

//! throws std::exception if STIR rejects the configuration at construction / set_up
Made
make_prior(const Spec& s, const shared_ptr<Vox>& target)
{
  Made m;
  std::ostringstream extra;
  extra << std::setprecision(9);
  switch (s.kind)
    {
    case QUAD:
      {
        shared_ptr<QuadraticPrior<float>> p;
        if (s.construct == 1)
          {
            p.reset(new QuadraticPrior<float>);
            parse_into(*p, "Quadratic Prior", s, "");
          }
        else
          {
            p.reset(new QuadraticPrior<float>(s.only_2D, s.beta));
            if (s.user_w)
              p->set_weights(to_array(*s.user_w));
          }
        if (s.kappa)
          p->set_kappa_sptr(s.kappa);
        m.p = p;
        m.ps = p.get();
        break;
      }
    case RDP:
      {
        shared_ptr<RelativeDifferencePrior<float>> p;
        if (s.construct == 1)
          {
            p.reset(new RelativeDifferencePrior<float>);
            extra << "gamma value:=" << s.gamma << "\nepsilon value:=" << s.eps << "\n";
            parse_into(*p, "Relative Difference Prior", s, extra.str());
          }
        else
          {
            p.reset(new RelativeDifferencePrior<float>(s.only_2D, s.beta, s.gamma, s.eps));
            if (s.user_w)
              p->set_weights(to_array(*s.user_w));
          }
        if (s.kappa)
          p->set_kappa_sptr(s.kappa);
        m.p = p;
        break;
      }
    case LOGCOSH:
      {
        shared_ptr<LogcoshPrior<float>> p;
        if (s.construct == 1)
          {
            p.reset(new LogcoshPrior<float>);
            extra << "scalar:=" << s.scalar << "\n";
            parse_into(*p, "Logcosh Prior", s, extra.str());
          }
        else
          {
            p.reset(new LogcoshPrior<float>(s.only_2D, s.beta, s.scalar));
            if (s.user_w)
              p->set_weights(to_array(*s.user_w));
          }
        if (s.kappa)
          p->set_kappa_sptr(s.kappa);
        m.p = p;
        m.ps = p.get();
        break;
      }
    default:
      {
        shared_ptr<PLSPrior<float>> p;
        if (s.construct == 1)
          { // default constructor + setters
            p.reset(new PLSPrior<float>);
            p->set_penalisation_factor(s.beta);
            p->set_only_2D(s.only_2D);
          }
        else
          p.reset(new PLSPrior<float>(s.only_2D, s.beta));
        p->set_eta(s.eta);
        p->set_alpha(s.alpha);
        p->set_anatomical_image_sptr(s.anat);
        if (s.kappa)
          p->set_kappa_sptr(s.kappa);
        m.p = p;
      }
    }
  if (m.p->set_up(target) != Succeeded::yes)
    throw std::runtime_error("set_up returned Succeeded::no");
  return m;
}

// ---- comparison helpers -----------------------------------------------------------------------------------------------
double
vmax(const Vec& v)
{
  double m = 0;
  for (double e : v)
    m = std::max(m, std::fabs(e));
  return m;
}

//! per-voxel comparison: |a-b| <= tol * (mag_r + 1e-3 max mag + FLT_MIN-ish); returns "" or a message
std::string
cmp_vec(const std::string& what, const Vec& got, const Vec& want, const Vec& mag, double tol, const Grid& g, const std::vector<char>* mask = nullptr)
{
  const double gm = vmax(mag);
  double worst = 0;
  std::string msg;
  for (std::size_t i = 0; i < got.size(); ++i)
    {
      if (mask && !(*mask)[i])
        continue;
      const double scale = mag[i] + 1e-3 * gm + 1e-30;
      const double e = std::fabs(got[i] - want[i]) / scale;
      if (!(e <= worst)) // also catches NaN
        {
          worst = e;
          if (!(e <= tol))
            {
              const int x = int(i) % g.nx, y = (int(i) / g.nx) % g.ny, z = int(i) / (g.nx * g.ny);
              msg = cat(what, ": voxel (z,y,x)=(", g.oz + z, ",", g.oy + y, ",", g.ox + x, ") STIR ", got[i], " reference ", want[i], " magnitude ", mag[i],
                        " rel.err ", e, " > ", tol);
            }
        }
    }
  stats().maxi("max rel err " + what, worst);
  return msg;
}

std::string
cmp_scalar(const std::string& what, double got, double want, double mag, double tol)
{
  const double e = std::fabs(got - want) / (mag + 1e-30);
  stats().maxi("max rel err " + what, std::isfinite(e) ? e : 1e300);
  if (!(e <= tol))
    return cat(what, ": STIR ", got, " reference ", want, " magnitude ", mag, " rel.err ", e, " > ", tol);
  return "";
}

#define C09_TRY(expr)                                                                                                            \
  do                                                                                                                             \
    {                                                                                                                            \
      const std::string m_ = (expr);                                                                                             \
      if (!m_.empty())                                                                                                           \
        return Result::fail(m_);                                                                                                 \
    }                                                                                                                            \
  while (0)

template <class T, class U>
std::vector<T>
conv(const std::vector<U>& v)
{
  std::vector<T> o(v.size());
  for (std::size_t i = 0; i < v.size(); ++i)
    o[i] = T(v[i]);
  return o;
}

const char*
kind_name(int k)
{
  static const char* n[] = { "Quadratic", "RDP", "Logcosh", "PLS" };
  return n[k & 3];
}

// ---- anchor: the reference's derivatives against long double central differences of the reference itself -------------------
//! characteristic length of the potential (third derivatives ~ 1/l^2 relative)
double
char_length(const Cfg& k, const Vec& x)
{
  double mn = 1e300, mx = 0;
  for (double e : x)
    {
      mn = std::min(mn, e);
      mx = std::max(mx, e);
    }
  switch (k.kind)
    {
    case RDP:
      return double(k.eps) + 2 * std::max(0., mn);
    case LOGCOSH:
      return 1. / double(k.scalar);
    case PLS:
      return k.alpha;
    default:
      return std::max(mx, 1e-3);
    }
}

template <class RefD>
std::string
anchor_gradient(const RefD& ref, const Vec& x, const Vec& grad, const Vec& gmag, const Vec& dir, double len, double floor_abs)
{
  typedef long double L;
  auto rl = ref.template as<L>();
  const L h = L(1e-6) * L(len);
  std::vector<L> xp = conv<L>(x), xm = conv<L>(x);
  for (std::size_t i = 0; i < x.size(); ++i)
    {
      xp[i] += h * L(dir[i]);
      xm[i] -= h * L(dir[i]);
    }
  const L fd = (rl.value(xp) - rl.value(xm)) / (2 * h);
  double an = 0, scale = 0;
  for (std::size_t i = 0; i < x.size(); ++i)
    {
      an += grad[i] * dir[i];
      scale += gmag[i] * std::fabs(dir[i]);
    }
  // round-off of the difference quotient: ~ LDBL_EPSILON * |value| / h = 1e-13 |value| / len; keep it 3 orders below the tolerance
  L vm = 0;
  rl.value(xp, &vm);
  scale += 1e-4 * double(vm) / len + floor_abs + 1e-30;
  const double e = std::fabs(double(fd) - an) / scale;
  stats().maxi("anchor: reference gradient vs long double central difference of reference value", e);
  if (!(e <= TOL_ANCHOR))
    return cat("HARNESS anchor: reference gradient.direction ", an, " != central difference of the reference value ", double(fd), " (scale ", scale, ")");
  return "";
}

template <class RefD>
std::string
anchor_hessian(const RefD& ref, const Vec& x, const Vec& hv, const Vec& hmag, const Vec& v, double len, const Grid& g)
{
  typedef long double L;
  auto rl = ref.template as<L>();
  const double vm = std::max(vmax(v), 1e-30);
  const L h = L(1e-9) * L(len) / L(vm);
  std::vector<L> xp = conv<L>(x), xm = conv<L>(x), gp, gm;
  for (std::size_t i = 0; i < x.size(); ++i)
    {
      xp[i] += h * L(v[i]);
      xm[i] -= h * L(v[i]);
    }
  rl.gradient(xp, gp);
  rl.gradient(xm, gm);
  const double hm = std::max(vmax(hmag), 1e-30);
  // round-off of the difference quotient: ~ LDBL_EPSILON * |gradient terms| / h = 1e-11 |gradient terms| vm / len
  std::vector<L> gmagL;
  rl.gradient(xp, gp, &gmagL);
  double gscale = 0;
  for (L e : gmagL)
    gscale = std::max(gscale, double(e));
  double worst = 0;
  for (std::size_t i = 0; i < x.size(); ++i)
    {
      const double fd = double((gp[i] - gm[i]) / (2 * h));
      worst = std::max(worst, std::fabs(fd - hv[i]) / (hmag[i] + 1e-3 * hm + 1e-2 * gscale * vm / len));
    }
  (void)g;
  stats().maxi("anchor: reference Hessian.v vs long double central difference of reference gradient", worst);
  if (!(worst <= TOL_ANCHOR))
    return cat("HARNESS anchor: reference Hessian-times-vector differs from the central difference of the reference gradient, rel ", worst);
  return "";
}

// ---- access to STIR's weights (after first use they hold the lazily computed defaults) ---------------------------------
bool
stir_weights(const Made& m, int kind, Array<3, float>& w)
{
  if (kind == QUAD)
    w = dynamic_cast<QuadraticPrior<float>&>(*m.p).get_weights();
  else if (kind == RDP)
    w = dynamic_cast<RelativeDifferencePrior<float>&>(*m.p).get_weights();
  else if (kind == LOGCOSH)
    w = dynamic_cast<LogcoshPrior<float>&>(*m.p).get_weights();
  else
    return false;
  return true;
}

Vec
stir_gradient(Prior& p, const Grid& g, const Vox& x)
{
  shared_ptr<Vox> out = filled_vox(g, 7.25f); // "The derived class should overwrite any data in prior_gradient"
  p.compute_gradient(*out, x);
  return from_vox(g, *out);
}

Vec
stir_row(const Prior& p, const Grid& g, const Vox& x, int z, int y, int xx)
{
  shared_ptr<Vox> out = filled_vox(g, -3.5f);
  p.compute_Hessian(*out, make_coordinate(g.oz + z, g.oy + y, g.ox + xx), x);
  return from_vox(g, *out);
}

//! output = prefill; accumulate_Hessian_times_input; returns output - prefill
Vec
stir_hess_times(const Prior& p, const Grid& g, const Vox& x, const Vec& v, const Vec& prefill)
{
  shared_ptr<Vox> out = to_vox(g, prefill);
  shared_ptr<Vox> in = to_vox(g, v);
  p.accumulate_Hessian_times_input(*out, x, *in);
  Vec r = from_vox(g, *out);
  for (std::size_t i = 0; i < r.size(); ++i)
    r[i] -= double(float(prefill[i]));
  return r;
}

std::vector<int>
sample_voxels(const Grid& g, uint64_t seed, int max_n)
{
  std::vector<int> v;
  const int N = g.N();
  if (N <= max_n)
    {
      for (int i = 0; i < N; ++i)
        v.push_back(i);
      return v;
    }
  for (int z : { 0, g.nz - 1 })
    for (int y : { 0, g.ny - 1 })
      for (int x : { 0, g.nx - 1 })
        v.push_back(g.idx(z, y, x));
  v.push_back(g.idx(g.nz / 2, g.ny / 2, g.nx / 2));
  SplitMix r(seed);
  while (int(v.size()) < max_n)
    v.push_back(int(r.range(0, N - 1)));
  std::sort(v.begin(), v.end());
  v.erase(std::unique(v.begin(), v.end()), v.end());
  return v;
}

Spec
spec_of(const Cfg& k, const Weights* user_w, const shared_ptr<Vox>& kappa, const shared_ptr<Vox>& anat)
{
  Spec s;
  s.kind = k.kind;
  s.beta = k.beta;
  s.only_2D = k.only_2D();
  s.user_w = user_w;
  s.construct = k.construct;
  s.gamma = k.gamma;
  s.eps = k.eps;
  s.scalar = k.scalar;
  s.eta = k.eta;
  s.alpha = k.alpha;
  s.kappa = kappa;
  s.anat = anat;
  return s;
}

//! padded configuration: border of thickness pad[] with kappa = 0 and arbitrary (positive) image values
struct Padded
{
  Grid g;
  Vec x, kap;
  std::vector<char> interior;
  std::vector<int> map; // small index -> padded index
};

Padded
make_padded(const Cfg& k, const Vec& x, const Vec& kap, const int pad[6])
{
  Padded p;
  p.g = k.g;
  p.g.nz += pad[0] + pad[1];
  p.g.ny += pad[2] + pad[3];
  p.g.nx += pad[4] + pad[5];
  p.g.oz -= pad[0];
  p.g.oy -= pad[2];
  p.g.ox -= pad[4];
  SplitMix r(k.dseed + 17);
  p.x.resize(std::size_t(p.g.N()));
  for (auto& e : p.x)
    e = double(float(r.real(0.05, 1.) * k.iscale));
  p.kap.assign(std::size_t(p.g.N()), 0.);
  p.interior.assign(std::size_t(p.g.N()), 0);
  p.map.resize(std::size_t(k.g.N()));
  for (int z = 0; z < k.g.nz; ++z)
    for (int y = 0; y < k.g.ny; ++y)
      for (int xx = 0; xx < k.g.nx; ++xx)
        {
          const int a = k.g.idx(z, y, xx), b = p.g.idx(z + pad[0], y + pad[2], xx + pad[4]);
          p.x[std::size_t(b)] = x[std::size_t(a)];
          p.kap[std::size_t(b)] = kap.empty() ? 1. : kap[std::size_t(a)];
          p.interior[std::size_t(b)] = 1;
          p.map[std::size_t(a)] = b;
        }
  return p;
}

Vec
restrict_to(const Padded& p, const Vec& big)
{
  Vec v(p.map.size());
  for (std::size_t a = 0; a < p.map.size(); ++a)
    v[a] = big[std::size_t(p.map[a])];
  return v;
}

std::string
border_is_zero(const std::string& what, const Padded& p, const Vec& big)
{
  for (std::size_t i = 0; i < big.size(); ++i)
    if (!p.interior[i] && big[i] != 0.)
      return cat(what, ": voxel ", i, " of the kappa=0 border has the non-zero value ", big[i]);
  return "";
}

// =======================================================================================================================
Result
check_pairwise(const Cfg& k)
{
  const Grid& g = k.g;
  const int N = g.N();
  const Vec x = make_image(k);
  const Vec kap = make_kappa(k, g);
  const Weights w = weights_of(k, g);
  const Weights* user_w = k.wmode == 2 ? &w : nullptr;
  const shared_ptr<Vox> xim = to_vox(g, x);
  const shared_ptr<Vox> kim = kap.empty() ? shared_ptr<Vox>() : to_vox(g, kap);
  const Spec spec = spec_of(k, user_w, kim, shared_ptr<Vox>());
  Made m;
  try
    {
      m = make_prior(spec, xim);
    }
  catch (const std::exception& e)
    {
      return Result::reject(std::string("prior construction/set_up rejected: ") + e.what());
    }
  Prior& P = *m.p;
  const std::string kn = kind_name(k.kind);

  PairRef<double> ref;
  ref.g = g;
  ref.w = w;
  ref.kap = kap;
  ref.pot.kind = k.kind;
  ref.pot.gamma = double(k.gamma);
  ref.pot.eps = double(k.eps);
  ref.pot.s = double(k.scalar);
  ref.beta = double(k.beta);

  // ---- reference quantities and the anchor ---------------------------------------------------------------------------
  double vmag = 0, vfloor = 0;
  const double vref = ref.value(x, &vmag, &vfloor);
  Vec gref, gmag, hvref, hvmag;
  ref.gradient(x, gref, &gmag);
  const Vec v = make_direction(k.dseed, std::size_t(N), 1.);
  ref.hess_times(x, v, hvref, &hvmag);
  {
    const double len = char_length(k, x);
    const Vec d = make_direction(k.dseed ^ 0x5bd1e995u, std::size_t(N), 1.);
    // truncation error of the central difference ~ h^2 x third derivative ~ 1e-12 len d'|H|d: floor of the scale = 1e-3 len d'|H|d
    Vec t, tm;
    ref.hess_times(x, d, t, &tm);
    double fl = 0;
    for (int i = 0; i < N; ++i)
      fl += tm[std::size_t(i)] * std::fabs(d[std::size_t(i)]);
    C09_TRY(anchor_gradient(ref, x, gref, gmag, d, len, 1e-3 * len * fl));
    C09_TRY(anchor_hessian(ref, x, hvref, hvmag, v, len, g));
  }

  VF_CHECK(P.is_convex(), kn, " does not declare itself convex");

  // ---- value ------------------------------------------------------------------------------------------------------------
  const double vstir = P.compute_value(*xim);
  C09_TRY(cmp_scalar("value " + kn, vstir, vref, vmag + 3. * vfloor / TOL, TOL));

  // ---- gradient -----------------------------------------------------------------------------------------------------------
  const Vec gstir = stir_gradient(P, g, *xim);
  C09_TRY(cmp_vec("gradient " + kn, gstir, gref, gmag, TOL, g));

  // ---- default weights as documented (x voxel size / Euclidean distance) ----------------------------------------------
  Array<3, float> wstir;
  if (k.beta != 0 && stir_weights(m, k.kind, wstir))
    {
      VF_CHECK(wstir.get_min_index() == -w.hz && wstir.get_max_index() == w.hz && wstir[0].get_min_index() == -w.hy && wstir[0].get_max_index() == w.hy
                   && wstir[0][0].get_min_index() == -w.hx && wstir[0][0].get_max_index() == w.hx,
               kn, ": weights index range is z ", wstir.get_min_index(), "..", wstir.get_max_index(), " but expected half widths ", w.hz, ",", w.hy, ",", w.hx,
               (k.only_2D() ? " (only_2D requested)" : ""));
      for (int dz = -w.hz; dz <= w.hz; ++dz)
        for (int dy = -w.hy; dy <= w.hy; ++dy)
          for (int dx = -w.hx; dx <= w.hx; ++dx)
            VF_CHECK(std::fabs(double(wstir[dz][dy][dx]) - w.at(dz, dy, dx)) <= TOL_REL * (w.at(dz, dy, dx) + 1e-30), kn, ": weight[", dz, "][", dy, "][", dx,
                     "] = ", wstir[dz][dy][dx], " but documented value is ", w.at(dz, dy, dx));
    }

  // ---- all Hessian rows ----------------------------------------------------------------------------------------------------
  std::vector<Vec> Hs(static_cast<std::size_t>(N));
  {
    Vec rref, rmag;
    for (int z = 0; z < g.nz; ++z)
      for (int y = 0; y < g.ny; ++y)
        for (int xx = 0; xx < g.nx; ++xx)
          {
            const int j = g.idx(z, y, xx);
            Hs[std::size_t(j)] = stir_row(P, g, *xim, z, y, xx);
            ref.hess_row(x, z, y, xx, rref, &rmag);
            const std::string msg = cmp_vec("Hessian row " + kn, Hs[std::size_t(j)], rref, rmag, TOL, g);
            if (!msg.empty())
              return Result::fail(cat("row of voxel (", g.oz + z, ",", g.oy + y, ",", g.ox + xx, "): ", msg));
          }
    stats().count("hessian_rows", N);
  }

  // ---- Hessian times input (accumulating) ----------------------------------------------------------------------------------
  Vec hvstir;
  {
    const double hm = vmax(hvref);
    Vec prefill = make_direction(k.dseed + 3, std::size_t(N), 0.5 * hm);
    hvstir = stir_hess_times(P, g, *xim, v, prefill);
    Vec mag(hvmag);
    for (int i = 0; i < N; ++i)
      mag[std::size_t(i)] += 0.05 * (std::fabs(prefill[std::size_t(i)]) + std::fabs(hvref[std::size_t(i)])); // float rounding of output += result
    C09_TRY(cmp_vec("Hessian-times-input " + kn, hvstir, hvref, mag, TOL_HV, g));
    // the same from STIR's own rows
    Vec hsv(static_cast<std::size_t>(N), 0.), hsm(static_cast<std::size_t>(N), 0.);
    for (int i = 0; i < N; ++i)
      for (int j = 0; j < N; ++j)
        {
          const double t = Hs[std::size_t(i)][std::size_t(j)] * v[std::size_t(j)];
          hsv[std::size_t(i)] += t;
          hsm[std::size_t(i)] += std::fabs(t);
        }
    for (int i = 0; i < N; ++i)
      hsm[std::size_t(i)] = std::max(hsm[std::size_t(i)], hvmag[std::size_t(i)]) + 0.05 * (std::fabs(prefill[std::size_t(i)]) + std::fabs(hvref[std::size_t(i)]));
    C09_TRY(cmp_vec("Hessian-times-input vs sum of STIR rows " + kn, hvstir, hsv, hsm, TOL_HV, g));
  }

  // ---- row j == H e_j -------------------------------------------------------------------------------------------------------
  {
    const std::vector<int> js = sample_voxels(g, k.dseed + 5, 40);
    const Vec zero(static_cast<std::size_t>(N), 0.);
    for (int j : js)
      {
        Vec e(static_cast<std::size_t>(N), 0.);
        e[std::size_t(j)] = 1.;
        const Vec he = stir_hess_times(P, g, *xim, e, zero);
        Vec mag(static_cast<std::size_t>(N));
        for (int i = 0; i < N; ++i)
          mag[std::size_t(i)] = std::fabs(Hs[std::size_t(j)][std::size_t(i)]);
        const std::string msg = cmp_vec("row j vs H e_j " + kn, Hs[std::size_t(j)], he, mag, TOL, g);
        if (!msg.empty())
          return Result::fail(cat("compute_Hessian row of voxel #", j, " differs from accumulate_Hessian_times_input(unit image): ", msg, " [first=row, 'reference'=H e_j]"));
      }
    stats().count("unit_image_products", long(js.size()));
  }

  // ---- symmetry and positive semi-definiteness of STIR's Hessian ------------------------------------------------------------
  {
    double hmax = 0;
    for (auto& r : Hs)
      hmax = std::max(hmax, vmax(r));
    double worst = 0;
    for (int i = 0; i < N; ++i)
      for (int j = i + 1; j < N; ++j)
        {
          const double a = Hs[std::size_t(i)][std::size_t(j)], b = Hs[std::size_t(j)][std::size_t(i)];
          if (a == 0. && b == 0.)
            continue;
          const double e = std::fabs(a - b) / (std::max(std::fabs(a), std::fabs(b)) + 1e-3 * hmax + 1e-30);
          worst = std::max(worst, e);
          VF_CHECK(e <= TOL, kn, ": Hessian not symmetric: H[", i, "][", j, "]=", a, " H[", j, "][", i, "]=", b);
        }
    stats().maxi("max rel asymmetry of Hessian " + kn, worst);
    const Vec ones(static_cast<std::size_t>(N), 1.);
    for (const Vec* d : { &v, &x, &ones })
      {
        double q = 0, qa = 0;
        for (int i = 0; i < N; ++i)
          for (int j = 0; j < N; ++j)
            {
              const double t = (*d)[std::size_t(i)] * Hs[std::size_t(i)][std::size_t(j)] * (*d)[std::size_t(j)];
              q += t;
              qa += std::fabs(t);
            }
        // absolute slack: entries below FLT_MIN are denormal floats with an absolute rounding error of 1.4e-45 each
        double dn = 0;
        for (int i = 0; i < N; ++i)
          dn += std::fabs((*d)[std::size_t(i)]);
        stats().maxi("max negative v'Hv / sum|terms| " + kn, qa > 0 ? std::max(0., (-q - double(FLT_MIN) * dn * dn) / qa) : 0.);
        VF_CHECK(q >= -TOL * qa - double(FLT_MIN) * dn * dn, kn, " declares itself convex but v'Hv = ", q, " < 0 (sum of |terms| ", qa, ")");
      }
    // and through accumulate_Hessian_times_input
    double q = 0, qa = 0;
    for (int i = 0; i < N; ++i)
      {
        q += v[std::size_t(i)] * hvstir[std::size_t(i)];
        qa += std::fabs(v[std::size_t(i)]) * hvmag[std::size_t(i)];
      }
    VF_CHECK(q >= -TOL * qa - double(FLT_MIN) * N * N, kn, " declares itself convex but v'(Hv) = ", q, " < 0 via accumulate_Hessian_times_input (magnitude ", qa, ")");
  }

  // ---- parabolic surrogate curvature ------------------------------------------------------------------------------------------
  if (m.ps)
    {
      Vec cref;
      ref.curvature(x, cref);
      shared_ptr<Vox> out = filled_vox(g, 9.5f);
      m.ps->parabolic_surrogate_curvature(*out, *xim);
      C09_TRY(cmp_vec("parabolic surrogate curvature " + kn, from_vox(g, *out), cref, cref, TOL, g));
    }

  // ---- add_multiplication_with_approximate_Hessian ---------------------------------------------------------------------------
  {
    shared_ptr<Vox> out = filled_vox(g, 0.f);
    shared_ptr<Vox> in = to_vox(g, v);
    bool threw = false;
    try
      {
        P.add_multiplication_with_approximate_Hessian(*out, *in);
      }
    catch (const std::runtime_error&)
      {
        threw = true; // RelativeDifferencePrior.cxx:529 "not implemented"; Logcosh: base class error()
      }
    if (threw)
      {
        stats().cls("approximate Hessian: reported as not implemented");
        VF_CHECK(k.kind != QUAD, "QuadraticPrior::add_multiplication_with_approximate_Hessian called error()");
      }
    else if (k.kind == QUAD)
      {
        // The property speaks about the Hessian (compute_Hessian / accumulate_Hessian_times_input, compared above), not about this
        // method: GeneralisedPrior.h:66-75 calls it the *approximate* Hessian, kept for backwards compatibility ("Instead,
        // accumulate_Hessian_times_input() should be used"), and QuadraticPrior.cxx:538 describes what it computes: the operator of
        // parabolic_surrogate_curvature applied to the input, sum_dr w kappa kappa v_{r+dr} (a non-negative operator used for
        // denominators), which is not H v.  No claim on its values (the former comparison with H v was a clause beyond the
        // property text); only counted.  Facts that hold for any reading: accumulates, nothing for penalisation factor 0.
        const Vec got = from_vox(g, *out);
        bool same = true;
        for (int i = 0; i < N; ++i)
          if (std::fabs(got[std::size_t(i)] - hvref[std::size_t(i)]) > TOL * (hvmag[std::size_t(i)] + 1e-3 * vmax(hvmag) + 1e-30))
            same = false;
        stats().count(same ? "approximate Hessian times input Quadratic == H*input" : "approximate Hessian times input Quadratic != H*input (not a claim)");
        if (k.beta == 0)
          VF_CHECK(vmax(got) == 0., "approximate Hessian with penalisation factor 0 changed the output");
      }
  }

  // ---- linear in the penalisation factor -----------------------------------------------------------------------------------------
  {
    Spec s2 = spec;
    s2.beta = k.beta == 0 ? 1.5f : k.beta * 2.5f;
    Made m2 = make_prior(s2, xim);
    const double v2 = m2.p->compute_value(*xim);
    const Vec g2 = stir_gradient(*m2.p, g, *xim);
    const Vec zero(static_cast<std::size_t>(N), 0.);
    const Vec hv2 = stir_hess_times(*m2.p, g, *xim, v, zero);
    const Vec hv1 = stir_hess_times(P, g, *xim, v, zero);
    const Vec r2 = stir_row(*m2.p, g, *xim, g.nz / 2, g.ny / 2, g.nx / 2);
    const Vec& r1 = Hs[std::size_t(g.idx(g.nz / 2, g.ny / 2, g.nx / 2))];
    const double b1 = double(k.beta), b2 = double(s2.beta);
    if (k.beta == 0)
      {
        VF_CHECK(vstir == 0., kn, ": value with penalisation factor 0 is ", vstir);
        VF_CHECK(vmax(gstir) == 0., kn, ": gradient with penalisation factor 0 is not zero (output not overwritten?)");
        VF_CHECK(vmax(hv1) == 0., kn, ": Hessian-times-input with penalisation factor 0 is not zero");
        VF_CHECK(vmax(r1) == 0., kn, ": Hessian row with penalisation factor 0 is not zero");
        stats().cls("penalisation factor 0");
      }
    else
      {
        C09_TRY(cmp_scalar("linearity in beta: value " + kn, v2 * b1, vstir * b2, std::fabs(vstir * b2), TOL_REL));
        Vec a(static_cast<std::size_t>(N)), b(static_cast<std::size_t>(N)), mg(static_cast<std::size_t>(N));
        auto lin = [&](const std::string& what, const Vec& q1, const Vec& q2, const Vec* mag) -> std::string {
          for (int i = 0; i < N; ++i)
            {
              a[std::size_t(i)] = q2[std::size_t(i)] * b1;
              b[std::size_t(i)] = q1[std::size_t(i)] * b2;
              mg[std::size_t(i)] = (mag ? (*mag)[std::size_t(i)] : std::fabs(q1[std::size_t(i)])) * b2;
            }
          return cmp_vec("linearity in beta: " + what + " " + kn, a, b, mg, TOL_REL, g);
        };
        C09_TRY(lin("gradient", gstir, g2, &gmag));
        C09_TRY(lin("Hessian-times-input", hv1, hv2, &hvmag));
        C09_TRY(lin("Hessian row", r1, r2, nullptr));
      }
  }

  // ---- gradient of a uniform image vanishes -----------------------------------------------------------------------------------------
  {
    double mean = 0;
    for (double e : x)
      mean += e / N;
    const float cst = float(mean);
    const shared_ptr<Vox> u = filled_vox(g, cst);
    const Vec gu = stir_gradient(P, g, *u);
    // natural unit of the gradient: beta * sum of weights * kappa_max^2 * (Quadratic: image value; RDP: 1; Logcosh: 1/s)
    double wsum = 0;
    for (double e : w.w)
      wsum += std::fabs(e);
    const double km = kap.empty() ? 1. : vmax(kap);
    const double unit = double(k.beta) * wsum * km * km * (k.kind == QUAD ? double(cst) : (k.kind == RDP ? 1. : 1. / double(k.scalar)));
    stats().maxi("max |gradient of uniform image| / natural unit " + kn, unit > 0 ? vmax(gu) / unit : vmax(gu));
    VF_CHECK(vmax(gu) <= 1e-6 * unit, kn, ": gradient of a uniform image (value ", cst, ") is not zero: max |g| = ", vmax(gu));
  }

  // ---- padding with a border of kappa = 0 voxels changes nothing ----------------------------------------------------------------
  if (k.pad[0] + k.pad[1] + k.pad[2] + k.pad[3] + k.pad[4] + k.pad[5] > 0)
    {
      const Padded pd = make_padded(k, x, kap, k.pad);
      const shared_ptr<Vox> pxim = to_vox(pd.g, pd.x);
      Spec sp = spec;
      sp.kappa = to_vox(pd.g, pd.kap);
      Made mp = make_prior(sp, pxim);
      const double vp = mp.p->compute_value(*pxim);
      C09_TRY(cmp_scalar("padding: value " + kn, vp, vstir, vmag + 3. * vfloor / TOL, TOL_REL));
      const Vec gp = stir_gradient(*mp.p, pd.g, *pxim);
      C09_TRY(border_is_zero("padding: gradient " + kn, pd, gp));
      C09_TRY(cmp_vec("padding: gradient " + kn, restrict_to(pd, gp), gstir, gmag, TOL_REL, g));
      // Hessian times input
      Vec vpad = make_direction(k.dseed + 9, pd.x.size(), 1.);
      for (std::size_t a = 0; a < pd.map.size(); ++a)
        vpad[std::size_t(pd.map[a])] = v[a];
      const Vec zero(pd.x.size(), 0.);
      const Vec hp = stir_hess_times(*mp.p, pd.g, *pxim, vpad, zero);
      C09_TRY(border_is_zero("padding: Hessian-times-input " + kn, pd, hp));
      const Vec zero_s(static_cast<std::size_t>(N), 0.);
      const Vec hs = stir_hess_times(P, g, *xim, v, zero_s);
      C09_TRY(cmp_vec("padding: Hessian-times-input " + kn, restrict_to(pd, hp), hs, hvmag, TOL_REL, g));
      // rows of a few voxels
      for (int j : sample_voxels(g, k.dseed + 11, 12))
        {
          const int xx = j % g.nx, y = (j / g.nx) % g.ny, z = j / (g.nx * g.ny);
          const Vec rp = stir_row(*mp.p, pd.g, *pxim, z + k.pad[0], y + k.pad[2], xx + k.pad[4]);
          C09_TRY(border_is_zero("padding: Hessian row " + kn, pd, rp));
          Vec mag(static_cast<std::size_t>(N));
          for (int i = 0; i < N; ++i)
            mag[std::size_t(i)] = std::fabs(Hs[std::size_t(j)][std::size_t(i)]);
          C09_TRY(cmp_vec("padding: Hessian row " + kn, restrict_to(pd, rp), Hs[std::size_t(j)], mag, TOL_REL, g));
        }
      stats().cls("padded with kappa=0 border");
    }

  // ---- singleton dimensions contribute nothing: same results with the weights restricted to offset 0 in those dimensions ----------
  if (k.beta != 0 && ((g.nz == 1 && w.hz > 0) || (g.ny == 1 && w.hy > 0) || (g.nx == 1 && w.hx > 0)) && stir_weights(m, k.kind, wstir))
    {
      Weights wr;
      wr.hz = g.nz == 1 ? 0 : w.hz;
      wr.hy = g.ny == 1 ? 0 : w.hy;
      wr.hx = g.nx == 1 ? 0 : w.hx;
      wr.w.assign(std::size_t(wr.size()), 0.);
      for (int dz = -wr.hz; dz <= wr.hz; ++dz)
        for (int dy = -wr.hy; dy <= wr.hy; ++dy)
          for (int dx = -wr.hx; dx <= wr.hx; ++dx)
            wr.ref(dz, dy, dx) = double(wstir[dz][dy][dx]);
      Spec sr = spec;
      sr.user_w = &wr;
      sr.construct = 0;
      Made mr = make_prior(sr, xim);
      C09_TRY(cmp_scalar("singleton: value " + kn, mr.p->compute_value(*xim), vstir, vmag + 3. * vfloor / TOL, TOL_REL));
      C09_TRY(cmp_vec("singleton: gradient " + kn, stir_gradient(*mr.p, g, *xim), gstir, gmag, TOL_REL, g));
      const Vec zero(static_cast<std::size_t>(N), 0.);
      C09_TRY(cmp_vec("singleton: Hessian-times-input " + kn, stir_hess_times(*mr.p, g, *xim, v, zero), stir_hess_times(P, g, *xim, v, zero), hvmag, TOL_REL, g));
      stats().cls("singleton dimension with wider weights");
    }

  // ---- midpoint convexity of the value ("smooth convex function") ---------------------------------------------------------------
  {
    Cfg kb = k;
    kb.iseed = k.iseed + 101;
    kb.imode = 0;
    const Vec b = make_image(kb);
    Vec mid(static_cast<std::size_t>(N));
    for (int i = 0; i < N; ++i)
      mid[std::size_t(i)] = 0.5 * (x[std::size_t(i)] + b[std::size_t(i)]);
    const double vb = P.compute_value(*to_vox(g, b)), vm = P.compute_value(*to_vox(g, mid));
    double mb = 0, fb = 0;
    ref.value(b, &mb, &fb);
    const double slack = 10 * TOL * (vmag + mb) + 3. * (vfloor + fb) * 2;
    stats().maxi("max midpoint convexity violation / (values) " + kn, (vstir + vb) > 0 ? std::max(0., vm - 0.5 * (vstir + vb)) / (vstir + vb) : 0.);
    VF_CHECK(vm <= 0.5 * (vstir + vb) + slack, kn, " declares itself convex but value(midpoint) = ", vm, " > mean of values ", 0.5 * (vstir + vb));
  }
  return Result::pass();
}

// =======================================================================================================================
// PLS: no Hessian (GeneralisedPrior.cxx:54-80: the base class error()s) -> value / gradient / scaling / uniform / border clauses.
Result
check_pls(const Cfg& k)
{
  const Grid& g = k.g;
  const int N = g.N();
  const Vec x = make_image(k);
  const Vec kap = make_kappa(k, g);
  const Vec anat = make_anatomical(k, x);
  const shared_ptr<Vox> xim = to_vox(g, x);
  const shared_ptr<Vox> kim = kap.empty() ? shared_ptr<Vox>() : to_vox(g, kap);
  const shared_ptr<Vox> aim = to_vox(g, anat);
  const Spec spec = spec_of(k, nullptr, kim, aim);
  Made m;
  try
    {
      m = make_prior(spec, xim);
    }
  catch (const std::exception& e)
    {
      return Result::reject(std::string("prior construction/set_up rejected: ") + e.what());
    }
  Prior& P = *m.p;

  PlsRef<double> ref;
  ref.g = g;
  ref.only_2D = k.only_2D();
  ref.kap = kap;
  ref.anat = anat;
  ref.eta = k.eta;
  ref.alpha = k.alpha;
  ref.beta = double(k.beta);

  double vmag = 0;
  const double vref = ref.value(x, &vmag);
  Vec gref, gmag;
  ref.gradient(x, gref, &gmag);
  {
    const Vec d = make_direction(k.dseed ^ 0x5bd1e995u, std::size_t(N), 1.);
    C09_TRY(anchor_gradient(ref, x, gref, gmag, d, char_length(k, x), 0.));
  }
  VF_CHECK(P.is_convex(), "PLS does not declare itself convex");

  const double vstir = P.compute_value(*xim);
  C09_TRY(cmp_scalar("value PLS", vstir, vref, vmag, TOL_PLS));

  const Vec gstir = stir_gradient(P, g, *xim);
  // the gradient of voxel r is a difference of terms kappa_s q_s, |q| <= 1, with s = r and the backward neighbours of r (kappa
  // multiplies the voxel's own term phi_s): the natural float scale per voxel is beta * (largest kappa among these voxels)
  Vec mag(gmag);
  for (int z = 0; z < g.nz; ++z)
    for (int y = 0; y < g.ny; ++y)
      for (int xx = 0; xx < g.nx; ++xx)
        {
          const int r = g.idx(z, y, xx);
          double ks = ref.kappa(r);
          for (int d = 0; d < 3; ++d)
            if (ref.active(d) && ref.bwd(z, y, xx, d) >= 0)
              ks = std::max(ks, ref.kappa(ref.bwd(z, y, xx, d)));
          mag[std::size_t(r)] += 0.1 * double(k.beta) * ks;
        }
  C09_TRY(cmp_vec("gradient PLS", gstir, gref, mag, TOL_PLS, g));
  stats().count("PLS gradient voxels compared", N);

  // ---- linear in the penalisation factor --------------------------------------------------------------------------------------------
  {
    Spec s2 = spec;
    s2.beta = k.beta == 0 ? 1.5f : k.beta * 2.5f;
    Made m2 = make_prior(s2, xim);
    const double v2 = m2.p->compute_value(*xim);
    const Vec g2 = stir_gradient(*m2.p, g, *xim);
    const double b1 = double(k.beta), b2 = double(s2.beta);
    if (k.beta == 0)
      {
        VF_CHECK(vstir == 0., "PLS: value with penalisation factor 0 is ", vstir);
        VF_CHECK(vmax(gstir) == 0., "PLS: gradient with penalisation factor 0 is not zero (output not overwritten?)");
        stats().cls("penalisation factor 0");
      }
    else
      {
        C09_TRY(cmp_scalar("linearity in beta: value PLS", v2 * b1, vstir * b2, std::fabs(vstir * b2), TOL_REL));
        Vec a(static_cast<std::size_t>(N)), b(static_cast<std::size_t>(N)), mg(static_cast<std::size_t>(N));
        for (int i = 0; i < N; ++i)
          {
            a[std::size_t(i)] = g2[std::size_t(i)] * b1;
            b[std::size_t(i)] = gstir[std::size_t(i)] * b2;
            mg[std::size_t(i)] = mag[std::size_t(i)] * b2;
          }
        C09_TRY(cmp_vec("linearity in beta: gradient PLS", a, b, mg, TOL_REL, g));
      }
  }

  // ---- uniform image -----------------------------------------------------------------------------------------------------------------
  {
    double mean = 0;
    for (double e : x)
      mean += e / N;
    const Vec gu = stir_gradient(P, g, *filled_vox(g, float(mean)));
    const double unit = double(k.beta) * (kap.empty() ? 1. : vmax(kap));
    stats().maxi("max |gradient of uniform image| / natural unit PLS", unit > 0 ? vmax(gu) / unit : vmax(gu));
    VF_CHECK(vmax(gu) <= 1e-6 * unit, "PLS: gradient of a uniform image is not zero: max |g| = ", vmax(gu));
  }

  // ---- no Hessian: must be reported, not silently wrong ---------------------------------------------------------------------------
  {
    bool threw = false;
    try
      {
        shared_ptr<Vox> out = filled_vox(g, 0.f);
        P.compute_Hessian(*out, make_coordinate(g.oz, g.oy, g.ox), *xim);
      }
    catch (const std::runtime_error&)
      {
        threw = true;
      }
    stats().cls(threw ? "PLS compute_Hessian reported as not implemented" : "PLS compute_Hessian returned");
  }

  // ---- padding on the LOW side with kappa = 0 (kappa multiplies the voxel's own term phi_r; the forward difference of a low-side
  //      border voxel reaches into the image but is multiplied by kappa_r = 0; high-side padding would change phi of the last plane)
  if (k.pad[0] + k.pad[2] + k.pad[4] > 0)
    {
      int pad[6] = { k.only_2D() ? k.pad[0] : k.pad[0], 0, k.pad[2], 0, k.pad[4], 0 };
      const Padded pd = make_padded(k, x, kap, pad);
      Vec apad(pd.x.size());
      {
        SplitMix r(k.aseed + 23);
        for (auto& e : apad)
          e = double(float(r.real(0., 1.) * k.ascale));
        for (std::size_t a = 0; a < pd.map.size(); ++a)
          apad[std::size_t(pd.map[a])] = anat[a];
      }
      const shared_ptr<Vox> pxim = to_vox(pd.g, pd.x);
      Spec sp = spec;
      sp.kappa = to_vox(pd.g, pd.kap);
      sp.anat = to_vox(pd.g, apad);
      Made mp = make_prior(sp, pxim);
      C09_TRY(cmp_scalar("padding: value PLS", mp.p->compute_value(*pxim), vstir, vmag, TOL_REL));
      stats().cls("padded with kappa=0 border");
    }

  // ---- midpoint convexity of the value -------------------------------------------------------------------------------------------------
  {
    Cfg kb = k;
    kb.iseed = k.iseed + 101;
    kb.imode = 0;
    const Vec b = make_image(kb);
    Vec mid(static_cast<std::size_t>(N));
    for (int i = 0; i < N; ++i)
      mid[std::size_t(i)] = 0.5 * (x[std::size_t(i)] + b[std::size_t(i)]);
    const double vb = P.compute_value(*to_vox(g, b)), vm = P.compute_value(*to_vox(g, mid));
    VF_CHECK(vm <= 0.5 * (vstir + vb) + 10 * TOL_PLS * (vstir + vb), "PLS declares itself convex but value(midpoint) = ", vm, " > mean of values ", 0.5 * (vstir + vb));
  }
  return Result::pass();
}

// =======================================================================================================================
// OBJECT HISTORIES (cases that carry a "hist" array, 2 of 5 generated cases; the others are checked as above).
//
// ONE prior object is constructed, set up and then used, changed and used again.  A case is
//    base configuration (as above)  +  "use0": [first, n, seed]  +  "hist": [[op, a, b, first, n, seed], ...]
// After the construction and after every change a USE BLOCK runs: n of the calls compute_value, compute_gradient,
// compute_Hessian (1-3 voxels), accumulate_Hessian_times_input, parabolic_surrogate_curvature,
// add_multiplication_with_approximate_Hessian in a permuted order that STARTS with call `first` (so the first weight-using call
// after construction / set_up is any of them), each on a fresh random image.  EVERY result is compared with the
// double-precision reference (c09_ref.h) evaluated for the CURRENT settings of the model state below, i.e. with what a freshly
// constructed object with these settings has to return (same tolerances as the classic half).  The only quantity without a
// documented formula, QuadraticPrior::add_multiplication_with_approximate_Hessian, is compared with a freshly constructed twin
// object that has evaluated compute_value first.  All arguments are interpreted modulo the current state, so every
// sub-sequence of "hist" is a valid history (shrinking).
//
// Changes (op):  0 set_up again (same geometry, new target object)    1 set_up for ANOTHER image geometry (sizes, first indices,
// voxel sizes, or back to the first geometry; the kappa / anatomical images are replaced first: check() error()s "kappa image
// does not have the same index range" otherwise)    2 set_weights (other shapes, back to the first ones; PLS:
// set_anatomical_image_sptr)
// 3 set_kappa_sptr (null / positive / with zeros / constant)    4 set_penalisation_factor    5 parse() on the live object
// (only 2D, penalisation factor, gamma/epsilon/scalar, weights - ParsingObject::parse() does not call set_defaults(): keys that
// are absent keep their values; the only interface to only_2D of the three pairwise priors; PLS: set_only_2D or parsing)
// 6 set_gamma/set_epsilon, set_scalar, set_eta/set_alpha.
// Preconditions: RelativeDifferencePrior::set_weights / set_kappa_sptr reset _already_set_up (check() then error()s "The prior
// should already be set-up"); PLSPrior::set_up precomputes the anatomical gradients and their norm (eta, only_2D); the other
// setters do not say.  The history therefore calls set_up(target) after EVERY change, except after set_penalisation_factor
// ("Currently we allow the penalisation factor to be set after calling set_up()", GeneralisedPrior.inl) where it is optional.
//
// KNOWN FINDING kept out by construction (back in with VERIF_NO_EXCLUDE=1; probe known/C09/stale_default_weights_second_set_up.json):
// the default weights ("x-voxel_size divided by the Euclidean distance", 3x3x3 or 1x3x3 for only_2D) are computed lazily by the
// first weight-using call with a non-zero penalisation factor ("if (weights.get_length() == 0) compute_weights(...)") and never
// again: after a set_up for an image with other voxel-size ratios, or after "only 2D" was changed by parsing, the object keeps
// the weights of the FIRST geometry and every quantity differs from a fresh object.  Avoided: the new geometry then gets the
// old voxel sizes times 1/2, 1 or 2 (same weights), and the only_2D value is not changed; counted under excluded_known.
const char* const SIG_STALE_W = "C09:history:default-weights-computed-by-first-use:voxel-size-ratio-or-only_2D-changed-later";

// true while the finding is not repaired in /repo.  When the repair (work/fixes/C09_ext/01_default_prior_weights_recomputed.diff) is
// committed: set to false, move known/C09/stale_default_weights_second_set_up.json to replays/C09/fixed_F6_*.json
const bool EXCLUDE_STALE_DEFAULT_WEIGHTS = true;

bool
no_exclude()
{
  static const bool v = !EXCLUDE_STALE_DEFAULT_WEIGHTS || std::getenv("VERIF_NO_EXCLUDE") != nullptr;
  return v;
}

enum HCall
{
  HC_VALUE = 0,
  HC_GRAD,
  HC_HROW,
  HC_HTIMES,
  HC_CURV,
  HC_APPROX
};
const char* const hcall_name[] = { "compute_value", "compute_gradient", "compute_Hessian", "accumulate_Hessian_times_input", "parabolic_surrogate_curvature",
                                   "add_multiplication_with_approximate_Hessian" };
enum HOp
{
  HO_SETUP_SAME = 0,
  HO_NEW_GRID,
  HO_WEIGHTS,
  HO_KAPPA,
  HO_BETA,
  HO_PARSE,
  HO_PARAM,
  HO_NUM
};
const char* const hop_name[] = { "set_up again", "set_up for another geometry", "set_weights / anatomical image", "set_kappa_sptr", "set_penalisation_factor",
                                 "parse on the live object / only_2D", "parameter setter" };

//! the settings a freshly constructed twin would be given (model of the live object)
struct HState
{
  int kind = QUAD;
  Grid g;
  float beta = 1;
  bool only_2D = false;
  bool user = false; // user weights present (set_weights / "weights" key); they never go away again (no documented way back)
  Weights user_w;
  int kmode = 0;
  Vec kap;
  float gamma = 2, eps = 0.1f, scalar = 1;
  double eta = 1, alpha = 1, iscale = 1, ascale = 1;
  int amode = 0;
  Vec anat;
  shared_ptr<Vox> target;
  // bookkeeping for the known finding: has the live object computed its default weights, and for which settings
  bool mat = false;
  Grid mat_g;
  bool mat_2D = false;

  Weights weights() const { return user ? user_w : default_weights(g, only_2D); }
};

bool
same_weights(const Weights& a, const Weights& b)
{
  if (a.hz != b.hz || a.hy != b.hy || a.hx != b.hx)
    return false;
  for (std::size_t i = 0; i < a.w.size(); ++i)
    if (std::fabs(a.w[i] - b.w[i]) > 1e-7 * (std::fabs(a.w[i]) + std::fabs(b.w[i])))
      return false;
  return true;
}

//! would the live object (unchanged tree) hold default weights of other settings than \a g / \a only_2D ?
bool
would_be_stale(const HState& st, const Grid& g, bool only_2D)
{
  return st.kind != PLS && st.mat && !st.user && !same_weights(default_weights(st.mat_g, st.mat_2D), default_weights(g, only_2D));
}

void
count_excluded(const char* sig)
{
  stats().excluded_known++;
  stats().count(std::string("excluded:") + sig);
}

const std::vector<float>&
beta_list()
{
  static const std::vector<float> v = { 1.f, 0.f, 0.5f, 2.5f, 100.f, 0.01f, 7.3f };
  return v;
}

Vec
h_kappa(int kmode, uint64_t seed, double kconst, const Grid& g)
{
  Cfg t;
  t.kmode = kmode;
  t.kseed = seed;
  t.kconst = kconst;
  return make_kappa(t, g);
}

Vec
h_anat(const HState& st, uint64_t seed, const Grid& g)
{
  SplitMix r(seed);
  Vec v(std::size_t(g.N()));
  for (auto& e : v)
    e = double(float((st.amode == 1 ? 1. : r.real(0., 1.)) * st.ascale));
  return v;
}

Weights
h_user_weights(int hz, int hy, int hx, uint64_t seed)
{
  Cfg t;
  t.hz = hz;
  t.hy = hy;
  t.hx = hx;
  t.wseed = seed;
  SplitMix r(seed ^ 0x77u);
  t.wzero = int(r.range(0, 4));
  t.wcentre = r.range(0, 3) == 0 ? r.real(0.1, 2.) : 0.;
  return make_user_weights(t);
}

void
live_set_weights(const Made& m, int kind, const Weights& w)
{
  if (kind == QUAD)
    dynamic_cast<QuadraticPrior<float>&>(*m.p).set_weights(to_array(w));
  else if (kind == RDP)
    dynamic_cast<RelativeDifferencePrior<float>&>(*m.p).set_weights(to_array(w));
  else if (kind == LOGCOSH)
    dynamic_cast<LogcoshPrior<float>&>(*m.p).set_weights(to_array(w));
}

void
live_set_kappa(const Made& m, int kind, const shared_ptr<Vox>& k)
{
  if (kind == QUAD)
    dynamic_cast<QuadraticPrior<float>&>(*m.p).set_kappa_sptr(k);
  else if (kind == RDP)
    dynamic_cast<RelativeDifferencePrior<float>&>(*m.p).set_kappa_sptr(k);
  else if (kind == LOGCOSH)
    dynamic_cast<LogcoshPrior<float>&>(*m.p).set_kappa_sptr(k);
  else
    dynamic_cast<PLSPrior<float>&>(*m.p).set_kappa_sptr(k);
}

bool
live_parse(const Made& m, int kind, const std::string& body)
{
  static const char* const names[] = { "Quadratic Prior", "Relative Difference Prior", "Logcosh Prior", "PLS Prior" };
  const std::string name = names[kind & 3];
  std::istringstream is(name + " Parameters:=\n" + body + "END " + name + " Parameters:=\n");
  if (kind == QUAD)
    return dynamic_cast<QuadraticPrior<float>&>(*m.p).parse(is);
  if (kind == RDP)
    return dynamic_cast<RelativeDifferencePrior<float>&>(*m.p).parse(is);
  if (kind == LOGCOSH)
    return dynamic_cast<LogcoshPrior<float>&>(*m.p).parse(is);
  return dynamic_cast<PLSPrior<float>&>(*m.p).parse(is);
}

Grid
h_new_grid(const HState& st, const Grid& base, int variant, uint64_t seed)
{
  if ((variant / 4) % 3 == 2)
    return base; // back to the geometry of the construction

  SplitMix r(seed ^ 0xA5A5A5u);
  Grid g;
  auto dim = [&](int m) { return r.range(0, 5) == 0 ? 1 : int(r.range(2, m)); };
  g.nz = dim(5);
  g.ny = dim(6);
  g.nx = dim(6);
  const bool usual = r.range(0, 1) == 1;
  g.oz = usual ? 0 : int(r.range(-3, 3));
  g.oy = usual ? -(g.ny / 2) : int(r.range(-6, 4));
  g.ox = usual ? -(g.nx / 2) : int(r.range(-6, 4));
  static const float sp[] = { 0.5f, 1.f, 1.5f, 2.f, 2.5f, 3.f, 4.f, 5.f, 1.171875f, 3.3125f };
  const float a = sp[r.range(0, 9)], b = sp[r.range(0, 9)], c = sp[r.range(0, 9)];
  const float f = r.range(0, 1) ? 0.5f : 2.f;
  switch (variant & 3)
    {
    case 0: // only sizes / first indices change
      g.vz = st.g.vz, g.vy = st.g.vy, g.vx = st.g.vx;
      break;
    case 1: // new anisotropic voxel sizes
      g.vz = a, g.vy = b, g.vx = c;
      break;
    case 2: // new isotropic voxel sizes
      g.vz = g.vy = g.vx = a;
      break;
    default: // all voxel sizes scaled by a common factor (the default weights are invariant)
      g.vz = st.g.vz * f, g.vy = st.g.vy * f, g.vx = st.g.vx * f;
    }
  g.org_z = r.range(0, 1) ? 0.f : float(r.range(-20, 20));
  g.org_x = r.range(0, 1) ? 0.f : float(r.range(-20, 20));
  return g;
}

Spec
h_spec(const HState& st, const Weights* user_w, int construct)
{
  Spec s;
  s.kind = st.kind;
  s.beta = st.beta;
  s.only_2D = st.only_2D;
  s.user_w = user_w;
  s.construct = construct;
  s.gamma = st.gamma;
  s.eps = st.eps;
  s.scalar = st.scalar;
  s.eta = st.eta;
  s.alpha = st.alpha;
  s.kappa = st.kap.empty() ? shared_ptr<Vox>() : to_vox(st.g, st.kap);
  s.anat = st.kind == PLS ? to_vox(st.g, st.anat) : shared_ptr<Vox>();
  return s;
}

//! one use block; \a where describes the position in the history for the messages
Result
h_use(HState& st, const Made& m, long first, long n, uint64_t seed, const std::string& where)
{
  const Grid& g = st.g;
  const int N = g.N();
  const std::string kn = kind_name(st.kind);
  Prior& P = *m.p;
  SplitMix r(seed ^ 0x3C3C3Cu);
  // applicable calls (RDP has no surrogate curvature; the approximate Hessian of RDP / Logcosh is "not implemented": no weights involved)
  std::vector<int> calls;
  switch (st.kind)
    {
    case QUAD:
      calls = { HC_VALUE, HC_GRAD, HC_HROW, HC_HTIMES, HC_CURV, HC_APPROX };
      break;
    case RDP:
      calls = { HC_VALUE, HC_GRAD, HC_HROW, HC_HTIMES };
      break;
    case LOGCOSH:
      calls = { HC_VALUE, HC_GRAD, HC_HROW, HC_HTIMES, HC_CURV };
      break;
    default:
      calls = { HC_VALUE, HC_GRAD };
    }
  const std::size_t nc = calls.size();
  std::swap(calls[0], calls[std::size_t(((first % long(nc)) + long(nc)) % long(nc))]);
  for (std::size_t i = nc - 1; i >= 2; --i)
    std::swap(calls[i], calls[std::size_t(r.range(1, long(i)))]);
  std::size_t ncalls = std::size_t(((n % long(nc)) + long(nc)) % long(nc));
  if (ncalls == 0)
    ncalls = nc;
  calls.resize(ncalls);

  // the image of this block
  Vec x(static_cast<std::size_t>(N));
  {
    const bool coarse = r.range(0, 3) == 0;
    for (auto& e : x)
      e = double(float((coarse ? double(r.range(0, 4)) / 4. : r.real(0.05, 1.)) * st.iscale));
  }
  const shared_ptr<Vox> xim = to_vox(g, x);
  const Vec v = make_direction(seed + 1, std::size_t(N), 1.);

  if (st.kind == PLS)
    {
      PlsRef<double> ref;
      ref.g = g;
      ref.only_2D = st.only_2D;
      ref.kap = st.kap;
      ref.anat = st.anat;
      ref.eta = st.eta;
      ref.alpha = st.alpha;
      ref.beta = double(st.beta);
      for (int call : calls)
        {
          const std::string what = cat("history ", hcall_name[call], " PLS");
          if (call == HC_VALUE)
            {
              double vmag = 0;
              const double vref = ref.value(x, &vmag);
              const std::string msg = cmp_scalar(what, P.compute_value(*xim), vref, vmag, TOL_PLS);
              if (!msg.empty())
                return Result::fail(cat(where, ": ", msg));
            }
          else
            {
              Vec gref, gmag;
              ref.gradient(x, gref, &gmag);
              for (int z = 0; z < g.nz; ++z) // float scale of the divergence, as in check_pls
                for (int y = 0; y < g.ny; ++y)
                  for (int xx = 0; xx < g.nx; ++xx)
                    {
                      const int rr = g.idx(z, y, xx);
                      double ks = ref.kappa(rr);
                      for (int d = 0; d < 3; ++d)
                        if (ref.active(d) && ref.bwd(z, y, xx, d) >= 0)
                          ks = std::max(ks, ref.kappa(ref.bwd(z, y, xx, d)));
                      gmag[std::size_t(rr)] += 0.1 * double(st.beta) * ks;
                    }
              const std::string msg = cmp_vec(what, stir_gradient(P, g, *xim), gref, gmag, TOL_PLS, g);
              if (!msg.empty())
                return Result::fail(cat(where, ": ", msg));
            }
          stats().count("history: calls compared");
        }
      return Result::pass();
    }

  PairRef<double> ref;
  ref.g = g;
  ref.w = st.weights();
  ref.kap = st.kap;
  ref.pot.kind = st.kind;
  ref.pot.gamma = double(st.gamma);
  ref.pot.eps = double(st.eps);
  ref.pot.s = double(st.scalar);
  ref.beta = double(st.beta);

  bool first_call = true;
  for (int call : calls)
    {
      const std::string what = cat("history ", hcall_name[call], " ", kn);
      const bool lazily_creates = st.beta != 0 && !st.user && !st.mat; // this call computes the default weights
      if (lazily_creates)
        stats().cls(cat("history: default weights computed by ", hcall_name[call], " ", kn));
      std::string msg;
      switch (call)
        {
        case HC_VALUE:
          {
            double vmag = 0, vfloor = 0;
            const double vref = ref.value(x, &vmag, &vfloor);
            msg = cmp_scalar(what, P.compute_value(*xim), vref, vmag + 3. * vfloor / TOL, TOL);
            break;
          }
        case HC_GRAD:
          {
            Vec gref, gmag;
            ref.gradient(x, gref, &gmag);
            msg = cmp_vec(what, stir_gradient(P, g, *xim), gref, gmag, TOL, g);
            break;
          }
        case HC_HROW:
          {
            const int nrows = int(r.range(1, 3));
            for (int i = 0; i < nrows && msg.empty(); ++i)
              {
                const int j = int(r.range(0, N - 1));
                const int xx = j % g.nx, y = (j / g.nx) % g.ny, z = j / (g.nx * g.ny);
                Vec rref, rmag;
                ref.hess_row(x, z, y, xx, rref, &rmag);
                msg = cmp_vec(what, stir_row(P, g, *xim, z, y, xx), rref, rmag, TOL, g);
                if (!msg.empty())
                  msg = cat("row of voxel (", g.oz + z, ",", g.oy + y, ",", g.ox + xx, "): ", msg);
              }
            break;
          }
        case HC_HTIMES:
          {
            Vec hvref, hvmag;
            ref.hess_times(x, v, hvref, &hvmag);
            const Vec prefill = make_direction(seed + 3, std::size_t(N), 0.5 * vmax(hvref));
            for (int i = 0; i < N; ++i)
              hvmag[std::size_t(i)] += 0.05 * (std::fabs(prefill[std::size_t(i)]) + std::fabs(hvref[std::size_t(i)])); // float rounding of output += result
            msg = cmp_vec(what, stir_hess_times(P, g, *xim, v, prefill), hvref, hvmag, TOL_HV, g);
            break;
          }
        case HC_CURV:
          {
            Vec cref;
            ref.curvature(x, cref);
            shared_ptr<Vox> out = filled_vox(g, 9.5f);
            m.ps->parabolic_surrogate_curvature(*out, *xim);
            msg = cmp_vec(what, from_vox(g, *out), cref, cref, TOL, g);
            break;
          }
        default: // HC_APPROX, Quadratic only: no documented formula (see check_pairwise) -> a fresh twin that evaluated the value first
          {
            const Weights w = st.weights();
            Made twin = make_prior(h_spec(st, st.user ? &w : nullptr, 0), st.target);
            twin.p->compute_value(*xim);
            const shared_ptr<Vox> in = to_vox(g, v);
            shared_ptr<Vox> o1 = filled_vox(g, 0.25f), o2 = filled_vox(g, 0.25f);
            P.add_multiplication_with_approximate_Hessian(*o1, *in);
            twin.p->add_multiplication_with_approximate_Hessian(*o2, *in);
            // magnitude = sum of the absolute values of the terms = the same (non-negative) operator applied to |input|.  The two
            // objects hold default weights computed by different functions (compute_weights is inlined into each of them and the
            // library is built with -ffast-math): they agree to float rounding only, so this is a float-accumulation comparison (TOL)
            Vec va(v);
            for (auto& e : va)
              e = std::fabs(e);
            shared_ptr<Vox> o3 = filled_vox(g, 0.f);
            twin.p->add_multiplication_with_approximate_Hessian(*o3, *to_vox(g, va));
            Vec want = from_vox(g, *o2), mag = from_vox(g, *o3);
            for (auto& e : mag)
              e = std::fabs(e) + 0.25;
            msg = cmp_vec(what + " vs fresh twin", from_vox(g, *o1), want, mag, TOL, g);
          }
        }
      if (!msg.empty())
        return Result::fail(cat(where, first_call ? " (first call of the block)" : "", lazily_creates ? " [this call computes the default weights]" : "", ": ", msg));
      if (lazily_creates)
        {
          st.mat = true;
          st.mat_g = g;
          st.mat_2D = st.only_2D;
        }
      first_call = false;
      stats().count("history: calls compared");
    }

  // the weights the object now holds are the ones of the current settings (documented defaults or the user's)
  Array<3, float> wstir;
  if (st.beta != 0 && stir_weights(m, st.kind, wstir))
    {
      const Weights& w = ref.w;
      VF_CHECK(wstir.get_min_index() == -w.hz && wstir.get_max_index() == w.hz && wstir[0].get_min_index() == -w.hy && wstir[0].get_max_index() == w.hy
                   && wstir[0][0].get_min_index() == -w.hx && wstir[0][0].get_max_index() == w.hx,
               where, ": ", kn, " get_weights(): index range is z ", wstir.get_min_index(), "..", wstir.get_max_index(), " y ", wstir[0].get_min_index(), "..",
               wstir[0].get_max_index(), " but the current settings (", (st.user ? "user weights" : (st.only_2D ? "default, only_2D" : "default, 3D")),
               ") have half widths ", w.hz, ",", w.hy, ",", w.hx);
      for (int dz = -w.hz; dz <= w.hz; ++dz)
        for (int dy = -w.hy; dy <= w.hy; ++dy)
          for (int dx = -w.hx; dx <= w.hx; ++dx)
            VF_CHECK(std::fabs(double(wstir[dz][dy][dx]) - w.at(dz, dy, dx)) <= TOL_REL * (w.at(dz, dy, dx) + 1e-30), where, ": ", kn, " get_weights()[", dz, "][", dy,
                     "][", dx, "] = ", wstir[dz][dy][dx], " but the value for the current settings (voxel sizes z,y,x = ", g.vz, ",", g.vy, ",", g.vx, ") is ",
                     w.at(dz, dy, dx));
    }
  return Result::pass();
}

//! one change of the live object (+ the set_up the preconditions ask for)
Result
h_change(HState& st, const Made& m, const Cfg& base, long op, long a, long b, uint64_t seed, const std::string& where)
{
  a = std::labs(a);
  b = std::labs(b);
  op = ((op % HO_NUM) + HO_NUM) % HO_NUM;
  if (st.kind == QUAD && op == HO_PARAM)
    op = HO_SETUP_SAME; // no parameter
  stats().cls(cat("history step: ", hop_name[op]));
  SplitMix r(seed ^ 0x5A5A5Au);
  bool do_setup = true;
  std::ostringstream body;
  body << std::setprecision(9);
  switch (op)
    {
    case HO_SETUP_SAME:
      break;
    case HO_NEW_GRID:
      {
        Grid ng = h_new_grid(st, base.g, int(a), seed);
        if (would_be_stale(st, ng, st.only_2D))
          {
            if (no_exclude())
              stats().cls("history: set_up with other voxel-size ratios after the default weights were computed");
            else
              {
                count_excluded(SIG_STALE_W);
                const float f = (seed & 1) ? 0.5f : ((seed & 2) ? 2.f : 1.f);
                ng.vz = st.mat_g.vz * f, ng.vy = st.mat_g.vy * f, ng.vx = st.mat_g.vx * f;
              }
          }
        if (ng.vz != st.g.vz || ng.vy != st.g.vy || ng.vx != st.g.vx)
          stats().cls("history: set_up with other voxel sizes");
        // kappa / anatomical image of the new geometry first
        const bool had = !st.kap.empty();
        if (had ? (b % 3 == 0) : (b % 3 != 1))
          st.kmode = 0;
        else if (!had)
          st.kmode = 1 + int(r.range(0, 1));
        st.kap = h_kappa(st.kmode, seed + 5, 1.5, ng);
        if (had || !st.kap.empty())
          live_set_kappa(m, st.kind, st.kap.empty() ? shared_ptr<Vox>() : to_vox(ng, st.kap));
        if (st.kind == PLS)
          {
            st.anat = h_anat(st, seed + 7, ng);
            dynamic_cast<PLSPrior<float>&>(*m.p).set_anatomical_image_sptr(to_vox(ng, st.anat));
          }
        st.g = ng;
        break;
      }
    case HO_WEIGHTS:
      if (st.kind == PLS)
        {
          st.anat = h_anat(st, seed + 7, st.g);
          dynamic_cast<PLSPrior<float>&>(*m.p).set_anatomical_image_sptr(to_vox(st.g, st.anat));
        }
      else
        {
          switch (a % 4)
            {
            case 0:
              st.user_w = h_user_weights(1, 1, 1, seed);
              break;
            case 1:
              st.user_w = h_user_weights(2, 2, 2, seed);
              break;
            case 2:
              st.user_w = h_user_weights(int(r.range(0, 2)), int(r.range(0, 2)), int(r.range(0, 2)), seed);
              break;
            default: // (back to) the weights of the base configuration
              st.user_w = make_user_weights(base);
            }
          st.user = true;
          live_set_weights(m, st.kind, st.user_w);
          stats().cls(cat("history: set_weights ", 2 * st.user_w.hz + 1, "x", 2 * st.user_w.hy + 1, "x", 2 * st.user_w.hx + 1));
        }
      break;
    case HO_KAPPA:
      st.kmode = int(a % 4);
      st.kap = h_kappa(st.kmode, seed + 5, 0.2 + 0.4 * double(b % 7), st.g);
      live_set_kappa(m, st.kind, st.kap.empty() ? shared_ptr<Vox>() : to_vox(st.g, st.kap));
      stats().cls(st.kap.empty() ? "history: set_kappa_sptr(null)" : "history: set_kappa_sptr(image)");
      break;
    case HO_BETA:
      st.beta = beta_list()[std::size_t(a % 7)];
      m.p->set_penalisation_factor(st.beta);
      do_setup = (b & 1) != 0; // GeneralisedPrior.inl: "Currently we allow the penalisation factor to be set after calling set_up()"
      break;
    case HO_PARSE:
      {
        bool toggle = (a & 1) != 0;
        const bool with_weights = st.kind != PLS && (a & 8) != 0;
        if (toggle && !with_weights && would_be_stale(st, st.g, !st.only_2D))
          {
            if (no_exclude())
              stats().cls("history: only_2D changed by parsing after the default weights were computed");
            else
              {
                count_excluded(SIG_STALE_W);
                toggle = false;
              }
          }
        if (st.kind == PLS && (a & 8) == 0)
          { // the public setter
            if (toggle)
              st.only_2D = !st.only_2D;
            dynamic_cast<PLSPrior<float>&>(*m.p).set_only_2D(st.only_2D);
            stats().cls("history: PLS set_only_2D");
            break;
          }
        if (toggle)
          st.only_2D = !st.only_2D;
        if (toggle || (a & 16))
          body << "only 2D:=" << (st.only_2D ? 1 : 0) << "\n";
        if (a & 2)
          {
            st.beta = beta_list()[std::size_t(b % 7)];
            body << "penalisation factor:=" << st.beta << "\n";
          }
        if (a & 4)
          {
            if (st.kind == RDP)
              {
                st.gamma = std::vector<float>{ 2.f, 0.f, 0.5f, 10.f, 1.f }[std::size_t(r.range(0, 4))];
                body << "gamma value:=" << st.gamma << "\n";
              }
            else if (st.kind == LOGCOSH)
              {
                st.scalar = float(std::vector<double>{ 1., 0.1, 10., 3. }[std::size_t(r.range(0, 3))] / st.iscale);
                body << "scalar:=" << st.scalar << "\n";
              }
            else if (st.kind == PLS)
              {
                st.eta = st.ascale * std::vector<double>{ 1., 0.3, 3., 0.1 }[std::size_t(r.range(0, 3))];
                body << "eta:=" << std::setprecision(17) << st.eta << std::setprecision(9) << "\n";
              }
          }
        if (with_weights)
          {
            st.user_w = h_user_weights(int(r.range(0, 2)), int(r.range(0, 2)), int(r.range(0, 2)), seed);
            st.user = true;
            body << "weights:=" << weights_text(st.user_w) << "\n";
          }
        VF_CHECK(live_parse(m, st.kind, body.str()), where, ": parse() of valid parameters on the live object returned false:\n", body.str());
        stats().cls(cat("history: parse on the live object", toggle ? ", only_2D changed" : "", with_weights ? ", weights" : ""));
        break;
      }
    default: // HO_PARAM
      if (st.kind == RDP)
        {
          auto& p = dynamic_cast<RelativeDifferencePrior<float>&>(*m.p);
          if (a % 3 != 1)
            p.set_gamma(st.gamma = std::vector<float>{ 2.f, 0.f, 0.5f, 10.f, 1.f }[std::size_t(r.range(0, 4))]);
          if (a % 3 != 0) // epsilon > 0 (property text)
            p.set_epsilon(st.eps = float(st.iscale * std::vector<double>{ 1e-3, 1e-2, 0.1, 1., 10. }[std::size_t(r.range(0, 4))]));
        }
      else if (st.kind == LOGCOSH)
        dynamic_cast<LogcoshPrior<float>&>(*m.p).set_scalar(st.scalar = float(std::vector<double>{ 1., 0.1, 10., 100., 0.01, 3. }[std::size_t(r.range(0, 5))] / st.iscale));
      else
        { // PLS: alpha >= 0.1 x image scale, eta >= 0.1 x anatomical scale (assumptions of the property configuration)
          auto& p = dynamic_cast<PLSPrior<float>&>(*m.p);
          if (a % 3 != 1)
            p.set_eta(st.eta = st.ascale * std::vector<double>{ 1., 0.3, 3., 0.1 }[std::size_t(r.range(0, 3))]);
          if (a % 3 != 0)
            p.set_alpha(st.alpha = st.iscale * std::vector<double>{ 1., 0.3, 3., 0.1 }[std::size_t(r.range(0, 3))]);
        }
    }
  if (do_setup)
    {
      st.target = filled_vox(st.g, 1.f);
      VF_CHECK(m.p->set_up(st.target) == Succeeded::yes, where, ": set_up returned Succeeded::no");
    }
  else
    stats().cls("history: change without a following set_up (penalisation factor)");
  return Result::pass();
}

Result
check_history(const Cfg& k, const json& c)
{
  HState st;
  st.kind = k.kind;
  st.g = k.g;
  st.beta = k.beta;
  st.only_2D = k.only_2D();
  st.user = k.kind != PLS && k.wmode == 2;
  if (st.user)
    st.user_w = make_user_weights(k);
  st.kmode = k.kmode;
  st.kap = make_kappa(k, k.g);
  st.gamma = k.gamma;
  st.eps = k.eps;
  st.scalar = k.scalar;
  st.eta = k.eta;
  st.alpha = k.alpha;
  st.iscale = k.iscale;
  st.ascale = k.ascale;
  st.amode = k.amode;
  if (k.kind == PLS)
    st.anat = h_anat(st, k.aseed, k.g);
  st.target = filled_vox(st.g, 1.f);
  Made m;
  try
    {
      m = make_prior(h_spec(st, st.user ? &st.user_w : nullptr, k.construct), st.target);
    }
  catch (const std::exception& e)
    {
      return Result::reject(std::string("prior construction/set_up rejected: ") + e.what());
    }
  const json& hist = c.at("hist");
  stats().cls("history case");
  stats().count("history: steps", long(hist.size()));
  auto use_of = [](const json& a, std::size_t at, long& first, long& n, uint64_t& seed) {
    first = a.size() > at ? a[at].get<long>() : 0;
    n = a.size() > at + 1 ? a[at + 1].get<long>() : 0;
    seed = a.size() > at + 2 ? a[at + 2].get<uint64_t>() : 0;
  };
  long first = 0, n = 0;
  uint64_t seed = 0;
  use_of(c.value("use0", json::array()), 0, first, n, seed);
  {
    const Result r = h_use(st, m, first, n, seed, "after construction and set_up");
    if (r.failed())
      return r;
  }
  std::size_t i = 0;
  for (const json& s : hist)
    {
      ++i;
      const long op = s.size() > 0 ? s[0].get<long>() : 0, a = s.size() > 1 ? s[1].get<long>() : 0, b = s.size() > 2 ? s[2].get<long>() : 0;
      use_of(s, 3, first, n, seed);
      const std::string where = cat("history step ", i, " of ", hist.size(), " (", hop_name[((op % HO_NUM) + HO_NUM) % HO_NUM], ")");
      Result r = h_change(st, m, k, op, a, b, seed, where);
      if (r.failed())
        return r;
      r = h_use(st, m, first, n, seed, "after " + where);
      if (r.failed())
        return r;
    }
  return Result::pass();
}

Result
check(const json& c)
{
  vg::quiet();
  const Cfg k = decode(c);
  stats().cls(std::string("prior ") + kind_name(k.kind));
  stats().cls(k.wmode == 0 ? "weights default 3D" : (k.wmode == 1 ? "weights default only_2D" : cat("weights user ", 2 * k.hz + 1, "x", 2 * k.hy + 1, "x", 2 * k.hx + 1)));
  stats().cls(k.kmode == 0 ? "kappa none" : (k.kmode == 1 ? "kappa positive" : (k.kmode == 2 ? "kappa with zeros" : (k.kmode == 4 ? "kappa zero everywhere" : "kappa constant"))));
  static const char* im[] = { "image random", "image uniform", "image coarse values with zeros and ties", "image nearly uniform",
                              "image zero everywhere", "image with exactly one non-zero voxel", "image values over three decades with zeros", "image random" };
  stats().cls(im[k.imode & 7]);
  if (k.wmode == 2 && k.wzero >= 8)
    stats().cls("user weights all zero");
  if (k.g.nz == 1 || k.g.ny == 1 || k.g.nx == 1)
    stats().cls("singleton dimension");
  if (k.g.N() == 1)
    stats().cls("1x1x1");
  if (k.g.vx != k.g.vy || k.g.vx != k.g.vz)
    stats().cls("anisotropic voxels");
  if (k.construct == 1)
    stats().cls("constructed via parsing/setters");
  if (k.wmode == 2 && k.wcentre != 0)
    stats().cls("non-zero centre weight");
  stats().count("voxels", k.g.N());
  if (c.contains("hist"))
    return check_history(k, c);
  stats().cls("classic case (one use of a fresh object)");
  return k.kind == PLS ? check_pls(k) : check_pairwise(k);
}

// =======================================================================================================================
json
gen_classic(Src& s, int size)
{
  json c;
  const int kind = s.pick(std::vector<int>{ QUAD, RDP, LOGCOSH, QUAD, RDP, LOGCOSH, PLS });
  c["prior"] = kind;
  // image sizes 1x1x1 .. 8x9x10 (the property's quantifier), singleton dimensions with probability 1/6 each
  const int mz = std::max(1, std::min(8, 1 + size / 10)), my = std::max(1, std::min(9, 1 + size / 9)), mx = std::max(1, std::min(10, 1 + size / 8));
  auto dim = [&](int m) { return (m < 2 || s.chance(1, 6)) ? 1 : int(s.range(2, m)); };
  const int nz = dim(mz), ny = dim(my), nx = dim(mx);
  c["nz"] = nz;
  c["ny"] = ny;
  c["nx"] = nx;
  // index offsets: STIR's usual (z from 0, x/y centred) or arbitrary
  const bool usual = s.coin();
  c["oz"] = usual ? 0 : int(s.range(-3, 3));
  c["oy"] = usual ? -(ny / 2) : int(s.range(-6, 4));
  c["ox"] = usual ? -(nx / 2) : int(s.range(-6, 4));
  // voxel sizes (any positive spacing is legal for VoxelsOnCartesianGrid)
  const double vx = s.nice_real(0.5, 5.);
  const bool iso = s.chance(1, 4);
  c["vx"] = vx;
  c["vy"] = iso ? vx : (s.coin() ? vx : s.nice_real(0.5, 5.));
  c["vz"] = iso ? vx : s.nice_real(0.5, 5.);
  c["org_z"] = s.coin() ? 0. : s.nice_real(-20., 20.);
  c["org_y"] = 0.;
  c["org_x"] = s.coin() ? 0. : s.nice_real(-20., 20.);
  c["beta"] = s.pick(std::vector<double>{ 1., 1., 0.5, 2.5, 100., 0.01, 0., 7.3 });
  // weights
  int wmode = int(s.pick(std::vector<int>{ 0, 0, 1, 2, 2, 2 }));
  if (kind == PLS && wmode == 2)
    wmode = s.coin() ? 1 : 0; // PLS has no weights
  c["wmode"] = wmode;
  if (wmode == 2)
    {
      const int shape = int(s.range(0, 3)); // 3x3x3, 5x5x5, 1x3x3-like mixtures
      int hz = 1, hy = 1, hx = 1;
      if (shape == 1)
        hz = hy = hx = 2;
      else if (shape >= 2)
        {
          hz = int(s.range(0, 2));
          hy = int(s.range(0, 2));
          hx = int(s.range(0, 2));
        }
      c["hz"] = hz;
      c["hy"] = hy;
      c["hx"] = hx;
      c["wseed"] = s.seed64();
      c["wzero"] = s.chance(1, 12) ? 8 : int(s.range(0, 4)); // eighths of zero weights; AUD_E: 8 = every off-centre weight is zero (legal: the prior vanishes)
      // a non-zero centre weight must not matter: psi(x,x) == 0 (regression: replays/C09/fixed_F1_*)
      c["wcentre"] = s.chance(1, 4) ? s.nice_real(0.1, 2.) : 0.;
    }
  // construction path: explicit constructor (+set_weights) or parsing / setters
  c["construct"] = s.chance(1, 3) ? 1 : 0;
  // kappa
  c["kmode"] = s.chance(1, 16) ? 4 : int(s.pick(std::vector<int>{ 0, 1, 1, 2, 2, 3 })); // AUD_E: 4 = kappa zero everywhere
  c["kseed"] = s.seed64();
  c["kconst"] = s.nice_real(0.2, 3.);
  // image
  c["imode"] = s.chance(1, 6) ? int(s.pick(std::vector<int>{ 4, 5, 5, 6, 6, 6 })) : int(s.pick(std::vector<int>{ 0, 0, 0, 2, 2, 3, 1 })); // AUD_E: 4..6 degenerate images
  c["iseed"] = s.seed64();
  const double iscale = s.pick(std::vector<double>{ 1., 1., 100., 0.01, 10. });
  c["iscale"] = iscale;
  // prior parameters. RDP: gamma >= 0, epsilon > 0 (property text); scaled with the image so that all regimes occur
  c["gamma"] = s.pick(std::vector<double>{ 2., 0., 0.5, 10., 1. });
  c["eps"] = iscale * s.pick(std::vector<double>{ 1e-3, 1e-2, 0.1, 1., 10. });
  // Logcosh: scalar > 0; s * (image differences) from << 1 (quadratic regime) to ~ 100 (linear regime, float cosh overflows)
  c["scalar"] = s.pick(std::vector<double>{ 1., 0.1, 10., 100., 0.01, 3. }) / iscale;
  // PLS: alpha ~ scale of the emission image, eta ~ scale of the anatomical image (class documentation)
  const double ascale = s.pick(std::vector<double>{ 1., 50., 0.1 });
  c["ascale"] = ascale;
  c["alpha"] = iscale * s.pick(std::vector<double>{ 1., 0.3, 3., 0.1 });
  c["eta"] = ascale * s.pick(std::vector<double>{ 1., 0.3, 3., 0.1 });
  c["amode"] = int(s.pick(std::vector<int>{ 0, 0, 1, 2 }));
  c["aseed"] = s.seed64();
  c["dseed"] = s.seed64();
  json pad = json::array();
  bool any = false;
  for (int i = 0; i < 6; ++i)
    {
      const int p = s.chance(1, 2) ? int(s.range(1, 2)) : 0;
      any = any || p > 0;
      pad.push_back(p);
    }
  if (!any)
    pad[4] = 1;
  if (s.chance(1, 5))
    pad = json::array({ 0, 0, 0, 0, 0, 0 });
  c["pad"] = pad;
  return c;
}

//! the history part of a case: "use0" + "hist" (see OBJECT HISTORIES above)
void
gen_history(Src& s, json& c)
{
  auto use = [&](json& a) {
    a.push_back(int(s.range(0, 5)));              // first call of the use block
    a.push_back(s.coin() ? 0 : int(s.range(1, 5))); // number of calls (0 = all applicable ones)
    a.push_back(s.seed64());
  };
  json u = json::array();
  use(u);
  c["use0"] = u;
  json hist = json::array();
  const int len = int(s.range(1, 6));
  for (int i = 0; i < len; ++i)
    {
      json st = json::array();
      st.push_back(int(s.pick(std::vector<int>{ HO_SETUP_SAME, HO_NEW_GRID, HO_NEW_GRID, HO_NEW_GRID, HO_WEIGHTS, HO_KAPPA, HO_KAPPA, HO_BETA, HO_PARSE, HO_PARSE, HO_PARAM })));
      st.push_back(int(s.range(0, 31)));
      st.push_back(int(s.range(0, 20)));
      use(st);
      hist.push_back(st);
    }
  c["hist"] = hist;
}

json
gen(Src& s, int size)
{
  json c = gen_classic(s, size);
  // 3 of 5 cases stay as they were (one use of a fresh object, all clauses); the others are object histories
  if (s.chance(2, 5))
    {
      // the order of first use matters for the lazily computed default weights: two thirds of the histories start with them
      if (c["prior"].get<int>() != PLS && c["wmode"].get<int>() == 2 && s.chance(1, 3))
        c["wmode"] = s.coin() ? 1 : 0;
      gen_history(s, c);
    }
  return c;
}

bool
nontrivial(const json& c)
{
  const int multi = (c["nz"].get<int>() >= 2) + (c["ny"].get<int>() >= 2) + (c["nx"].get<int>() >= 2);
  const bool aniso = c["vx"].get<double>() != c["vy"].get<double>() || c["vx"].get<double>() != c["vz"].get<double>();
  return multi >= 2 && (c["kmode"].get<int>() != 0 || c["wmode"].get<int>() == 2 || aniso);
}

//! corner configurations that always run: every prior on 1x1x1, one line in each direction, the largest image with 5x5x5 weights
std::vector<json>
fixed_cases(int)
{
  std::vector<json> v;
  PrngSrc s(20260928);
  for (int kind = 0; kind < 4; ++kind)
    for (int shape = 0; shape < 6; ++shape)
      {
        json c = gen_classic(s, 100);
        c["prior"] = kind;
        static const int dims[6][3] = { { 1, 1, 1 }, { 1, 1, 5 }, { 1, 5, 1 }, { 5, 1, 1 }, { 8, 9, 10 }, { 2, 2, 2 } };
        c["nz"] = dims[shape][0];
        c["ny"] = dims[shape][1];
        c["nx"] = dims[shape][2];
        if (kind == PLS)
          {
            if (c["wmode"].get<int>() == 2)
              c["wmode"] = 0;
          }
        else if (shape == 4)
          {
            c["wmode"] = 2;
            c["hz"] = 2;
            c["hy"] = 2;
            c["hx"] = 2;
            c["wseed"] = 77 + kind;
            c["wzero"] = 1;
            c["wcentre"] = 0.;
            c["construct"] = 0;
          }
        v.push_back(c);
      }
  // order of first use: every prior x every call as the FIRST call after construction + set_up with default weights (3D and only_2D,
  // explicit constructor and parsing), followed by the remaining calls, a set_up for another geometry and a set_up again
  for (int kind = 0; kind < 4; ++kind)
    for (int first = 0; first < 6; ++first)
      {
        static const int ncalls[4] = { 6, 4, 5, 2 };
        if (first >= ncalls[kind])
          continue;
        json c = gen_classic(s, 100);
        c["prior"] = kind;
        c["nz"] = 3;
        c["ny"] = 4;
        c["nx"] = 3;
        c["wmode"] = (first + kind) % 2;
        c["construct"] = (first / 2 + kind) % 2;
        c["beta"] = first % 3 == 0 ? 1. : 2.5;
        c["use0"] = json::array({ first, 0, 1000 + 10 * kind + first });
        c["hist"] = json::array({ json::array({ int(HO_NEW_GRID), 1 + first % 3, first, first + 1, 0, 2000 + 10 * kind + first }),
                                  json::array({ int(HO_SETUP_SAME), 0, 0, first + 2, 0, 3000 + 10 * kind + first }) });
        v.push_back(c);
      }
  return v;
}

} // namespace

const Property&
the_property()
{
  static Property p;
  p.id = "C09";
  p.gen = gen;
  p.check = check;
  p.nontrivial = nontrivial;
  p.fixed_cases = fixed_cases;
  p.shrink_lists = { "hist" };
  p.rule = "image with >= 2 voxels in >= 2 dimensions and (kappa image or user weights or anisotropic voxel sizes)";
  return p;
}

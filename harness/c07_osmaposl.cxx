// C07 - OSMAPOSL sub-iterations follow the EM update and are restartable.
// One case = small generated geometry with explicit P (double), data generated from the reference model, one
// reconstruction configuration.  Run A performs sub-iterations 1..n through OSMAPOSLReconstruction::reconstruct(),
// saving every iterate (float Interfile).  Oracles on run A: (1) per-voxel EM formula, (2) non-negativity,
// (3) N=1: monotone reference log-likelihood, (4) N=1, a=0: count preservation, (5) one-step-late MAP update with
// the documented denominator bounds.  (6) restart: for EVERY k a FRESH reconstruction object (fresh objective
// function, matrix, normalisation, prior, filters) resumes at sub-iteration k+1 from the file saved after k.
#include "c07_recon_common.h"
#include "stir/OSMAPOSL/OSMAPOSLReconstruction.h"

using namespace vf;
using namespace stir;
using namespace rc7;

namespace {

const int MAX_Z = 7;

struct Cfg
{
  int N, start_subset, n_sub;
  bool use_subsens;
  PriorSpec prior;
  bool multiplicative = false;
  int filter = 0; // 0 none, 1 inter-update, 2 inter-iteration
  int filter_interval = 1;
  float fwhm = 0;
  bool enforce = true;
  bool relchange = false;
  double minrc = 0, maxrc = 0;
};

// documented in OSMAPOSLReconstruction::set_up: enforce_initial_positivity lifts non-positive values of the INITIAL
// image to (smallest positive value)*1e-6 (threshold_min_to_small_positive_value, thresholding.h)
std::vector<double>
lift_initial(const std::vector<double>& lam, bool& changed)
{
  changed = false;
  float minpos = 0;
  for (double v : lam)
    if (v > 0 && (minpos == 0 || float(v) < minpos))
      minpos = float(v);
  std::vector<double> out = lam;
  if (minpos > 0)
    {
      const float thr = minpos * 0.000001F;
      for (auto& v : out)
        if (float(v) < thr)
          {
            v = thr;
            changed = true;
          }
    }
  else
    {
      for (auto& v : out)
        v = double(0.000001F);
      changed = true;
    }
  return out;
}

struct StepRef
{
  std::vector<double> next;
  std::vector<char> skip; // voxels inside the rounding band of a documented threshold
  RefFlags fl;
  bool clamp_lo = false, clamp_hi = false, relclamp = false;
};

//! the documented update of OSMAPOSLReconstruction::update_estimate in double on the explicit P
StepRef
ref_step(const Fixture& F, const Cfg& k, const std::vector<double>& lam, int subiter, GeneralisedPrior<target_type>* prior)
{
  StepRef r;
  const std::size_t nv = lam.size();
  const int S = (subiter + k.start_subset - 1) % k.N; // documented in IterativeReconstruction::get_subset_num
  const std::vector<double> den = model_den(F, lam);
  const std::vector<double> q = quotient(F, F.y, den, r.fl);
  const std::vector<double> num = back_subset(F, q, S);
  std::vector<double> s(nv);
  for (std::size_t v = 0; v < nv; ++v)
    s[v] = k.use_subsens ? F.sens_subset[std::size_t(S)][v] : F.sens_total[v] / double(k.N);
  r.next.assign(nv, 0.);
  r.skip.assign(nv, 0);
  std::vector<double> upd(nv, 0.);
  if (!prior)
    {
      for (std::size_t v = 0; v < nv; ++v)
        upd[v] = (num[v] == 0. && s[v] == 0.) ? 0. : num[v] / s[v]; // divide(..., small_num = 0)
    }
  else
    {
      shared_ptr<target_type> lam_img = image_from_vec(F, lam);
      shared_ptr<target_type> g_img(lam_img->get_empty_copy());
      prior->compute_gradient(*g_img, *lam_img);
      const std::vector<double> g = image_vec(F, *g_img);
      const double sv = std::max(vmax(num) * 1e-6, 0.); // divide(..., small_num = 1e-6): 0 where |num| and |den| <= 1e-6 max(num)
      for (std::size_t v = 0; v < nv; ++v)
        {
          double d;
          if (!k.multiplicative)
            {
              d = g[v] / double(k.N) + s[v];
              if (d > 10. * s[v])
                {
                  d = 10. * s[v];
                  r.clamp_hi = true;
                }
              if (d < s[v] / 10.)
                {
                  d = s[v] / 10.;
                  if (s[v] > 0)
                    r.clamp_lo = true;
                }
            }
          else
            {
              d = g[v] + 1.;
              if (d > 10.)
                {
                  d = 10.;
                  r.clamp_hi = true;
                }
              if (d < 0.1)
                {
                  d = 0.1;
                  r.clamp_lo = true;
                }
              d *= s[v];
            }
          const double big = std::max(std::fabs(d), std::fabs(num[v]));
          if (sv > 0 && big > 0.9 * sv && big < 1.1 * sv)
            r.skip[v] = 1;
          upd[v] = (std::fabs(d) <= sv && std::fabs(num[v]) <= sv) ? 0. : num[v] / d;
        }
    }
  if (subiter != 1)
    { // documented: the relative-change limits are applied for sub-iteration != 1
      for (auto& u : upd)
        {
          if (u > k.maxrc)
            {
              u = k.maxrc;
              r.relclamp = true;
            }
          else if (k.minrc > u)
            {
              u = k.minrc;
              if (k.minrc > 0)
                r.relclamp = true;
            }
        }
    }
  for (std::size_t v = 0; v < nv; ++v)
    r.next[v] = lam[v] * upd[v];
  return r;
}

Cfg
decode(const json& c, const Fixture& F)
{
  Cfg k;
  k.N = c["subsets"].get<int>();
  k.start_subset = c["start_subset"].get<int>() % k.N;
  k.n_sub = c["iters"].get<int>() * k.N;
  k.use_subsens = c["use_subsens"].get<bool>();
  k.prior.kind = c["prior"].get<int>();
  k.prior.kappa = c["kappa"].get<bool>();
  k.prior.kseed = c["dseed"].get<uint64_t>() ^ 0xabcdefULL;
  k.prior.rdp_gamma = float(c["rdp_gamma"].get<double>());
  k.prior.rdp_eps = float(c["rdp_eps"].get<double>());
  k.multiplicative = c["map_mult"].get<bool>();
  k.filter = c["filter"].get<int>();
  k.filter_interval = c["filter_interval"].get<int>();
  k.fwhm = float(c["fwhm_rel"].get<double>()) * F.image->get_voxel_size().x();
  k.enforce = c["enforce"].get<bool>();
  k.relchange = c["relchange"].get<bool>();
  k.minrc = k.relchange ? c["minrc"].get<double>() : 0.;
  k.maxrc = k.relchange ? c["maxrc"].get<double>() : double(std::numeric_limits<float>::max());
  if (k.prior.kind != 0)
    {
      // penalisation factor relative to the scale of the problem so that the documented clamps are sometimes active
      double mean_s = 0, mean_l = 0;
      long cnt = 0;
      for (std::size_t v = 0; v < F.sens_total.size(); ++v)
        if (F.sens_total[v] > 0)
          {
            mean_s += F.sens_total[v];
            ++cnt;
          }
      mean_s = cnt ? mean_s / double(cnt) : 1.;
      for (double v : F.start)
        mean_l += v;
      mean_l = mean_l > 0 ? mean_l / double(F.start.size()) : 1.;
      const double rel = std::pow(10., c["beta_exp"].get<double>());
      k.prior.beta = float(k.multiplicative ? rel / mean_l : rel * mean_s / mean_l);
    }
  return k;
}

struct Run
{
  std::vector<shared_ptr<target_type>> iter; // iter[j] = image after sub-iteration j (j = start..n)
  shared_ptr<target_type> final_in_memory;
};

//! one reconstruction with FRESH objects, sub-iterations start..n, every iterate saved and read back
//! returns "" or a message; *setup_rejected is set when set_up (not the iterations) refused the configuration
std::string
run_recon(const Fixture& F, const Cfg& k, const std::string& prefix, const shared_ptr<target_type>& target, int start, Run& out, bool* setup_rejected)
{
  *setup_rejected = false;
  OSMAPOSLReconstruction<target_type> recon;
  recon.set_objective_function_sptr(make_objective(F, k.prior, k.use_subsens));
  recon.set_num_subsets(k.N);
  recon.set_num_subiterations(k.n_sub);
  recon.set_start_subiteration_num(start);
  recon.set_start_subset_num(k.start_subset);
  recon.set_save_interval(1);
  recon.set_randomise_subset_order(false);
  recon.set_output_filename_prefix(prefix);
  recon.set_output_file_format_ptr(float_interfile());
  recon.set_enforce_initial_positivity(k.enforce);
  if (k.prior.kind != 0)
    recon.set_MAP_model(k.multiplicative ? "multiplicative" : "additive");
  if (k.relchange)
    {
      recon.set_maximum_relative_change(k.maxrc);
      recon.set_minimum_relative_change(k.minrc);
    }
  if (k.filter == 1)
    {
      recon.set_inter_update_filter_ptr(gaussian_filter(k.fwhm, k.fwhm));
      recon.set_inter_update_filter_interval(k.filter_interval);
    }
  else if (k.filter == 2)
    {
      recon.set_inter_iteration_filter_ptr(gaussian_filter(k.fwhm, k.fwhm));
      recon.set_inter_iteration_filter_interval(k.filter_interval);
    }
  try
    {
      if (recon.set_up(target) != Succeeded::yes)
        {
          *setup_rejected = true;
          return "set_up returned Succeeded::no";
        }
    }
  catch (const stir_verif::AssertionFailure&)
    {
      throw;
    }
  catch (const std::exception& e)
    {
      *setup_rejected = true;
      return std::string("set_up: ") + e.what();
    }
  if (recon.reconstruct(target) != Succeeded::yes)
    return "reconstruct returned Succeeded::no";
  out.iter.assign(std::size_t(k.n_sub) + 1, shared_ptr<target_type>());
  for (int j = start; j <= k.n_sub; ++j)
    out.iter[std::size_t(j)] = read_image(F, cat(prefix, "_", j, ".hv"));
  out.final_in_memory = target;
  return "";
}

Result
compare_images(const char* what, const std::vector<double>& got, const std::vector<double>& want, const std::vector<char>* skip, double tol,
               const std::string& stat_key, const std::string& ctx)
{
  const double scale = vmax(want);
  double worst = 0;
  std::size_t where = 0;
  for (std::size_t v = 0; v < want.size(); ++v)
    {
      if (skip && (*skip)[v])
        continue;
      const double d = std::fabs(got[v] - want[v]);
      if (!(d <= worst))
        {
          worst = d;
          where = v;
        }
    }
  if (scale > 0)
    stats().maxi(stat_key, worst / scale);
  VF_CHECK(worst <= tol * scale || (scale == 0 && worst == 0), what, ": |diff|=", worst, " at voxel ", where, " (got ", got[where], ", expected ", want[where],
           "), max expected ", scale, " ", ctx);
  return Result::pass();
}

Result
check(const json& c_in)
{
  Fixture F;
  TmpDir tmp("c07");
  json c;
  std::string proj_note; // triage aid (not an oracle of this property), see prepare_fixture
  {
    DataOpts dopt;
    dopt.start_zero_fraction = c_in["start_zeros"].get<bool>() ? 0.15 : 0.;
    const std::string rej = prepare_fixture(c_in, c, F, tmp.path, MAX_Z, dopt, proj_note);
    if (!rej.empty())
      return Result::reject(rej);
  }
  const Cfg k = decode(c, F);
  if (!balanced(F.vg_per_subset))
    return Result::reject("unbalanced subsets (OSMAPOSL::set_up calls error())");
  const int n = k.n_sub;

  // ---------------- run A ----------------
  Run A;
  {
    bool rej;
    const std::string msg = run_recon(F, k, tmp.path + "/A", image_from_vec(F, F.start), 1, A, &rej);
    if (rej)
      return Result::reject("run A " + msg);
    VF_CHECK(msg.empty(), "run A: ", msg);
  }
  std::vector<std::vector<double>> lam(std::size_t(n) + 1);
  lam[0] = F.start;
  bool lifted0 = false;
  if (k.enforce)
    lam[0] = lift_initial(F.start, lifted0);
  for (int j = 1; j <= n; ++j)
    lam[std::size_t(j)] = image_vec(F, *A.iter[std::size_t(j)]);
  {
    const std::vector<double> fin = image_vec(F, *A.final_in_memory);
    VF_CHECK(fin == lam[std::size_t(n)], "the image returned by reconstruct() differs from the last saved iterate");
  }

  // (2) non-negativity (all configurations), and finiteness
  for (int j = 1; j <= n; ++j)
    for (std::size_t v = 0; v < lam[std::size_t(j)].size(); ++v)
      VF_CHECK(std::isfinite(lam[std::size_t(j)][v]) && lam[std::size_t(j)][v] >= 0., "iterate ", j, " has value ", lam[std::size_t(j)][v], " at voxel ", v);

  shared_ptr<GeneralisedPrior<target_type>> ref_prior = make_prior(F, k.prior);
  if (ref_prior)
    ref_prior->set_up(F.image);
  const bool formula = k.filter == 0;
  bool any_cap = false, any_ambiguous = false, any_relclamp = false;
  if (formula)
    {
      // (1)/(5) every update against the documented formula, one step at a time from the previous SAVED iterate
      for (int j = 1; j <= n; ++j)
        {
          const StepRef r = ref_step(F, k, lam[std::size_t(j - 1)], j, ref_prior.get());
          any_cap |= r.fl.cap_active;
          any_relclamp |= r.relclamp;
          if (r.fl.ambiguous)
            {
              any_ambiguous = true;
              stats().count("steps not asserted: value inside the rounding band of a documented threshold");
              continue;
            }
          if (r.clamp_lo)
            stats().count("MAP steps with the lower denominator bound active");
          if (r.clamp_hi)
            stats().count("MAP steps with the upper denominator bound active");
          // tolerance: float forward/back projection vs double. Observed maxima over 8 seeds x ~1300 cases: EM 1.3e-5, MAP 9.0e-5
          // (denominator = prior gradient/N + s with cancellation down to the documented floor s/10 amplifies the float error of
          // the sensitivity tenfold); asserted 2e-4 / 1e-3 of the image maximum (a wrong factor, index or bound is O(1e-1))
          const Result res
              = compare_images(k.prior.kind ? "one-step-late MAP update" : "EM update", lam[std::size_t(j)], r.next, &r.skip, k.prior.kind ? 1e-3 : 2e-4,
                               k.prior.kind ? "max rel err MAP update" : "max rel err EM update",
                               cat("(sub-iteration ", j, ", subset ", (j + k.start_subset - 1) % k.N, " of ", k.N, ")", proj_note));
          if (res.failed())
            return res;
          stats().count("update steps checked by formula");
        }
    }
  const bool plain_em = formula && k.prior.kind == 0 && !k.relchange && !any_cap && !any_ambiguous;
  // (3) one subset: the reference log-likelihood never decreases
  if (plain_em && k.N == 1)
    {
      double prev = loglik(F, lam[0]);
      for (int j = 1; j <= n; ++j)
        {
          const double L = loglik(F, lam[std::size_t(j)]);
          stats().maxi("max relative log-likelihood decrease (N=1)", std::max(0., (prev - L) / std::max(1., std::fabs(L))));
          VF_CHECK(L >= prev - 1e-6 * std::max(1., std::fabs(L)), "log-likelihood decreased at iteration ", j, ": ", prev, " -> ", L);
          prev = L;
        }
      stats().cls("monotonicity checked (N=1)");
    }
  // (4) one subset, no additive term: sum_v s_v lambda'_v = sum of the counts in bins that see the image
  if (plain_em && k.N == 1 && !F.use_add)
    {
      for (int j = 1; j <= n; ++j)
        {
          const std::vector<double> pl = F.P.forward(lam[std::size_t(j - 1)]);
          double total = 0, weighted = 0;
          for (std::size_t b = 0; b < pl.size(); ++b)
            if (pl[b] > 0)
              total += F.y[b];
          for (std::size_t v = 0; v < F.sens_total.size(); ++v)
            weighted += F.sens_total[v] * lam[std::size_t(j)][v];
          if (total > 0)
            stats().maxi("max rel err count preservation", std::fabs(weighted - total) / total);
          VF_CHECK(std::fabs(weighted - total) <= 1e-4 * total, "sensitivity-weighted image sum ", weighted, " != total measured counts ", total,
                   " after full-data update ", j);
        }
      stats().cls("count preservation checked (N=1, a=0)");
    }

  // ---------------- (6) restart at every k ----------------
  long compared = 0;
  for (int kk = 1; kk < n; ++kk)
    {
      const std::vector<double>& lk = lam[std::size_t(kk)];
      bool has_zero = false, zero_inside = false;
      for (std::size_t v = 0; v < lk.size(); ++v)
        if (lk[v] == 0.)
          {
            has_zero = true;
            if (F.sens_total[v] > 0)
              zero_inside = true;
          }
      // soundness (DESIGN C07): enforce_initial_positivity lifts exact zeros of the INITIAL image of the resumed run; an
      // uninterrupted run keeps them.  Equality is demanded when nothing is lifted, or when the lifted voxels cannot
      // influence anything (never seen by any bin, no prior/filter/relative-change floor: they are multiplied by 0 again).
      const bool lifting = k.enforce && has_zero;
      const bool lifting_harmless = lifting && !zero_inside && k.prior.kind == 0 && k.filter == 0 && !k.relchange;
      Run B;
      bool rej;
      shared_ptr<target_type> start_img = read_image(F, cat(tmp.path, "/A_", kk, ".hv"));
      const std::string msg = run_recon(F, k, cat(tmp.path, "/B", kk), start_img, kk + 1, B, &rej);
      VF_CHECK(msg.empty(), "resumed run (start at sub-iteration ", kk + 1, ") failed: ", msg);
      if (!lifting || lifting_harmless)
        {
          for (int j = kk + 1; j <= n; ++j)
            {
              const Result res = compare_images("restart", image_vec(F, *B.iter[std::size_t(j)]), lam[std::size_t(j)], nullptr, 1e-6, "max rel diff restart",
                                                cat("(resumed at sub-iteration ", kk + 1, " from the image saved after ", kk, ", iterate ", j, " of ", n, ", N=", k.N, ")"));
              if (res.failed())
                return res;
            }
          ++compared;
          if (kk % k.N != 0)
            stats().count("restarts compared at k not a multiple of N");
          if (lifting_harmless)
            stats().count("restarts compared with lifted never-seen voxels");
        }
      else if (formula)
        {
          // documented behaviour of the option: the resumed run starts from the lifted image -> its first update is checked by formula
          bool ch;
          const std::vector<double> lifted = lift_initial(lk, ch);
          const StepRef r = ref_step(F, k, lifted, kk + 1, ref_prior.get());
          if (!r.fl.ambiguous)
            {
              const Result res = compare_images("first update of the resumed run (initial zeros lifted as documented)", image_vec(F, *B.iter[std::size_t(kk + 1)]),
                                                r.next, &r.skip, k.prior.kind ? 1e-3 : 2e-4, "max rel err first update after restart with lifting",
                                                cat("(resumed at sub-iteration ", kk + 1, ", N=", k.N, ")"));
              if (res.failed())
                return res;
            }
          stats().count("restarts with documented lifting of zeros: first update checked by formula instead");
        }
      else
        stats().count("restarts with documented lifting of zeros and filters: positivity only");
      for (int j = kk + 1; j <= n; ++j)
        {
          const std::vector<double> b = image_vec(F, *B.iter[std::size_t(j)]);
          for (std::size_t v = 0; v < b.size(); ++v)
            VF_CHECK(std::isfinite(b[v]) && b[v] >= 0., "resumed run (from ", kk, "): iterate ", j, " has value ", b[v], " at voxel ", v);
        }
    }
  stats().count("restarts compared with run A", compared);
  stats().count("restarts run", n - 1);

  // classes
  stats().cls(k.N == 1 ? "N=1" : (k.N <= 4 ? "N=2-4" : "N>=5"));
  stats().cls(cat("prior ", k.prior.kind == 0 ? "none" : (k.prior.kind == 1 ? "quadratic" : "RDP"), k.prior.kind ? (k.multiplicative ? " multiplicative" : " additive") : ""));
  if (k.prior.kappa && k.prior.kind)
    stats().cls("prior with kappa");
  stats().cls(k.filter == 0 ? "filter none" : (k.filter == 1 ? "inter-update filter" : "inter-iteration filter"));
  if (F.use_add)
    stats().cls("additive term");
  if (F.use_norm)
    stats().cls("normalisation");
  if (!k.use_subsens)
    stats().cls("use_subset_sensitivities off");
  if (!k.enforce)
    stats().cls("enforce_initial_positivity off");
  if (k.relchange)
    stats().cls(any_relclamp ? "relative-change limits set and active" : "relative-change limits set");
  if (lifted0)
    stats().cls("start image with zeros lifted");
  if (c["start_zeros"].get<bool>() && !k.enforce)
    stats().cls("start image with zeros kept");
  if (any_cap)
    stats().cls("quotient cap active (reference implements it)");
  if (k.start_subset != 0)
    stats().cls("start subset != 0");
  int symbits = 0;
  for (int b = 0; b < 5; ++b)
    symbits += F.sym[b];
  stats().cls(symbits == 0 ? "projector symmetries off" : (symbits == 5 ? "projector symmetries all" : "projector symmetries some"));
  stats().cls(cat("iterations ", c["iters"].get<int>()));
  stats().cls(F.reference_with_case_switches ? "reference matrix: fresh cache-free matrix with the case's symmetry switches (ray-tracing ties)"
                                             : "reference matrix: symmetry-free cache-free");
  if (F.header_rounded)
    stats().cls("grid rounded by the Interfile header (case runs on the rounded grid)");
  return Result::pass();
}

json
gen(Src& s, int size)
{
  json c;
  gen_geometry(s, size, c);
  std::vector<int> bal;
  try
    {
      bal = balanced_subsets(c, MAX_Z);
    }
  catch (...)
    {
      bal = { 1 };
    }
  // every balanced number of subsets; N = 1 is always balanced and gets extra weight for clauses (3)/(4)
  std::vector<int> bal_gt1(bal.begin() + (bal.size() > 1 ? 1 : 0), bal.end());
  c["subsets"] = s.chance(1, 3) ? 1 : s.pick(bal_gt1);
  const int N = c["subsets"].get<int>();
  c["start_subset"] = s.chance(1, 3) ? int(s.range(0, 23)) : 0;
  int iters = int(s.range(1, 3));
  while (iters > 1 && iters * N > 36)
    --iters; // budget: the restart clause costs n^2/2 sub-iterations
  c["iters"] = iters;
  c["use_add"] = s.coin();
  c["use_norm"] = s.coin();
  c["use_subsens"] = s.chance(3, 4);
  c["count_max"] = s.pick(std::vector<double>{ 8., 40., 200., 2000. });
  c["ymode"] = s.chance(2, 3) ? 0 : 1;
  c["start_scale"] = s.pick(std::vector<double>{ 0.3, 1., 1., 3. });
  c["start_zeros"] = s.chance(1, 8);
  c["prior"] = s.chance(1, 2) ? 0 : int(s.range(1, 2));
  c["beta_exp"] = s.real(-2.5, 1.5);
  c["kappa"] = s.chance(1, 3);
  c["map_mult"] = s.coin();
  c["rdp_gamma"] = s.pick(std::vector<double>{ 0., 1., 2. });
  c["rdp_eps"] = s.pick(std::vector<double>{ 0.01, 0.1, 1. });
  c["filter"] = s.chance(3, 4) ? 0 : int(s.range(1, 2));
  c["filter_interval"] = int(s.range(1, std::max(1, N)));
  c["fwhm_rel"] = s.pick(std::vector<double>{ 0.8, 1.5, 2.5 });
  c["enforce"] = s.coin();
  c["relchange"] = s.chance(1, 6);
  c["minrc"] = s.pick(std::vector<double>{ 0., 0.25, 0.5, 0.9 });
  c["maxrc"] = s.pick(std::vector<double>{ 1.1, 1.5, 2., 10. });
  return c;
}

bool
nontrivial(const json& c)
{
  return c["subsets"].get<int>() > 1 || c["use_add"].get<bool>() || c["use_norm"].get<bool>() || c["prior"].get<int>() != 0;
}

} // namespace

const Property&
the_property()
{
  static Property p;
  p.id = "C07";
  p.gen = gen;
  p.check = check;
  p.nontrivial = nontrivial;
  return p;
}

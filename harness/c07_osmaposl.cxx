// C07 - OSMAPOSL sub-iterations follow the EM update and are restartable.
// One case = small generated geometry with explicit P (double), data generated from the reference model, one
// reconstruction configuration.  Run A performs sub-iterations 1..n through OSMAPOSLReconstruction::reconstruct(),
// saving every iterate (float Interfile).  Oracles on run A: (1) per-voxel EM formula, (2) non-negativity,
// (3) N=1: monotone reference log-likelihood, (4) N=1, a=0: count preservation, (5) one-step-late MAP update with
// the documented denominator bounds.  (6) restart: for EVERY k a FRESH reconstruction object (fresh objective
// function, matrix, normalisation, prior, filters) resumes at sub-iteration k+1 from the file saved after k.
// Extensions: (2') inter-update / inter-iteration filters WITH NEGATIVE LOBES (Metz power 1..3, edge-enhancing separable
// convolutions) besides the Gaussian, each with its own generated interval, none / one / both: every iterate must stay
// non-negative (STIR chains both filters with a positivity threshold); at sub-iterations where no filter is due the
// unfiltered formula (1)/(5) must hold, where one is due the iterate must equal threshold(filter(.)) computed with a
// separately constructed filter object.  (6') object-reuse histories (c07_recon_common.h, "hist"): resumes on the SAME
// reconstruction object, a second run on the same object after every parameter was changed through the setters, and an
// objective function used by an OSSPS object before.
// (5') the one-step-late clause uses the harness's OWN prior gradient (OwnPrior in c07_recon_common.h: quadratic prior and RDP
// from the class documentation, c09_ref.h), the gradient of a prior object is a statistic only.
// (7) file-based stages ("files" = 1 setters / 2 parsed parameter texts + zero-argument reconstruct()): run A is stage 1 - its
// objective function WRITES the sensitivities it computed ('sensitivity filename' / 'subset sensitivity filenames'); (7a) the
// files read back with read_from_file equal the explicit-P sensitivity (total, per subset); (7b) for EVERY k stage 2 = NEW
// objects that read the image saved after k AND the sensitivities from those files ('recompute sensitivity' off) and start at
// sub-iteration k+1: its iterates equal run A's and its first update satisfies the formula with the harness's own sensitivities.
#include "c07_recon_common.h"
#include "stir/OSMAPOSL/OSMAPOSLReconstruction.h"
#include "stir/OSSPS/OSSPSReconstruction.h"

using namespace vf;
using namespace stir;
using namespace rc7;

namespace {

const int MAX_Z = 7;

struct Cfg
{
  int N, start_subset, n_sub;
  bool use_subsens;
  PriorSpec prior;
  bool multiplicative = false;
  FilterSpec fu, fi; // inter-update, inter-iteration
  bool any_filter() const { return fu.on() || fi.on(); }
  bool enforce = true;
  bool relchange = false;
  double minrc = 0, maxrc = 0;
  bool other_img = false; // set_up() with ANOTHER image object of the same characteristics than the one given to reconstruct()
  // domain audit (AUD_E): 'save estimates at subiteration intervals' of THIS run (the checked run always saves every iterate: the
  // step-by-step formula check needs them); save_b = the interval the resumed runs of the case use.  IterativeReconstruction::set_up
  // calls error() for an interval outside [1, number of sub-iterations]; files are due where j % interval == 0 and at the last one.
  int save_interval = 1, save_b = 1;
  bool file_due(int j) const { return j % save_interval == 0 || j == n_sub; }
  bool beta_zero = false; // a prior object is set, its penalisation factor is exactly 0
};

// documented in OSMAPOSLReconstruction::set_up: enforce_initial_positivity lifts non-positive values of the INITIAL
// image to (smallest positive value)*1e-6 (threshold_min_to_small_positive_value, thresholding.h)
std::vector<double>
lift_initial(const std::vector<double>& lam, bool& changed)
{
  changed = false;
  float minpos = 0;
  for (double v : lam)
    if (v > 0 && (minpos == 0 || float(v) < minpos))
      minpos = float(v);
  std::vector<double> out = lam;
  if (minpos > 0)
    {
      const float thr = minpos * 0.000001F;
      for (auto& v : out)
        if (float(v) < thr)
          {
            v = thr;
            changed = true;
          }
    }
  else
    {
      for (auto& v : out)
        v = double(0.000001F);
      changed = true;
    }
  return out;
}

struct StepRef
{
  std::vector<double> next, upd; // upd: the multiplicative update image (after the relative-change limits)
  std::vector<char> skip; // voxels inside the rounding band of a documented threshold
  RefFlags fl;
  bool clamp_lo = false, clamp_hi = false, relclamp = false;
};

//! the documented update of OSMAPOSLReconstruction::update_estimate in double on the explicit P
StepRef
ref_step(const Fixture& F, const Cfg& k, const std::vector<double>& lam, int subiter, const OwnPrior& own, GeneralisedPrior<target_type>* prior_object)
{
  StepRef r;
  const std::size_t nv = lam.size();
  const int S = (subiter + k.start_subset - 1) % k.N; // documented in IterativeReconstruction::get_subset_num
  const std::vector<double> den = model_den(F, lam);
  const std::vector<double> q = quotient(F, F.y, den, r.fl);
  const std::vector<double> num = back_subset(F, q, S);
  std::vector<double> s(nv);
  for (std::size_t v = 0; v < nv; ++v)
    s[v] = k.use_subsens ? F.sens_subset[std::size_t(S)][v] : F.sens_total[v] / double(k.N);
  r.next.assign(nv, 0.);
  r.skip.assign(nv, 0);
  std::vector<double> upd(nv, 0.);
  // AUD_E: a prior object with penalisation factor exactly 0 IS "no prior" (GeneralisedObjectiveFunction::prior_is_zero(): "no prior or
  // penalisation factor 0"): the statement's formula is then lambda * num / s for every voxel with s > 0, however small s is (first
  // version of this sub-domain applied the division threshold of the MAP branch, 0 where numerator and denominator are both below
  // 1e-6 x the maximum: a false alarm of the reference, STIR returns num / s there)
  if (!own.on || k.beta_zero)
    {
      for (std::size_t v = 0; v < nv; ++v)
        upd[v] = (num[v] == 0. && s[v] == 0.) ? 0. : num[v] / s[v]; // divide(..., small_num = 0)
    }
  else
    {
      // the harness's own gradient of the documented prior (double); the gradient of a separately constructed prior object
      // is only recorded (C09 decides the prior classes; here it must not be the oracle)
      const std::vector<double> g = own.gradient(lam);
      if (prior_object)
        {
          shared_ptr<target_type> lam_img = image_from_vec(F, lam);
          shared_ptr<target_type> g_img(lam_img->get_empty_copy());
          prior_object->compute_gradient(*g_img, *lam_img);
          prior_object_statistic(k.prior.kind == 1 ? "statistic: max rel diff gradient of a QuadraticPrior object vs the harness's own"
                                                   : "statistic: max rel diff gradient of a RelativeDifferencePrior object vs the harness's own",
                                 image_vec(F, *g_img), g);
        }
      const double sv = std::max(vmax(num) * 1e-6, 0.); // divide(..., small_num = 1e-6): 0 where |num| and |den| <= 1e-6 max(num)
      for (std::size_t v = 0; v < nv; ++v)
        {
          double d;
          if (!k.multiplicative)
            {
              d = g[v] / double(k.N) + s[v];
              if (d > 10. * s[v])
                {
                  d = 10. * s[v];
                  r.clamp_hi = true;
                }
              if (d < s[v] / 10.)
                {
                  d = s[v] / 10.;
                  if (s[v] > 0)
                    r.clamp_lo = true;
                }
            }
          else
            {
              d = g[v] + 1.;
              if (d > 10.)
                {
                  d = 10.;
                  r.clamp_hi = true;
                }
              if (d < 0.1)
                {
                  d = 0.1;
                  r.clamp_lo = true;
                }
              d *= s[v];
            }
          const double big = std::max(std::fabs(d), std::fabs(num[v]));
          if (sv > 0 && big > 0.9 * sv && big < 1.1 * sv)
            r.skip[v] = 1;
          upd[v] = (std::fabs(d) <= sv && std::fabs(num[v]) <= sv) ? 0. : num[v] / d;
        }
    }
  if (subiter != 1)
    { // documented: the relative-change limits are applied for sub-iteration != 1
      for (auto& u : upd)
        {
          if (u > k.maxrc)
            {
              u = k.maxrc;
              r.relclamp = true;
            }
          else if (k.minrc > u)
            {
              u = k.minrc;
              if (k.minrc > 0)
                r.relclamp = true;
            }
        }
    }
  for (std::size_t v = 0; v < nv; ++v)
    r.next[v] = lam[v] * upd[v];
  r.upd = upd;
  return r;
}

//! The documented result of sub-iteration `subiter` from the image `lam`, filters included:
//!  * inter-update filter due (subiter a multiple of its interval; "subiteration interval at which to apply inter-update
//!    filters", OSMAPOSLReconstruction.h): the update image is computed from the UNFILTERED image, the image is filtered
//!    and thresholded to positive values, then multiplied (OSMAPOSLReconstruction::update_estimate; Jacobson et al.'s IUF);
//!  * inter-iteration filter due: the updated image is filtered and thresholded (IterativeReconstruction::
//!    end_of_iteration_processing, before the iterate is saved);
//!  * neither due: exactly the unfiltered update.
struct Expected
{
  StepRef step;
  std::vector<double> image;
  bool due_u = false, due_i = false;
  bool threshold_active = false; // a filter produced values below the positivity threshold
  double gain = 1;               // error amplification bound of the filters applied in this step
  double scale = 0;              // magnitude the tolerance refers to
};

Expected
expected_iterate(const Fixture& F, const Cfg& k, const std::vector<double>& lam, int subiter, const OwnPrior& own, GeneralisedPrior<target_type>* prior_object,
                 double gain_u, double gain_i)
{
  Expected e;
  e.step = ref_step(F, k, lam, subiter, own, prior_object);
  e.image = e.step.next;
  e.scale = vmax(e.image);
  e.due_u = k.fu.on() && subiter % k.fu.interval == 0;
  e.due_i = k.fi.on() && subiter % k.fi.interval == 0;
  if (e.due_u)
    {
      const Filtered f = apply_filter_reference(F, k.fu, lam);
      e.threshold_active |= f.threshold_active;
      for (std::size_t v = 0; v < lam.size(); ++v)
        e.image[v] = f.image[v] * e.step.upd[v];
      e.gain *= std::max(1., gain_u);
      e.scale = std::max(e.scale, vmax(e.image));
    }
  if (e.due_i)
    {
      const Filtered f = apply_filter_reference(F, k.fi, e.image);
      e.threshold_active |= f.threshold_active;
      e.image = f.image;
      e.gain *= std::max(1., gain_i);
      e.scale = std::max(e.scale, vmax(e.image));
    }
  return e;
}

Cfg
decode(const json& c, const Fixture& F)
{
  Cfg k;
  k.N = c["subsets"].get<int>();
  k.start_subset = c["start_subset"].get<int>() % k.N;
  k.n_sub = c["iters"].get<int>() * k.N;
  k.other_img = c.value("other_img", false);
  k.use_subsens = c["use_subsens"].get<bool>();
  k.prior.kind = c["prior"].get<int>();
  k.prior.kappa = c["kappa"].get<bool>();
  k.prior.kseed = c["dseed"].get<uint64_t>() ^ 0xabcdefULL;
  k.prior.kzero = c.value("kzero", 0); // exact zeros in the kappa image (c07_recon_common.h make_kappa_image)
  k.prior.rdp_gamma = float(c["rdp_gamma"].get<double>());
  k.prior.rdp_eps = float(c["rdp_eps"].get<double>());
  k.multiplicative = c["map_mult"].get<bool>();
  if (c.contains("filt_u") || c.contains("filt_i"))
    {
      k.fu = decode_filter(c.value("filt_u", json()), F);
      k.fi = decode_filter(c.value("filt_i", json()), F);
    }
  else
    {
      // cases written before the filter extension: "filter" 0 none, 1 inter-update, 2 inter-iteration separable Gaussian
      json g;
      g["kind"] = 1;
      g["interval"] = c["filter_interval"].get<int>();
      g["fwhm_rel"] = c["fwhm_rel"].get<double>();
      const int filter = c["filter"].get<int>();
      if (filter == 1)
        k.fu = decode_filter(g, F);
      else if (filter == 2)
        k.fi = decode_filter(g, F);
    }
  k.n_sub = c.value("n_sub", k.n_sub); // a number of sub-iterations, not of full iterations (first runs of a history; AUD_E: runs ending inside an iteration)
  k.save_b = std::max(1, std::min(c.value("save_b", 1), k.n_sub));
  k.beta_zero = c.value("beta_zero", false);
  k.enforce = c["enforce"].get<bool>();
  k.relchange = c["relchange"].get<bool>();
  k.minrc = k.relchange ? c["minrc"].get<double>() : 0.;
  k.maxrc = k.relchange ? c["maxrc"].get<double>() : double(std::numeric_limits<float>::max());
  if (k.prior.kind != 0)
    {
      // penalisation factor relative to the scale of the problem so that the documented clamps are sometimes active
      double mean_s = 0, mean_l = 0;
      long cnt = 0;
      for (std::size_t v = 0; v < F.sens_total.size(); ++v)
        if (F.sens_total[v] > 0)
          {
            mean_s += F.sens_total[v];
            ++cnt;
          }
      mean_s = cnt ? mean_s / double(cnt) : 1.;
      for (double v : F.start)
        mean_l += v;
      mean_l = mean_l > 0 ? mean_l / double(F.start.size()) : 1.;
      const double rel = std::pow(10., c["beta_exp"].get<double>());
      k.prior.beta = float(k.multiplicative ? rel / mean_l : rel * mean_s / mean_l);
      if (k.beta_zero)
        k.prior.beta = 0.F; // legal (GeneralisedPrior: penalisation factor, no lower bound documented; 0 = prior switched off)
    }
  return k;
}

struct Run
{
  std::vector<shared_ptr<target_type>> iter; // iter[j] = image after sub-iteration j (j = start..n)
  shared_ptr<target_type> final_in_memory;
};

//! one OSMAPOSL object together with the objective function it uses and what that objective function is configured as
struct Osl
{
  shared_ptr<OSMAPOSLReconstruction<target_type>> recon;
  shared_ptr<objective_type> obj;
  ObjSpec ospec;
};

//! configuration of a FRESH reconstruction object (the calls of the original harness, in their order)
void
configure_fresh(OSMAPOSLReconstruction<target_type>& recon, const Cfg& k, const std::string& prefix, int start)
{
  recon.set_num_subsets(k.N);
  recon.set_num_subiterations(k.n_sub);
  recon.set_start_subiteration_num(start);
  recon.set_start_subset_num(k.start_subset);
  recon.set_save_interval(k.save_interval);
  recon.set_randomise_subset_order(false);
  recon.set_output_filename_prefix(prefix);
  recon.set_output_file_format_ptr(float_interfile());
  recon.set_enforce_initial_positivity(k.enforce);
  if (k.prior.kind != 0)
    recon.set_MAP_model(k.multiplicative ? "multiplicative" : "additive");
  if (k.relchange)
    {
      recon.set_maximum_relative_change(k.maxrc);
      recon.set_minimum_relative_change(k.minrc);
    }
  if (k.fu.on())
    {
      recon.set_inter_update_filter_ptr(make_filter(k.fu));
      recon.set_inter_update_filter_interval(k.fu.interval);
    }
  if (k.fi.on())
    {
      recon.set_inter_iteration_filter_ptr(make_filter(k.fi));
      recon.set_inter_iteration_filter_interval(k.fi.interval);
    }
}

//! re-configuration of a reconstruction object that has been used: EVERY parameter through its public setter, also those
//! that go back to the default (relative-change limits max float / 0, filter interval 0 and a null filter)
void
configure_used(OSMAPOSLReconstruction<target_type>& recon, const Cfg& k, const std::string& prefix, int start)
{
  recon.set_num_subsets(k.N);
  recon.set_num_subiterations(k.n_sub);
  recon.set_start_subiteration_num(start);
  recon.set_start_subset_num(k.start_subset);
  recon.set_save_interval(k.save_interval);
  recon.set_randomise_subset_order(false);
  recon.set_output_filename_prefix(prefix);
  recon.set_enforce_initial_positivity(k.enforce);
  if (k.prior.kind != 0)
    recon.set_MAP_model(k.multiplicative ? "multiplicative" : "additive");
  recon.set_maximum_relative_change(k.maxrc); // k.maxrc / k.minrc hold the defaults when the limits are not set
  recon.set_minimum_relative_change(k.minrc);
  recon.set_inter_update_filter_ptr(k.fu.on() ? make_filter(k.fu) : shared_ptr<DataProcessor<target_type>>());
  recon.set_inter_update_filter_interval(k.fu.on() ? k.fu.interval : 0);
  recon.set_inter_iteration_filter_ptr(k.fi.on() ? make_filter(k.fi) : shared_ptr<DataProcessor<target_type>>());
  recon.set_inter_iteration_filter_interval(k.fi.on() ? k.fi.interval : 0);
}

//! set_up + reconstruct + read every saved iterate back
//! returns "" or a message; *setup_rejected is set when set_up (not the iterations) refused the configuration
std::string
execute(OSMAPOSLReconstruction<target_type>& recon, const Fixture& F, const Cfg& k, const std::string& prefix, const shared_ptr<target_type>& target, int start,
        Run& out, bool* setup_rejected)
{
  *setup_rejected = false;
  StdoutSilencer quiet(k.fu.kind == 2 || k.fi.kind == 2);
  try
    {
      // Reconstruction::reconstruct(target): "set_up() has to be called before" with an image of the same characteristics (check()); round 4:
      // with k.other_img the two are DIFFERENT objects (set_up may change the values of its image - the initial positivity threshold -, so
      // its values are copied to the image that is reconstructed).  Every file saved during the run must hold the iterate, not set_up's image.
      shared_ptr<target_type> setup_image = target;
      if (k.other_img)
        setup_image.reset(target->clone());
      if (recon.set_up(setup_image) != Succeeded::yes)
        {
          *setup_rejected = true;
          return "set_up returned Succeeded::no";
        }
      if (k.other_img)
        {
          std::copy(setup_image->begin_all(), setup_image->end_all(), target->begin_all());
          stats().count("runs with set_up(image A) and reconstruct(image B)");
        }
    }
  catch (const stir_verif::AssertionFailure&)
    {
      throw;
    }
  catch (const std::exception& e)
    {
      *setup_rejected = true;
      return std::string("set_up: ") + e.what();
    }
  if (recon.reconstruct(target) != Succeeded::yes)
    return "reconstruct returned Succeeded::no";
  out.iter.assign(std::size_t(k.n_sub) + 1, shared_ptr<target_type>());
  for (int j = start; j <= k.n_sub; ++j)
    if (k.file_due(j)) // 'save estimates at subiteration intervals': multiples of the interval and the last sub-iteration
      out.iter[std::size_t(j)] = read_image(F, cat(prefix, "_", j, ".hv"));
  out.final_in_memory = target;
  return "";
}

//! one reconstruction with FRESH objects, sub-iterations start..n, every iterate saved and read back
//! `keep`: receives the objects (for histories that go on using them)
std::string
run_recon(const Fixture& F, const Cfg& k, const std::string& prefix, const shared_ptr<target_type>& target, int start, Run& out, bool* setup_rejected,
          Osl* keep = nullptr, const SensFiles* write_sensitivities = nullptr)
{
  Osl o;
  o.recon.reset(new OSMAPOSLReconstruction<target_type>);
  o.ospec = final_objspec(F, k.prior, k.use_subsens);
  o.obj = make_objective(F, k.prior, k.use_subsens);
  if (write_sensitivities) // stage 1 of the file-based stages
    set_sensitivity_files_for_writing(*o.obj, *write_sensitivities, k.use_subsens);
  o.recon->set_objective_function_sptr(o.obj);
  configure_fresh(*o.recon, k, prefix, start);
  if (keep)
    *keep = o;
  return execute(*o.recon, F, k, prefix, target, start, out, setup_rejected);
}

//! resume on an object that has already run: only what a user changes for a resume (start sub-iteration, output prefix)
std::string
resume_same_object(Osl& o, const Fixture& F, const Cfg& k, const std::string& prefix, const shared_ptr<target_type>& target, int start, Run& out,
                   bool* setup_rejected)
{
  o.recon->set_start_subiteration_num(start);
  o.recon->set_output_filename_prefix(prefix);
  o.recon->set_save_interval(k.save_interval);
  return execute(*o.recon, F, k, prefix, target, start, out, setup_rejected);
}

//! every parameter of the reconstruction object that has a keyword, as a parameter text (filters and the output file format are
//! objects: setters); 'initial estimate' makes the zero-argument reconstruct() read the start image itself
std::string
parameter_text(const Cfg& k, const std::string& prefix, const std::string& initial_estimate, int start)
{
  std::stringstream par;
  par << "OSMAPOSLParameters :=\n"
      << "number of subsets := " << k.N << "\n"
      << "number of subiterations := " << k.n_sub << "\n"
      << "start at subiteration number := " << start << "\n"
      << "start at subset := " << k.start_subset << "\n"
      << "save estimates at subiteration intervals := " << k.save_interval << "\n"
      << "uniformly randomise subset order := 0\n"
      << "initial estimate := " << initial_estimate << "\n"
      << "output filename prefix := " << prefix << "\n"
      << "enforce initial positivity condition := " << (k.enforce ? 1 : 0) << "\n";
  if (k.prior.kind != 0)
    par << "MAP_model := " << (k.multiplicative ? "multiplicative" : "additive") << "\n";
  if (k.relchange)
    par << "maximum relative change := " << fmt17(k.maxrc) << "\n"
        << "minimum relative change := " << fmt17(k.minrc) << "\n";
  if (k.fu.on())
    par << "inter-update filter subiteration interval := " << k.fu.interval << "\n";
  if (k.fi.on())
    par << "inter-iteration filter subiteration interval := " << k.fi.interval << "\n";
  par << "End :=\n";
  return par.str();
}

//! stage 2 of the file-based stages: NEW objects; the objective function READS the sensitivities stage 1 wrote ('recompute
//! sensitivity' off), the reconstruction starts at sub-iteration `start` from the image file `start_file`.
//! files = 1: setters, image read by the harness (as IterativeReconstruction::get_initial_data_ptr does) and passed to
//! set_up()/reconstruct(target);  files = 2: parameter texts + zero-argument reconstruct() ('initial estimate').
std::string
run_recon_files(const Fixture& F, const Cfg& k, const std::string& prefix, const std::string& start_file, int start, Run& out, const SensFiles& sf, int files)
{
  Osl o;
  o.recon.reset(new OSMAPOSLReconstruction<target_type>);
  o.obj = make_objective_reading_sensitivities(F, k.prior, k.use_subsens, sf, files);
  o.recon->set_objective_function_sptr(o.obj);
  if (files != 2)
    {
      configure_fresh(*o.recon, k, prefix, start);
      bool rej;
      const std::string msg = execute(*o.recon, F, k, prefix, read_image(F, start_file), start, out, &rej);
      return msg;
    }
  o.recon->set_output_file_format_ptr(float_interfile());
  if (k.fu.on())
    o.recon->set_inter_update_filter_ptr(make_filter(k.fu));
  if (k.fi.on())
    o.recon->set_inter_iteration_filter_ptr(make_filter(k.fi));
  {
    std::stringstream par(parameter_text(k, prefix, start_file, start));
    if (!o.recon->parse(par))
      return "parsing the OSMAPOSL parameter text failed";
  }
  StdoutSilencer quiet(k.fu.kind == 2 || k.fi.kind == 2);
  try
    {
      if (o.recon->reconstruct() != Succeeded::yes)
        return "the zero-argument reconstruct() returned Succeeded::no";
    }
  catch (const stir_verif::AssertionFailure&)
    {
      throw;
    }
  catch (const std::exception& e)
    {
      return std::string("the zero-argument reconstruct(): ") + e.what();
    }
  out.iter.assign(std::size_t(k.n_sub) + 1, shared_ptr<target_type>());
  for (int j = start; j <= k.n_sub; ++j)
    if (k.file_due(j)) // 'save estimates at subiteration intervals': multiples of the interval and the last sub-iteration
      out.iter[std::size_t(j)] = read_image(F, cat(prefix, "_", j, ".hv"));
  out.final_in_memory.reset();
  return "";
}

Result
compare_images(const char* what, const std::vector<double>& got, const std::vector<double>& want, const std::vector<char>* skip, double tol,
               const std::string& stat_key, const std::string& ctx, double scale_override = 0)
{
  const double scale = scale_override > 0 ? scale_override : vmax(want);
  double worst = 0;
  std::size_t where = 0;
  for (std::size_t v = 0; v < want.size(); ++v)
    {
      if (skip && (*skip)[v])
        continue;
      const double d = std::fabs(got[v] - want[v]);
      if (!(d <= worst))
        {
          worst = d;
          where = v;
        }
    }
  if (scale > 0 && !stat_key.empty())
    stats().maxi(stat_key, worst / scale);
  VF_CHECK(worst <= tol * scale || (scale == 0 && worst == 0), what, ": |diff|=", worst, " at voxel ", where, " (got ", got[where], ", expected ", want[where],
           "), max expected ", scale, " ", ctx);
  return Result::pass();
}

//! (1)/(5)/(2') one saved iterate against the documented result of its sub-iteration from the previous saved iterate.
//! Tolerances: float forward/back projection vs double. Observed maxima over 8 seeds x ~1300 cases: EM 1.3e-5, MAP 9.0e-5
//! (denominator = prior gradient/N + s with cancellation down to the documented floor s/10 amplifies the float error of the
//! sensitivity tenfold); asserted 2e-4 / 1e-3 of the image maximum (a wrong factor, index or bound is O(1e-1)).  Where a filter
//! is due the bound is multiplied by the l1 norm of the filter's impulse response (the amplification of the float error of the
//! update by the filter; 1 for the Gaussian, <= 27 for the kernel (-0.5,2,-0.5) in three directions); a missing, doubled or
//! misplaced filter application changes the image by O(1).
//! *asserted is false when the step lies inside the rounding band of a documented threshold.
Result
check_step(const Fixture& F, const Cfg& k, const Expected& e, const std::vector<double>& got, int j, const std::string& what_run, bool* asserted,
           const std::string& stat_key_override = std::string())
{
  *asserted = false;
  bool any_skip = false;
  for (char c : e.step.skip)
    any_skip |= c != 0;
  if (e.step.fl.ambiguous || ((e.due_u || e.due_i) && any_skip))
    {
      stats().count("steps not asserted: value inside the rounding band of a documented threshold");
      return Result::pass();
    }
  const bool filtered = e.due_u || e.due_i;
  const double base = k.prior.kind ? 1e-3 : 2e-4;
  const char* what = filtered ? (k.prior.kind ? "one-step-late MAP update with the filter(s) due at this sub-iteration and the positivity threshold"
                                              : "EM update with the filter(s) due at this sub-iteration and the positivity threshold")
                              : (k.any_filter() ? (k.prior.kind ? "one-step-late MAP update at a sub-iteration where no filter is due"
                                                                : "EM update at a sub-iteration where no filter is due")
                                                : (k.prior.kind ? "one-step-late MAP update" : "EM update"));
  std::string key = stat_key_override;
  if (key.empty())
    {
      if (filtered)
        key = k.prior.kind ? "max rel err MAP update, filter due (in units of the filter gain)" : "max rel err EM update, filter due (in units of the filter gain)";
      else if (k.any_filter())
        key = k.prior.kind ? "max rel err MAP update, run with filters, no filter due" : "max rel err EM update, run with filters, no filter due";
      else
        key = k.prior.kind ? (k.beta_zero ? "max rel err update with a prior object of penalisation factor 0 (EM formula)" : "max rel err MAP update") : "max rel err EM update";
    }
  // statistics in units of the allowed amplification, so that the calibration of the base tolerance is visible
  std::vector<double> g = got, w = e.image;
  const Result res = compare_images(what, g, w, filtered ? nullptr : &e.step.skip, base * e.gain, filtered ? std::string() : key,
                                    cat("(", what_run, "sub-iteration ", j, ", subset ", (j + k.start_subset - 1) % k.N, " of ", k.N,
                                        e.due_u ? cat(", inter-update filter kind ", k.fu.kind, " interval ", k.fu.interval) : std::string(),
                                        e.due_i ? cat(", inter-iteration filter kind ", k.fi.kind, " interval ", k.fi.interval) : std::string(), ")"),
                                    filtered ? e.scale : 0.);
  if (filtered && e.scale > 0)
    {
      double worst = 0;
      for (std::size_t v = 0; v < w.size(); ++v)
        worst = std::max(worst, std::fabs(g[v] - w[v]));
      stats().maxi(key, worst / e.scale / e.gain);
    }
  if (res.failed())
    return res;
  *asserted = true;
  if (filtered)
    stats().count(e.threshold_active ? "filtered steps checked, positivity threshold active" : "filtered steps checked, positivity threshold inactive");
  else if (k.any_filter())
    stats().count("steps of runs with filters where no filter is due, checked by the unfiltered formula");
  return Result::pass();
}

Result
check(const json& c_in)
{
  Fixture F;
  TmpDir tmp("c07");
  json c;
  std::string proj_note; // triage aid (not an oracle of this property), see prepare_fixture
  {
    DataOpts dopt;
    dopt.start_zero_fraction = c_in["start_zeros"].get<bool>() ? 0.15 : 0.;
    const std::string rej = prepare_fixture(c_in, c, F, tmp.path, MAX_Z, dopt, proj_note);
    if (!rej.empty())
      return Result::reject(rej);
  }
  const Cfg k = decode(c, F);
  if (!balanced(F.vg_per_subset))
    return Result::reject("unbalanced subsets (OSMAPOSL::set_up calls error())");
  const int n = k.n_sub;
  const int hist = c.value("hist", int(HIST_FRESH));
  const json hj = c.value("h", json::object());
  const std::string hnote = hist == HIST_FRESH ? std::string() : cat("[history: ", hist_name(hist), "] ");
  // file-based stages (clause 7): only with fresh objects for every run; 1 = setters, 2 = parsed texts + reconstruct()
  const int files = hist == HIST_FRESH ? c.value("files", 0) : 0;
  const SensFiles sf(tmp.path);

  // ---------------- run A (the checked run) ----------------
  Run A;
  Osl R; // the objects of run A
  if (hist == HIST_FRESH || hist == HIST_SAME_OBJECT_RESUME)
    {
      bool rej;
      const std::string msg = run_recon(F, k, tmp.path + "/A", image_from_vec(F, F.start), 1, A, &rej, &R, files ? &sf : nullptr);
      if (rej)
        return Result::reject("run A " + msg);
      VF_CHECK(msg.empty(), "run A: ", msg);
      if (files)
        {
          // (7a) the files stage 1 wrote, read back with read_from_file, against the explicit-P sensitivity
          const Result res = check_sensitivity_files(F, sf, k.use_subsens, k.N, proj_note);
          if (res.failed())
            return res;
        }
    }
  else if (hist == HIST_SECOND_RUN)
    {
      // first run: other settings (cfg0: the same keys as the case, overriding) on other data; its results are not asserted
      const json cfg0 = hj.value("cfg0", json::object());
      json c0 = c;
      for (auto& el : cfg0.items())
        c0[el.key()] = el.value();
      const Cfg k0 = decode(c0, F);
      const AltData alt = make_alt_data(F, c["dseed"].get<uint64_t>());
      ObjSpec o0 = final_objspec(F, k0.prior, k0.use_subsens);
      o0.data = hj.value("data0", 0);
      o0.add = hj.value("add0", o0.add);
      o0.norm = hj.value("norm0", o0.norm);
      // soundness: OSMAPOSL::set_up calls error() for unbalanced subsets; the generator draws the first run's number of
      // subsets from the balanced ones, a hand-written case that does not is rejected
      if (!balanced_number_of_subsets(F, k0.N))
        return Result::reject("first run of the history: unbalanced subsets (OSMAPOSL::set_up calls error())");
      R.recon.reset(new OSMAPOSLReconstruction<target_type>);
      R.ospec = o0;
      R.obj = make_objective_spec(F, o0, alt);
      R.recon->set_objective_function_sptr(R.obj);
      configure_fresh(*R.recon, k0, tmp.path + "/P", 1);
      {
        Run P;
        bool rej;
        const std::string msg = execute(*R.recon, F, k0, tmp.path + "/P", image_from_vec(F, F.start), 1, P, &rej);
        if (rej)
          return Result::reject("first run of the history " + msg);
        VF_CHECK(msg.empty(), "first run of the history: ", msg);
      }
      // now the settings of the case, through the setters
      const ObjSpec o1 = final_objspec(F, k.prior, k.use_subsens);
      reconfigure_objective(*R.obj, F, o0, o1, alt);
      R.ospec = o1;
      configure_used(*R.recon, k, tmp.path + "/A", 1);
      bool rej;
      const std::string msg = execute(*R.recon, F, k, tmp.path + "/A", image_from_vec(F, F.start), 1, A, &rej);
      VF_CHECK(!rej && msg.empty(), hnote, "run A (second run of the object) failed: ", msg);
      stats().count("second runs on a used OSMAPOSL object");
    }
  else
    {
      // the objective function is first used by an OSSPS object (which needs a prior with a parabolic surrogate or none:
      // OSSPSReconstruction::set_up returns Succeeded::no otherwise, so an RDP prior is set afterwards through set_prior_sptr)
      const AltData alt = make_alt_data(F, c["dseed"].get<uint64_t>());
      const ObjSpec o1 = final_objspec(F, k.prior, k.use_subsens);
      ObjSpec o0 = o1;
      if (o0.prior.kind == 2)
        o0.prior.kind = 0;
      R.obj = make_objective_spec(F, o0, alt);
      {
        OSSPSReconstruction<target_type> pre;
        pre.set_objective_function_sptr(R.obj);
        pre.set_output_filename_prefix(tmp.path + "/P");
        pre.set_output_file_format_ptr(float_interfile());
        const int N0 = hj.value("subsets0", k.N);
        if (!k.use_subsens && !balanced_number_of_subsets(F, N0))
          return Result::reject("first run of the history: unbalanced subsets without subset sensitivities (set_up calls error())");
        pre.set_num_subsets(N0);
        pre.set_num_subiterations(hj.value("n_sub0", 1));
        pre.set_save_interval(hj.value("n_sub0", 1));
        shared_ptr<target_type> t = image_from_vec(F, F.start);
        bool ok = false;
        try
          {
            ok = pre.set_up(t) == Succeeded::yes;
          }
        catch (const stir_verif::AssertionFailure&)
          {
            throw;
          }
        catch (const std::exception& e)
          {
            return Result::reject(std::string("first run of the history (OSSPS) set_up: ") + e.what());
          }
        if (!ok)
          return Result::reject("first run of the history (OSSPS): set_up returned Succeeded::no");
        VF_CHECK(pre.reconstruct(t) == Succeeded::yes, "first run of the history (OSSPS): reconstruct returned Succeeded::no");
      }
      reconfigure_objective(*R.obj, F, o0, o1, alt);
      R.ospec = o1;
      R.recon.reset(new OSMAPOSLReconstruction<target_type>);
      R.recon->set_objective_function_sptr(R.obj);
      configure_fresh(*R.recon, k, tmp.path + "/A", 1);
      bool rej;
      const std::string msg = execute(*R.recon, F, k, tmp.path + "/A", image_from_vec(F, F.start), 1, A, &rej);
      VF_CHECK(!rej && msg.empty(), hnote, "run A (objective function used by OSSPS before) failed: ", msg);
      stats().count("runs on an objective function used by an OSSPS object before");
    }
  std::vector<std::vector<double>> lam(std::size_t(n) + 1);
  lam[0] = F.start;
  bool lifted0 = false;
  if (k.enforce)
    lam[0] = lift_initial(F.start, lifted0);
  for (int j = 1; j <= n; ++j)
    lam[std::size_t(j)] = image_vec(F, *A.iter[std::size_t(j)]);
  {
    const std::vector<double> fin = image_vec(F, *A.final_in_memory);
    VF_CHECK(fin == lam[std::size_t(n)], hnote, "the image returned by reconstruct() differs from the last saved iterate");
  }

  // (2) non-negativity (all configurations, in particular filters with negative lobes: STIR chains the inter-update and the
  // inter-iteration filter with a positivity threshold), and finiteness
  for (int j = 1; j <= n; ++j)
    for (std::size_t v = 0; v < lam[std::size_t(j)].size(); ++v)
      VF_CHECK(std::isfinite(lam[std::size_t(j)][v]) && lam[std::size_t(j)][v] >= 0., hnote, "iterate ", j, " has value ", lam[std::size_t(j)][v], " at voxel ", v,
               k.any_filter() ? cat(" (inter-update filter kind ", k.fu.kind, " interval ", k.fu.interval, ", inter-iteration filter kind ", k.fi.kind, " interval ",
                                    k.fi.interval, "; kinds: 1 Gaussian, 2 Metz, 3 separable convolution)")
                              : std::string());

  // the oracle of clause (5) is the harness's own prior; a separately constructed prior object only feeds a statistic
  const OwnPrior own_prior = make_own_prior(F, k.prior);
  shared_ptr<GeneralisedPrior<target_type>> ref_prior = make_prior(F, k.prior);
  if (ref_prior)
    ref_prior->set_up(F.image);
  std::vector<Expected> expected(std::size_t(n) + 1);
  const double gain_u = k.fu.on() ? filter_gain(F, k.fu) : 1., gain_i = k.fi.on() ? filter_gain(F, k.fi) : 1.;
  bool any_cap = false, any_ambiguous = false, any_relclamp = false, any_threshold = false;
  {
    // (1)/(5)/(2') every update against the documented result, one step at a time from the previous SAVED iterate
    for (int j = 1; j <= n; ++j)
      {
        expected[std::size_t(j)] = expected_iterate(F, k, lam[std::size_t(j - 1)], j, own_prior, ref_prior.get(), gain_u, gain_i);
        const Expected& e = expected[std::size_t(j)];
        any_cap |= e.step.fl.cap_active;
        any_relclamp |= e.step.relclamp;
        any_threshold |= e.threshold_active;
        if (e.step.clamp_lo)
          stats().count("MAP steps with the lower denominator bound active");
        if (e.step.clamp_hi)
          stats().count("MAP steps with the upper denominator bound active");
        bool asserted;
        const Result res = check_step(F, k, e, lam[std::size_t(j)], j, hnote + proj_note, &asserted);
        if (res.failed())
          return res;
        if (asserted)
          stats().count("update steps checked by formula");
        else
          any_ambiguous = true;
      }
  }
  const bool plain_em = !k.any_filter() && k.prior.kind == 0 && !k.relchange && !any_cap && !any_ambiguous;
  // (3) one subset: the reference log-likelihood never decreases
  if (plain_em && k.N == 1)
    {
      double prev = loglik(F, lam[0]);
      for (int j = 1; j <= n; ++j)
        {
          const double L = loglik(F, lam[std::size_t(j)]);
          stats().maxi("max relative log-likelihood decrease (N=1)", std::max(0., (prev - L) / std::max(1., std::fabs(L))));
          VF_CHECK(L >= prev - 1e-6 * std::max(1., std::fabs(L)), hnote, "log-likelihood decreased at iteration ", j, ": ", prev, " -> ", L);
          prev = L;
        }
      stats().cls("monotonicity checked (N=1)");
    }
  // (4) one subset, no additive term: sum_v s_v lambda'_v = sum of the counts in bins that see the image
  if (plain_em && k.N == 1 && !F.use_add)
    {
      for (int j = 1; j <= n; ++j)
        {
          const std::vector<double> pl = F.P.forward(lam[std::size_t(j - 1)]);
          double total = 0, weighted = 0;
          for (std::size_t b = 0; b < pl.size(); ++b)
            if (pl[b] > 0)
              total += F.y[b];
          for (std::size_t v = 0; v < F.sens_total.size(); ++v)
            weighted += F.sens_total[v] * lam[std::size_t(j)][v];
          if (total > 0)
            stats().maxi("max rel err count preservation", std::fabs(weighted - total) / total);
          VF_CHECK(std::fabs(weighted - total) <= 1e-4 * total, hnote, "sensitivity-weighted image sum ", weighted, " != total measured counts ", total,
                   " after full-data update ", j);
        }
      stats().cls("count preservation checked (N=1, a=0)");
    }

  // ---------------- (6') histories 2 and 3: a run with FRESH objects and the settings of the case reproduces run A ----------------
  if (hist == HIST_SECOND_RUN || hist == HIST_SHARED_OBJECTIVE)
    {
      Run B0;
      bool rej;
      const std::string msg = run_recon(F, k, tmp.path + "/B0", image_from_vec(F, F.start), 1, B0, &rej);
      VF_CHECK(!rej && msg.empty(), "run with fresh objects failed although the run on used objects succeeded: ", msg);
      for (int j = 1; j <= n; ++j)
        {
          const Result res = compare_images("run on used objects vs run on freshly configured objects", lam[std::size_t(j)], image_vec(F, *B0.iter[std::size_t(j)]),
                                            nullptr, 1e-6, "max rel diff used objects vs fresh objects", cat(hnote, "(iterate ", j, " of ", n, ", N=", k.N, ")"));
          if (res.failed())
            return res;
        }
      stats().count("runs on used objects compared with a run on fresh objects");
    }

  // ---------------- (6) restart at every k ----------------
  // hist 0: fresh objects; hist 1-3: the same reconstruction object again.  Histories 2 and 3 resume at a sample of the
  // interruption points unless "k_all" (thorough tier): the fresh full run above already costs a run.
  std::vector<int> ks;
  if (hist == HIST_FRESH || hist == HIST_SAME_OBJECT_RESUME || hj.value("k_all", false))
    for (int kk = 1; kk < n; ++kk)
      ks.push_back(kk);
  else if (n > 1)
    for (const auto& p : hj.value("k_pick", std::vector<int>{ 0, 1 }))
      {
        const int kk = 1 + (((p % (n - 1)) + (n - 1)) % (n - 1));
        if (std::find(ks.begin(), ks.end(), kk) == ks.end())
          ks.push_back(kk);
      }
  long compared = 0;
  // kinds of resumed runs: 0 fresh objects that recompute their sensitivities, 1 the same reconstruction object again,
  // 2 file-based stage 2 (fresh objects that read image AND sensitivities from the files of stage 1).  In a files case the
  // file-based resume replaces the recomputing one (same cost); "files_both" (thorough tier) runs both.
  std::vector<int> kinds;
  if (hist != HIST_FRESH)
    kinds.push_back(1);
  else
    {
      if (files)
        kinds.push_back(2);
      if (!files || c.value("files_both", false))
        kinds.push_back(0);
    }
  for (int kk : ks)
    for (int kind : kinds)
      {
        const std::vector<double>& lk = lam[std::size_t(kk)];
        bool has_zero = false, zero_inside = false;
        for (std::size_t v = 0; v < lk.size(); ++v)
          if (lk[v] == 0.)
            {
              has_zero = true;
              if (F.sens_total[v] > 0)
                zero_inside = true;
            }
        // soundness (DESIGN C07): enforce_initial_positivity lifts exact zeros of the INITIAL image of the resumed run; an
        // uninterrupted run keeps them.  Equality is demanded when nothing is lifted, or when the lifted voxels cannot
        // influence anything (never seen by any bin, no prior/filter/relative-change floor: they are multiplied by 0 again).
        const bool lifting = k.enforce && has_zero;
        const bool lifting_harmless = lifting && !zero_inside && k.prior.kind == 0 && !k.any_filter() && !k.relchange;
        Run B;
        bool rej = false;
        const std::string start_file = cat(tmp.path, "/A_", kk, ".hv");
        const std::string bprefix = cat(tmp.path, kind == 2 ? "/F" : "/B", kk);
        const std::string how = kind == 0 ? ", fresh objects"
                                          : (kind == 1 ? ", on the object that has run before"
                                                       : (files == 2 ? ", NEW objects reading image and sensitivities from files (parsed parameter texts, reconstruct())"
                                                                     : ", NEW objects reading image and sensitivities from files (setters)"));
        // AUD_E: the resumed runs save at the interval of the case (the checked run at every sub-iteration): the files that are due -
        // multiples of the interval and the last sub-iteration - must hold the iterates of the uninterrupted run
        Cfg kb = k;
        kb.save_interval = k.save_b;
        const std::string msg = kind == 0 ? run_recon(F, kb, bprefix, read_image(F, start_file), kk + 1, B, &rej)
                                          : (kind == 1 ? resume_same_object(R, F, kb, bprefix, read_image(F, start_file), kk + 1, B, &rej)
                                                       : run_recon_files(F, kb, bprefix, start_file, kk + 1, B, sf, files));
        const bool first_saved = msg.empty() && bool(B.iter[std::size_t(kk + 1)]);
        if (msg.empty() && kb.save_interval > 1)
          stats().count("resumed runs with a save interval > 1");
        VF_CHECK(msg.empty(), hnote, "resumed run (start at sub-iteration ", kk + 1, how, ") failed: ", msg);
        if (kind == 1)
          stats().count("resumes on the same reconstruction object");
        if (kind == 2)
          stats().count(files == 2 ? "file-based resumes (image and sensitivities from files): parsed parameter texts + reconstruct()"
                                   : "file-based resumes (image and sensitivities from files): setters");
        if (!lifting || lifting_harmless)
          {
            for (int j = kk + 1; j <= n; ++j)
              {
                if (!B.iter[std::size_t(j)])
                  continue; // not due at the save interval of the resumed run
                const Result res = compare_images(kind == 2 ? "restart through files" : "restart", image_vec(F, *B.iter[std::size_t(j)]), lam[std::size_t(j)], nullptr, 1e-6,
                                                  kind == 2 ? "max rel diff restart through files (image and sensitivities read)" : "max rel diff restart",
                                                  cat(hnote, "(resumed at sub-iteration ", kk + 1, " from the image saved after ", kk, ", iterate ", j, " of ", n, ", N=", k.N,
                                                      kind == 2 ? (k.use_subsens ? ", 'subset sensitivity filenames'" : ", 'sensitivity filename'") : "", how, ")"));
                if (res.failed())
                  return res;
              }
            ++compared;
            if (kk % k.N != 0)
              stats().count("restarts compared at k not a multiple of N");
            if (lifting_harmless)
              stats().count("restarts compared with lifted never-seen voxels");
            if (kind == 2 && !lifting && first_saved)
              {
                // (7b) the first update of the run that READ its sensitivities: the formula with the harness's own sensitivities
                // (decides the clause without reference to run A's arithmetic; same tolerance as clause (1)/(5))
                bool asserted;
                const Result res = check_step(F, k, expected[std::size_t(kk + 1)], image_vec(F, *B.iter[std::size_t(kk + 1)]), kk + 1,
                                              cat(hnote, "first update of a run whose objective function read its sensitivities from file", how, "; "), &asserted,
                                              k.prior.kind ? "max rel err MAP update, first update after reading the sensitivities from file"
                                                           : "max rel err EM update, first update after reading the sensitivities from file");
                if (res.failed())
                  return res;
                if (asserted)
                  stats().count("first updates of file-based resumes checked by formula");
              }
          }
        else if (first_saved)
          {
            // documented behaviour of the option: the resumed run starts from the lifted image -> its first update is checked by formula
            bool ch;
            const std::vector<double> lifted = lift_initial(lk, ch);
            const Expected e = expected_iterate(F, k, lifted, kk + 1, own_prior, nullptr, gain_u, gain_i);
            bool asserted;
            const Result res = check_step(F, k, e, image_vec(F, *B.iter[std::size_t(kk + 1)]), kk + 1,
                                          cat(hnote, "first update of the resumed run, initial zeros lifted as documented; resumed at sub-iteration ", kk + 1, how, "; "), &asserted,
                                          "max rel err first update after restart with lifting");
            if (res.failed())
              return res;
            stats().count("restarts with documented lifting of zeros: first update checked by formula instead");
          }
        for (int j = kk + 1; j <= n; ++j)
          {
            if (!B.iter[std::size_t(j)])
              continue;
            const std::vector<double> b = image_vec(F, *B.iter[std::size_t(j)]);
            for (std::size_t v = 0; v < b.size(); ++v)
              VF_CHECK(std::isfinite(b[v]) && b[v] >= 0., hnote, "resumed run (from ", kk, how, "): iterate ", j, " has value ", b[v], " at voxel ", v);
          }
      }
  stats().count("restarts compared with run A", compared);
  stats().count("restarts run", long(ks.size() * kinds.size()));

  // classes
  stats().cls(cat("history: ", hist_name(hist)));
  if (files)
    {
      stats().cls(files == 2 ? "file-based stages: stage 2 through parsed parameter texts and the zero-argument reconstruct()" : "file-based stages: stage 2 through the setters");
      stats().cls(k.use_subsens ? (k.N > 1 ? "file-based stages: 'subset sensitivity filenames', N > 1" : "file-based stages: 'subset sensitivity filenames', N = 1")
                                : (k.N > 1 ? "file-based stages: 'sensitivity filename' (total), N > 1" : "file-based stages: 'sensitivity filename' (total), N = 1"));
      if (n > 1)
        stats().cls("file-based stages with at least one resume");
    }
  stats().cls(k.N == 1 ? "N=1" : (k.N <= 4 ? "N=2-4" : "N>=5"));
  stats().cls(cat("prior ", k.prior.kind == 0 ? "none" : (k.prior.kind == 1 ? "quadratic" : "RDP"), k.prior.kind ? (k.multiplicative ? " multiplicative" : " additive") : ""));
  if (k.prior.kappa && k.prior.kind)
    stats().cls("prior with kappa");
  if (k.prior.kappa && k.prior.kind && k.prior.kzero != 0)
    stats().cls(k.prior.kzero == 1 ? "kappa exactly 0 in voxels no bin sees" : "kappa exactly 0 in voxels no bin sees and in others");
  if (k.prior.kind && k.beta_zero)
    stats().cls("prior object with penalisation factor exactly 0");
  if (k.prior.kind == 2 && k.prior.rdp_eps == 0.F)
    stats().cls("RDP with epsilon = 0 (the class default)");
  if (n % k.N != 0)
    stats().cls("run ends inside a full iteration (number of sub-iterations not a multiple of N)");
  if (k.save_b > 1 && n > 1)
    stats().cls(k.save_b >= n ? "resumed runs save only the last sub-iteration" : "resumed runs save at an interval > 1");
  stats().cls(!k.any_filter() ? "filter none" : (k.fu.on() && k.fi.on() ? "inter-update and inter-iteration filter" : (k.fu.on() ? "inter-update filter" : "inter-iteration filter")));
  if (k.fu.on() && k.fu.negative_lobes())
    stats().cls("inter-update filter with negative lobes");
  if (k.fi.on() && k.fi.negative_lobes())
    stats().cls(k.fu.on() ? "inter-iteration filter with negative lobes" : "inter-iteration filter with negative lobes, inter-update filter off");
  if (any_threshold)
    stats().cls("a filter produced non-positive values in the checked run (positivity threshold active)");
  for (const FilterSpec* f : { &k.fu, &k.fi })
    if (f->on())
      stats().cls(f->kind == 1 ? "filter kind Gaussian" : (f->kind == 2 ? "filter kind Metz" : "filter kind separable convolution"));
  if ((k.fu.on() && k.fu.interval > 1) || (k.fi.on() && k.fi.interval > 1))
    stats().cls("filter interval > 1");
  if (F.use_add)
    stats().cls("additive term");
  if (F.use_norm)
    stats().cls("normalisation");
  if (!k.use_subsens)
    stats().cls("use_subset_sensitivities off");
  if (!k.enforce)
    stats().cls("enforce_initial_positivity off");
  if (k.relchange)
    stats().cls(any_relclamp ? "relative-change limits set and active" : "relative-change limits set");
  if (lifted0)
    stats().cls("start image with zeros lifted");
  if (c["start_zeros"].get<bool>() && !k.enforce)
    stats().cls("start image with zeros kept");
  if (any_cap)
    stats().cls("quotient cap active (reference implements it)");
  if (k.start_subset != 0)
    stats().cls("start subset != 0");
  int symbits = 0;
  for (int b = 0; b < 5; ++b)
    symbits += F.sym[b];
  stats().cls(symbits == 0 ? "projector symmetries off" : (symbits == 5 ? "projector symmetries all" : "projector symmetries some"));
  stats().cls(cat("iterations ", c["iters"].get<int>()));
  stats().cls(F.reference_with_case_switches ? "reference matrix: fresh cache-free matrix with the case's symmetry switches (ray-tracing ties)"
                                             : "reference matrix: symmetry-free cache-free");
  if (F.header_rounded)
    stats().cls("grid rounded by the Interfile header (case runs on the rounded grid)");
  return Result::pass();
}

json
gen(Src& s, int size)
{
  json c;
  gen_geometry(s, size, c);
  std::vector<int> bal;
  try
    {
      bal = balanced_subsets(c, MAX_Z);
    }
  catch (...)
    {
      bal = { 1 };
    }
  // every balanced number of subsets; N = 1 is always balanced and gets extra weight for clauses (3)/(4)
  std::vector<int> bal_gt1(bal.begin() + (bal.size() > 1 ? 1 : 0), bal.end());
  c["subsets"] = s.chance(1, 3) ? 1 : s.pick(bal_gt1);
  const int N = c["subsets"].get<int>();
  c["start_subset"] = s.chance(1, 3) ? int(s.range(0, 23)) : 0;
  int iters = int(s.range(1, 3));
  while (iters > 1 && iters * N > 36)
    --iters; // budget: the restart clause costs n^2/2 sub-iterations
  c["iters"] = iters;
  // AUD_E: a fifth of the runs with N > 1 end INSIDE a full iteration ("number of subiterations" is any number >= 1:
  // IterativeReconstruction::set_up only calls error() below 1), so the last interruption points lie in an incomplete iteration
  if (N > 1 && s.chance(1, 5))
    c["n_sub"] = iters * N - int(s.range(1, N - 1));
  // AUD_E: save interval of the RESUMED runs (the checked run saves every iterate); clipped to the number of sub-iterations in decode()
  // (set_up calls error() above it); 36 >= every run length = "only the last sub-iteration is saved"
  c["save_b"] = s.chance(2, 3) ? 1 : int(s.pick(std::vector<int>{ 2, 3, 5, 36 }));
  c["use_add"] = s.coin();
  c["use_norm"] = s.coin();
  c["use_subsens"] = s.chance(3, 4);
  c["count_max"] = s.pick(std::vector<double>{ 8., 40., 200., 2000. });
  c["ymode"] = s.chance(2, 3) ? 0 : 1;
  c["start_scale"] = s.pick(std::vector<double>{ 0.3, 1., 1., 3. });
  c["start_zeros"] = s.chance(1, 8);
  c["prior"] = s.chance(1, 2) ? 0 : int(s.range(1, 2));
  c["beta_exp"] = s.real(-2.5, 1.5);
  c["kappa"] = s.chance(1, 3);
  // AUD_E: exact zeros in the kappa image (legal: QuadraticPrior.h / RelativeDifferencePrior.h put no lower bound on kappa; the usual recipe
  // kappa = sqrt(-approximate Hessian x 1) is 0 in every voxel no bin sees): the penalty share of such a voxel vanishes, the update there is pure EM
  c["kzero"] = s.pick(std::vector<int>{ 0, 1, 2, 2 });
  // AUD_E: a prior object whose penalisation factor is exactly 0 (1/8 of the prior cases): the one-step-late update degenerates to EM
  c["beta_zero"] = s.chance(1, 8);
  c["map_mult"] = s.coin();
  c["rdp_gamma"] = s.pick(std::vector<double>{ 0., 1., 2. });
  // AUD_E: epsilon = 0 is the DEFAULT of RelativeDifferencePrior and documented for the gradient (0/0 at two zero voxels resolved by the limit 0,
  // RelativeDifferencePrior.h; only the Hessian is refused); OSMAPOSL uses the gradient only
  c["rdp_eps"] = s.pick(std::vector<double>{ 0.01, 0.1, 1., 0. });
  // filters: none 10/16, inter-iteration only 3/16 (the inter-update filter stays at its default: off), inter-update only
  // 1/16, both 2/16; each with its own kind (Gaussian / Metz power 1..3 / separable convolution) and interval
  {
    const int fc = int(s.range(0, 15));
    json off;
    off["kind"] = 0;
    c["filt_u"] = fc >= 13 ? gen_filter(s, N) : off;
    c["filt_i"] = (fc >= 10 && fc != 13) ? gen_filter(s, N) : off;
  }
  c["enforce"] = s.coin();
  // AUD_E: the 0/0 limit of the RDP gradient needs two neighbouring exact zeros: half of the RDP cases with epsilon = 0 keep the zeros of the start image
  if (c["prior"].get<int>() == 2 && c["rdp_eps"].get<double>() == 0. && s.coin())
    {
      c["start_zeros"] = true;
      c["enforce"] = false;
    }
  c["other_img"] = s.chance(1, 3);
  c["relchange"] = s.chance(1, 6);
  c["minrc"] = s.pick(std::vector<double>{ 0., 0.25, 0.5, 0.9 });
  c["maxrc"] = s.pick(std::vector<double>{ 1.1, 1.5, 2., 10. });
  // object-reuse histories (c07_recon_common.h): half of the cases use fresh objects for every run, as before
  {
    const int hr = int(s.range(0, 15));
    const int hist = hr < 8 ? HIST_FRESH : (hr < 11 ? HIST_SAME_OBJECT_RESUME : (hr < 14 ? HIST_SECOND_RUN : HIST_SHARED_OBJECTIVE));
    c["hist"] = hist;
    json h = json::object();
    if (hist == HIST_SECOND_RUN)
      {
        // the first run's settings: every parameter is changed with probability 1/2
        json c0 = json::object();
        if (s.coin())
          c0["subsets"] = s.pick(bal); // OSMAPOSL::set_up calls error() for unbalanced subsets
        c0["n_sub"] = int(s.range(1, 3));
        if (s.coin())
          c0["start_subset"] = int(s.range(0, 23));
        if (s.coin())
          c0["use_subsens"] = !c["use_subsens"].get<bool>();
        if (s.coin())
          {
            c0["prior"] = int(s.range(0, 2));
            c0["kappa"] = s.coin();
          }
        if (s.coin())
          c0["beta_exp"] = s.real(-2.5, 1.5);
        if (s.coin())
          c0["map_mult"] = !c["map_mult"].get<bool>();
        if (s.coin())
          {
            json off;
            off["kind"] = 0;
            c0["filt_u"] = s.coin() ? gen_filter(s, 3) : off;
            c0["filt_i"] = s.coin() ? gen_filter(s, 3) : off;
          }
        if (s.coin())
          c0["enforce"] = !c["enforce"].get<bool>();
        if (s.coin())
          {
            c0["relchange"] = !c["relchange"].get<bool>();
            c0["minrc"] = s.pick(std::vector<double>{ 0., 0.25, 0.5, 0.9 });
            c0["maxrc"] = s.pick(std::vector<double>{ 1.1, 1.5, 2., 10. });
          }
        h["cfg0"] = c0;
        h["data0"] = int(s.range(0, 1));                                    // other measured data
        h["add0"] = s.coin() ? (c["use_add"].get<bool>() ? 1 : 0) : int(s.pick(std::vector<int>{ 0, 2 })); // none / the case's / another additive term
        h["norm0"] = s.coin() ? (c["use_norm"].get<bool>() ? 1 : 0) : int(s.pick(std::vector<int>{ 0, 2 }));
      }
    if (hist == HIST_SHARED_OBJECTIVE)
      {
        h["subsets0"] = s.pick(bal); // balanced: admissible for OSSPS with and without subset sensitivities
        h["n_sub0"] = int(s.range(1, 2));
      }
    if (hist == HIST_SECOND_RUN || hist == HIST_SHARED_OBJECTIVE)
      {
        h["k_all"] = size > 75; // thorough tier: every interruption point; quick tier: a sample of two
        h["k_pick"] = std::vector<int>{ int(s.range(0, 35)), int(s.range(0, 35)) };
      }
    c["h"] = h;
  }
  // file-based stages (effective in the fresh-object history): none 1/2, stage 2 through the setters 1/4, through parsed
  // parameter texts + the zero-argument reconstruct() 1/4; in these cases use_subset_sensitivities is off half of the time
  // (the total-sensitivity file is divided by the number of subsets by the READER)
  {
    const int fr = int(s.range(0, 3));
    c["files"] = fr < 2 ? 0 : fr - 1;
    const bool flip = s.chance(1, 3);
    if (fr >= 2 && flip && c["hist"].get<int>() == HIST_FRESH)
      c["use_subsens"] = false;
    c["files_both"] = size > 75; // thorough tier: also the recomputing resume at every k
  }
  return c;
}

bool
nontrivial(const json& c)
{
  return c["subsets"].get<int>() > 1 || c["use_add"].get<bool>() || c["use_norm"].get<bool>() || (c["prior"].get<int>() != 0 && !c.value("beta_zero", false));
}

} // namespace

const Property&
the_property()
{
  static Property p;
  p.id = "C07";
  p.gen = gen;
  p.check = check;
  p.nontrivial = nontrivial;
  return p;
}

// C19 -- Fourier transforms invert and filters are the convolutions they claim to be.
//
// One Case = one sub-property instance ("kind"):
//   0 transforms          fourier / inverse_fourier / fourier_for_real_data / pos_frequencies_to_all, 1-3 D, sign +-1
//   1 conv1d              ArrayFilter1DUsingConvolution (zero / constant boundary) + ...SymmetricKernel
//   2 dftconv             ArrayFilterUsingRealDFTWithPadding<1..3>
//   3 convnd              ArrayFilter2DUsingConvolution / ArrayFilter3DUsingConvolution
//   4 separable           SeparableArrayFunctionObject<3> from three 1-D filters, data axes in all 6 orders
//   5 gauss               SeparableGaussianArrayFilter<3> (also through SeparableGaussianImageFilter with voxel sizes)
//   6 metz                SeparableMetzArrayFilter<3>
//   7 image filter        SeparableConvolutionImageFilter (constructor / setters / parsed)
// Oracles are written from the documentation of the classes (see c19_ref.h, c19_checks_*.h) in double precision.
#include "c19_checks_c.h"
#include "stir/Verbosity.h"

using namespace vf;
using namespace c19;

namespace {

Result
check(const json& c)
{
  stir::Verbosity::set(0);
  const int kind = c.at("kind").get<int>();
  const int D = c.value("d", 3);
  switch (kind)
    {
    case 0:
      return D == 1 ? check_dft<1>(c) : D == 2 ? check_dft<2>(c) : check_dft<3>(c);
    case 1:
      return check_conv1d(c);
    case 2:
      return D == 1 ? check_dftconv<1>(c) : D == 2 ? check_dftconv<2>(c) : check_dftconv<3>(c);
    case 3:
      return D == 2 ? check_convnd<2>(c) : check_convnd<3>(c);
    case 4:
      return check_separable(c);
    case 5:
      return check_gauss(c);
    case 6:
      return check_metz(c);
    case 7:
      return check_sepconv_image(c);
    default:
      return Result::reject("unknown kind");
    }
}

// ---- generators ---------------------------------------------------------------------------
int
scaled(int lo, int hi, int size)
{ // upper bound grows with size
  return lo + (hi - lo) * std::min(100, std::max(0, size)) / 100;
}

json
gen_dft(Src& s, int size)
{
  json c;
  c["kind"] = 0;
  const int D = int(s.range(1, 3));
  c["d"] = D;
  // lengths 2..1024 per axis, product <= 2^16 (domain of the property); large products are rare (O(N n) oracle)
  int budget = int(s.range(D, std::max(D, scaled(6, 16, size))));
  if (s.chance(3, 4))
    budget = std::min(budget, std::max(D, 9));
  json lg = json::array();
  for (int d = 0; d < D; ++d)
    {
      const int rest = D - 1 - d;
      const int l = int(s.range(1, std::min(10, budget - rest)));
      lg.push_back(l);
      budget -= l;
    }
  c["lg"] = lg;
  c["sign"] = s.coin() ? 1 : -1;
  c["real"] = s.coin();
  c["pat"] = s.pick(std::vector<int>{ 0, 0, 0, 1, 1, 2, 3, 4 });
  c["seed"] = s.seed64();
  return c;
}

json
gen_conv1d(Src& s, int size)
{
  json c;
  c["kind"] = 1;
  int klen = s.chance(1, 20) ? 0 : s.chance(1, 6) ? 1 : s.chance(3, 4) ? int(s.range(1, 9)) : int(s.range(1, scaled(12, 48, size)));
  int kmin = s.chance(1, 3) ? -(klen / 2) : s.chance(1, 3) ? 0 : int(s.range(-12, 12));
  int kpat = s.pick(std::vector<int>{ 0, 0, 0, 1, 2, 3, 4 });
  int bc = s.chance(1, 3) ? 1 : 0;
  const bool sym = s.chance(1, 5);
  if (sym)
    {
      if (klen > 0 && klen % 2 == 0)
        ++klen;
      kmin = -(klen / 2);
      kpat = 2;
      bc = 0;
    }
  // domain audit: the documented trivial filter (empty kernel, or the single coefficient 1 at index 0: is_trivial()) has a code
  // path of its own with its own boundary handling; with an output range that leaves the input it was generated in < 0.2 % of the cases
  const bool trivial_steer = !sym && s.chance(1, 16);
  if (trivial_steer)
    {
      klen = s.coin() ? 0 : 1;
      kmin = 0;
      kpat = 3;
      bc = s.coin() ? 1 : 0;
    }
  int dlen = s.chance(1, 5) ? int(s.range(1, 3)) : int(s.range(1, scaled(10, 60, size)));
  if (bc == 0 && s.chance(1, 40))
    dlen = 0;
  const int dmin = s.chance(1, 3) ? 0 : int(s.range(-15, 15));
  c["kmin"] = kmin;
  c["klen"] = klen;
  c["kpat"] = kpat;
  c["kseed"] = s.seed64();
  c["bc"] = bc;
  c["dmin"] = dmin;
  c["dlen"] = dlen;
  c["mode"] = trivial_steer ? 0 : s.coin() ? 1 : 0;
  if (sym || (!trivial_steer && s.chance(1, 3)))
    {
      c["omin"] = dmin;
      c["olen"] = dlen;
    }
  else
    {
      c["omin"] = dmin + int(s.range(-10, 10));
      c["olen"] = s.chance(1, 30) ? 0 : int(s.range(1, dlen + 12));
    }
  c["symfilter"] = sym;
  c["pat"] = s.pick(std::vector<int>{ 0, 0, 1, 2, 3, 4 });
  c["seed"] = s.seed64();
  return c;
}

json
gen_dftconv(Src& s, int size)
{
  json c;
  c["kind"] = 2;
  const int D = s.pick(std::vector<int>{ 1, 1, 1, 2, 2, 3 });
  c["d"] = D;
  const int maxlg = D == 1 ? scaled(5, 10, size) : D == 2 ? scaled(3, 5, size) : 3;
  const bool kfull = s.chance(1, 3);
  const bool aim_noalias = s.chance(1, 2); // steer towards the property's condition (padded length >= 2 x data length, no wrap-around)
  // domain audit: data (and output) on exactly the padding range 0..P-1 take the filter's direct branch (no copy to and from
  // periodic indices); generated in 0.1 % of the cases before
  const bool full_range = !aim_noalias && s.chance(1, 5);
  const bool same_out = aim_noalias || (full_range && s.chance(2, 3)) || (!full_range && s.coin());
  json lgP = json::array(), Kmin = json::array(), a = json::array(), b = json::array(), dmin = json::array(), dlen = json::array(), omin = json::array(),
       olen = json::array();
  for (int d = 0; d < D; ++d)
    {
      const int lg = int(s.range(1, maxlg));
      const int P = 1 << lg;
      lgP.push_back(lg);
      int dl = s.coin() ? int(s.range(1, std::max(1, P / 2))) : int(s.range(1, P));
      if (aim_noalias)
        dl = int(s.range(1, std::max(1, P / 2)));
      int dm = s.chance(1, 3) ? 0 : int(s.range(-P - 2, P + 2));
      if (full_range)
        {
          dl = P;
          dm = 0;
        }
      int km = s.chance(1, 3) ? 0 : s.chance(1, 2) ? -(P / 2) : int(s.range(-P - 3, P + 3));
      int al, bl;
      if (aim_noalias)
        {
          // kernel support inside [-(P-2*dl+1) .. ] so that 2*dl-1 + support fits in P
          const int room = P - (2 * dl - 1); // extra room beyond [-(dl-1), dl-1]
          al = -(dl - 1) - int(s.range(0, std::max(0, room / 2)));
          bl = (dl - 1) + int(s.range(0, std::max(0, room - room / 2)));
          // shrink the support at random (keeps the hull condition)
          al += int(s.range(0, std::max(0, -al)));
          bl -= int(s.range(0, std::max(0, bl)));
          if (al > bl)
            al = bl;
          if (kfull)
            km = -(P / 2); // hull of differences [-(dl-1),dl-1] lies in [-P/2,P/2-1]
        }
      else
        {
          const int kl = int(s.range(1, std::min(P, 9)));
          al = int(s.range(-kl - 1, 2));
          bl = al + kl - 1;
        }
      Kmin.push_back(km);
      a.push_back(al);
      b.push_back(bl);
      dmin.push_back(dm);
      dlen.push_back(dl);
      if (same_out)
        {
          omin.push_back(dm);
          olen.push_back(dl);
        }
      else
        {
          omin.push_back(dm + int(s.range(-P / 2 - 2, P / 2 + 2)));
          olen.push_back(int(s.range(1, P + 3)));
        }
    }
  c["lgP"] = lgP;
  c["Kmin"] = Kmin;
  c["kfull"] = kfull;
  c["a"] = a;
  c["b"] = b;
  c["kpat"] = s.pick(std::vector<int>{ 0, 0, 1, 2, 3, 4 });
  c["kseed"] = s.seed64();
  c["dmin"] = dmin;
  c["dlen"] = dlen;
  c["omin"] = omin;
  c["olen"] = olen;
  c["mode"] = same_out && s.coin() ? 1 : 0;
  c["pat"] = s.pick(std::vector<int>{ 0, 0, 1, 2, 3, 4 });
  c["seed"] = s.seed64();
  return c;
}

json
gen_convnd(Src& s, int size)
{
  json c;
  c["kind"] = 3;
  const int D = s.coin() ? 2 : 3;
  c["d"] = D;
  const bool f1 = s.chance(1, 25); // steer towards kernels with outer range [0,0] and origin element 1 (see f1_class)
  const bool same_out = s.chance(1, 3);
  json kmin = json::array(), klen = json::array(), dmin = json::array(), dlen = json::array(), omin = json::array(), olen = json::array();
  for (int d = 0; d < D; ++d)
    {
      int kl = s.chance(1, 5) ? 1 : int(s.range(1, D == 2 ? scaled(4, 7, size) : scaled(3, 4, size)));
      int km = s.chance(1, 3) ? -(kl / 2) : int(s.range(-4, 3));
      if (f1 && d == 0)
        {
          kl = 1;
          km = 0;
        }
      if (f1 && d > 0)
        km = s.coin() ? 0 : km;
      const int dl = s.chance(1, 6) ? 1 : int(s.range(1, D == 2 ? scaled(6, 14, size) : scaled(4, 7, size)));
      const int dm = s.chance(1, 3) ? 0 : int(s.range(-6, 6));
      kmin.push_back(km);
      klen.push_back(kl);
      dmin.push_back(dm);
      dlen.push_back(dl);
      omin.push_back(same_out ? dm : dm + int(s.range(-4, 4)));
      olen.push_back(same_out ? dl : int(s.range(1, dl + 5)));
    }
  c["kmin"] = kmin;
  c["klen"] = klen;
  c["kpat"] = f1 ? 5 : s.pick(std::vector<int>{ 0, 0, 1, 3, 4, 5 });
  c["kseed"] = s.seed64();
  c["dmin"] = dmin;
  c["dlen"] = dlen;
  c["omin"] = omin;
  c["olen"] = olen;
  c["mode"] = same_out && s.coin() ? 1 : 0;
  c["pat"] = s.pick(std::vector<int>{ 0, 0, 1, 2, 3, 4 });
  c["seed"] = s.seed64();
  return c;
}

void
gen_data3(Src& s, json& c, int maxlen)
{
  json dmin = json::array(), dlen = json::array();
  for (int d = 0; d < 3; ++d)
    {
      dmin.push_back(s.chance(1, 3) ? 0 : int(s.range(-7, 7)));
      dlen.push_back(s.chance(1, 8) ? 1 : int(s.range(1, maxlen)));
    }
  c["dmin"] = dmin;
  c["dlen"] = dlen;
  c["mode"] = s.coin() ? 1 : 0;
  c["seed"] = s.seed64();
}

json
gen_axis_filter(Src& s, bool allow_sym)
{
  json f;
  const int type = s.pick(std::vector<int>{ 0, 0, 0, 0, 1, 2 });
  f["type"] = (type == 1 && !allow_sym) ? 0 : type;
  const int kl = s.chance(1, 6) ? 1 : int(s.range(1, 7));
  f["klen"] = kl;
  f["kmin"] = s.chance(1, 3) ? -(kl / 2) : int(s.range(-4, 2));
  f["kpat"] = s.pick(std::vector<int>{ 0, 0, 1, 3, 4 });
  f["kseed"] = s.seed64();
  f["bc"] = s.chance(1, 4) ? 1 : 0;
  return f;
}

json
gen_separable(Src& s, int size)
{
  json c;
  c["kind"] = 4;
  gen_data3(s, c, scaled(5, 10, size));
  c["f"] = json::array({ gen_axis_filter(s, true), gen_axis_filter(s, true), gen_axis_filter(s, true) });
  c["allnull"] = s.chance(1, 30);
  c["first_index"] = int(s.range(0, 1));
  c["perm"] = int(s.range(0, 5));
  c["all_perms"] = true;
  c["pat"] = s.pick(std::vector<int>{ 0, 0, 1, 2, 3, 4 });
  return c;
}

json
gen_gauss(Src& s, int size)
{
  json c;
  c["kind"] = 5;
  gen_data3(s, c, scaled(8, 16, size));
  json fw = json::array(), vox = json::array(), mk = json::array(), margin = json::array();
  for (int d = 0; d < 3; ++d)
    {
      const double v = s.pick(std::vector<double>{ 1., 1., 2., 0.5, 2.5, 3.125 });
      vox.push_back(v);
      fw.push_back(s.chance(1, 6) ? 0. : v * s.nice_real(0.4, scaled(25, 45, size) / 10.));
      mk.push_back(s.chance(3, 5) ? -1 : int(s.range(1, 12)));
      margin.push_back(int(s.range(0, 6)));
    }
  c["normalise"] = s.chance(3, 4);
  c["via_image"] = s.chance(1, 3);
  // domain audit: (a) no filtering in any direction (every FWHM 0: 0.05 % of the cases before), (b) the constructor overload
  // taking ONE fwhm and ONE max_kernel_size for all directions (never used before)
  if (s.chance(1, 30))
    for (int d = 0; d < 3; ++d)
      fw[d] = 0.;
  const bool scalar_ctor = s.chance(1, 6);
  if (scalar_ctor)
    {
      c["via_image"] = false;
      for (int d = 1; d < 3; ++d)
        {
          vox[d] = vox[0];
          fw[d] = fw[0];
          mk[d] = mk[0];
        }
    }
  c["scalar_ctor"] = scalar_ctor;
  const int pat = s.pick(std::vector<int>{ 0, 1, 2, 5, 5, 5 });
  c["pat"] = pat;
  if (pat == 5 && s.chance(4, 5))
    {
      // constant-region case: make the array large enough to have voxels whose whole kernel support lies in the constant box.
      // The bound on the half length only sizes the array; the oracle measures the support from the impulse response.
      for (int d = 0; d < 3; ++d)
        {
          const double sig = fw[d].get<double>() / vox[d].get<double>() / 2.3548;
          const int mkd = mk[d].get<int>();
          const int lb = sig == 0 ? 0 : mkd > 0 ? mkd / 2 : int(std::ceil(5.3 * sig));
          margin[d] = int(s.range(0, 2)); // random values in a border of this width, constant box inside
          c["dlen"][d] = 2 * margin[d].get<int>() + 2 * lb + int(s.range(1, 3));
        }
    }
  c["fwhm"] = fw;
  c["vox"] = vox;
  c["maxk"] = mk;
  c["margin"] = margin;
  return c;
}

json
gen_metz(Src& s, int size)
{
  json c;
  c["kind"] = 6;
  gen_data3(s, c, scaled(8, 14, size));
  json fw = json::array(), vox = json::array(), mk = json::array(), pw = json::array(), margin = json::array();
  for (int d = 0; d < 3; ++d)
    {
      const double v = s.pick(std::vector<double>{ 1., 1., 2., 0.5, 2.5 });
      vox.push_back(v);
      fw.push_back(s.chance(1, 4) ? 0. : v * (s.chance(1, 8) ? s.nice_real(0.5, 0.9) : s.nice_real(0.9, 4.)));
      pw.push_back(s.pick(std::vector<double>{ 0., 0., 0., 0.5, 1., 2., 3. }));
      mk.push_back(s.chance(2, 3) ? -1 : int(s.range(1, 15)));
      margin.push_back(int(s.range(0, 6)));
    }
  const int pat = s.pick(std::vector<int>{ 0, 1, 2, 5, 5, 5 });
  c["pat"] = pat;
  if (pat == 5 && s.chance(4, 5))
    {
      // constant-region case: wide Gaussians (short kernels) or clipped kernels, array large enough to have interior voxels
      const bool all_power0 = s.coin();
      for (int d = 0; d < 3; ++d)
        {
          const double v = vox[d].get<double>();
          if (fw[d].get<double>() > 0)
            fw[d] = v * s.nice_real(2.6, 4.);
          if (all_power0)
            pw[d] = 0.;
          const int mkd = mk[d].get<int>();
          const int lb = fw[d].get<double>() == 0 ? 0 : mkd > 0 ? mkd / 2 : (pw[d].get<double>() == 0 ? 9 : 16);
          margin[d] = int(s.range(0, 2));
          c["dlen"][d] = 2 * margin[d].get<int>() + 2 * lb + int(s.range(1, 3));
        }
    }
  c["fwhm"] = fw;
  c["vox"] = vox;
  c["power"] = pw;
  c["maxk"] = mk;
  c["margin"] = margin;
  return c;
}

json
gen_sepimage(Src& s, int size)
{
  json c;
  c["kind"] = 7;
  gen_data3(s, c, scaled(5, 9, size));
  const int how = int(s.range(0, 2));
  c["how"] = how;
  json fs = json::array();
  for (int d = 0; d < 3; ++d)
    {
      json f;
      int kl = s.chance(1, 5) ? 0 : int(s.range(1, 6));
      int km = int(s.range(-3, 2));
      if (how == 0 && s.coin())
        { // symmetric ranges for half of the constructor cases
          if (kl % 2 == 0 && kl > 0)
            ++kl;
          km = -(kl / 2);
        }
      f["klen"] = kl;
      f["kmin"] = km;
      f["kpat"] = s.chance(1, 5) ? 3 : 1;
      f["kseed"] = s.seed64();
      fs.push_back(f);
    }
  c["f"] = fs;
  c["first_index"] = int(s.range(0, 1));
  c["per_axis"] = s.coin();
  c["pat"] = s.pick(std::vector<int>{ 0, 0, 1, 2, 3 });
  return c;
}

json
gen(Src& s, int size)
{
  switch (s.pick(std::vector<int>{ 0, 0, 0, 1, 1, 1, 1, 2, 2, 2, 2, 3, 3, 4, 4, 5, 5, 6, 7, 7 }))
    {
    case 0:
      return gen_dft(s, size);
    case 1:
      return gen_conv1d(s, size);
    case 2:
      return gen_dftconv(s, size);
    case 3:
      return gen_convnd(s, size);
    case 4:
      return gen_separable(s, size);
    case 5:
      return gen_gauss(s, size);
    case 6:
      return gen_metz(s, size);
    default:
      return gen_sepimage(s, size);
    }
}

// ---- bounded-exhaustive part: every shape (all power-of-two lengths 2..1024, 1-3 dimensions, product <= 2^16)
//      x sign +-1 x {complex, real} for the transform clauses
const std::vector<std::vector<int>>&
all_shapes()
{
  static const std::vector<std::vector<int>> shapes = [] {
    std::vector<std::vector<int>> v;
    for (int a = 1; a <= 10; ++a)
      v.push_back({ a });
    for (int a = 1; a <= 10; ++a)
      for (int b = 1; b <= 10; ++b)
        if (a + b <= 16)
          v.push_back({ a, b });
    for (int a = 1; a <= 10; ++a)
      for (int b = 1; b <= 10; ++b)
        for (int cc = 1; cc <= 10; ++cc)
          if (a + b + cc <= 16)
            v.push_back({ a, b, cc });
    return v;
  }();
  return shapes;
}

bool
enumerate(uint64_t idx, int tier, json& c)
{
  const auto& sh = all_shapes();
  if (idx >= sh.size() * 4)
    return false;
  const std::vector<int>& l = sh[idx / 4];
  const int variant = int(idx % 4);
  // quick tier: every shape; all 4 (sign, real/complex) variants up to 2^12 elements, one rotating variant for the larger
  // shapes (the O(N n) oracle dominates the cost there); thorough tier: all 4 variants of every shape
  int total = 0;
  for (int e : l)
    total += e;
#if defined(__has_feature)
#  if __has_feature(address_sanitizer)
  // sanitizer flavour (about 10x slower): shapes up to 2^10 elements only; the plain flavour enumerates everything
  if (total > 10)
    {
      c = json();
      return true;
    }
#  endif
#endif
  if (tier == 0 && total > 12 && variant != int((idx / 4) % 4))
    {
      c = json();
      return true;
    }
  c = json::object();
  c["kind"] = 0;
  c["d"] = int(l.size());
  c["lg"] = l;
  c["sign"] = (variant & 1) ? -1 : 1;
  c["real"] = (variant & 2) != 0;
  c["pat"] = 0;
  c["seed"] = idx * 7919ULL + 17;
  return true;
}

std::vector<json>
fixed_cases(int)
{
  std::vector<json> v;
  auto J = [](const char* t) { return json::parse(t); };
  // transforms: impulse at the origin, the smallest and a long 1-D length, real data of length 2 in the last dimension
  v.push_back(J(R"({"kind":0,"d":1,"lg":[1],"sign":1,"real":true,"pat":2,"seed":1})"));
  v.push_back(J(R"({"kind":0,"d":1,"lg":[10],"sign":-1,"real":true,"pat":1,"seed":2})"));
  v.push_back(J(R"({"kind":0,"d":3,"lg":[2,3,1],"sign":-1,"real":true,"pat":0,"seed":3})"));
  v.push_back(J(R"({"kind":0,"d":2,"lg":[4,4],"sign":1,"real":false,"pat":1,"seed":4})"));
  // 1-D convolution: shift kernel of length 1, kernel longer than the data, output larger / smaller, constant boundary
  v.push_back(J(R"({"kind":1,"kmin":1,"klen":1,"kpat":3,"kseed":1,"bc":0,"dmin":-2,"dlen":5,"mode":0,"omin":-5,"olen":12,"symfilter":false,"pat":0,"seed":5})"));
  v.push_back(J(R"({"kind":1,"kmin":-7,"klen":20,"kpat":0,"kseed":2,"bc":1,"dmin":3,"dlen":4,"mode":0,"omin":-3,"olen":16,"symfilter":false,"pat":2,"seed":6})"));
  v.push_back(J(R"({"kind":1,"kmin":0,"klen":1,"kpat":3,"kseed":3,"bc":1,"dmin":0,"dlen":6,"mode":0,"omin":-3,"olen":12,"symfilter":false,"pat":0,"seed":7})"));
  v.push_back(J(R"({"kind":1,"kmin":-3,"klen":7,"kpat":2,"kseed":4,"bc":0,"dmin":10,"dlen":5,"mode":1,"omin":10,"olen":5,"symfilter":true,"pat":0,"seed":8})"));
  v.push_back(J(R"({"kind":1,"kmin":-1,"klen":4,"kpat":0,"kseed":5,"bc":0,"dmin":0,"dlen":9,"mode":0,"omin":2,"olen":3,"symfilter":false,"pat":1,"seed":9})"));
  // padded DFT route: the upstream layout (kernel from 0, wrapped), centred kernel range, P = 2 x data length exactly
  v.push_back(J(R"({"kind":2,"d":1,"lgP":[4],"Kmin":[0],"kfull":false,"a":[-3],"b":[4],"kpat":0,"kseed":1,"dmin":[0],"dlen":[5],"omin":[0],"olen":[5],"mode":1,"pat":0,"seed":10})"));
  v.push_back(J(R"({"kind":2,"d":1,"lgP":[3],"Kmin":[-4],"kfull":true,"a":[0],"b":[0],"kpat":0,"kseed":2,"dmin":[-2],"dlen":[4],"omin":[-2],"olen":[4],"mode":0,"pat":2,"seed":11})"));
  v.push_back(J(R"({"kind":2,"d":2,"lgP":[3,2],"Kmin":[-4,0],"kfull":false,"a":[-1,0],"b":[1,1],"kpat":1,"kseed":3,"dmin":[5,-1],"dlen":[3,2],"omin":[4,-2],"olen":[6,4],"mode":0,"pat":0,"seed":12})"));
  v.push_back(J(R"({"kind":2,"d":3,"lgP":[1,2,3],"Kmin":[0,-2,-4],"kfull":true,"a":[0,0,0],"b":[0,0,0],"kpat":0,"kseed":4,"dmin":[0,0,0],"dlen":[1,2,4],"omin":[0,0,0],"olen":[1,2,4],"mode":1,"pat":0,"seed":13})"));
  // 2-D / 3-D convolution with asymmetric kernel ranges and outputs larger than the input
  v.push_back(J(R"({"kind":3,"d":2,"kmin":[1,-2],"klen":[2,3],"kpat":0,"kseed":1,"dmin":[0,3],"dlen":[4,5],"omin":[-2,0],"olen":[9,10],"mode":0,"pat":0,"seed":14})"));
  v.push_back(J(R"({"kind":3,"d":3,"kmin":[-1,0,1],"klen":[3,1,2],"kpat":1,"kseed":2,"dmin":[0,-1,2],"dlen":[3,3,3],"omin":[0,-1,2],"olen":[3,3,3],"mode":1,"pat":1,"seed":15})"));
  v.push_back(J(R"({"kind":3,"d":2,"kmin":[0,0],"klen":[1,1],"kpat":3,"kseed":3,"dmin":[0,0],"dlen":[3,3],"omin":[-1,-1],"olen":[5,5],"mode":0,"pat":0,"seed":16})"));
  // Gaussian: clipped by an odd max kernel size; auto length; FWHM 0 in one direction
  v.push_back(J(R"({"kind":5,"dmin":[0,0,0],"dlen":[12,12,12],"mode":1,"seed":17,"fwhm":[3.0,2.0,0.0],"vox":[1.0,1.0,1.0],"maxk":[5,-1,-1],"margin":[3,5,0],"normalise":true,"via_image":false,"pat":5})"));
  v.push_back(J(R"({"kind":5,"dmin":[-3,2,0],"dlen":[9,8,10],"mode":0,"seed":18,"fwhm":[4.0,5.0,2.5],"vox":[2.0,2.5,1.0],"maxk":[-1,3,7],"margin":[2,1,3],"normalise":false,"via_image":true,"pat":5})"));
  // Metz: power 0 (Gaussian) and power 2
  v.push_back(J(R"({"kind":6,"dmin":[0,0,0],"dlen":[14,14,6],"mode":1,"seed":19,"fwhm":[2.0,3.0,0.0],"vox":[1.0,1.0,1.0],"power":[0.0,0.0,0.0],"maxk":[-1,-1,-1],"margin":[6,6,0],"pat":5})"));
  v.push_back(J(R"({"kind":6,"dmin":[0,-2,1],"dlen":[8,8,8],"mode":0,"seed":20,"fwhm":[4.0,3.0,5.0],"vox":[2.0,1.0,2.5],"power":[2.0,1.0,0.0],"maxk":[-1,9,-1],"margin":[1,1,1],"pat":0})"));
  return v;
}

bool
nontrivial(const json& c)
{
  // DESIGN: >= 2 dimensions, or kernel with asymmetric range, or output range != input range
  const int kind = c.at("kind").get<int>();
  if (kind == 0 || kind == 2)
    {
      if (c.at("d").get<int>() >= 2)
        return true;
      if (kind == 0)
        return false;
      if (c.at("a")[0].get<int>() != -c.at("b")[0].get<int>())
        return true;
      return c.at("mode").get<int>() == 0 && (c.at("omin") != c.at("dmin") || c.at("olen") != c.at("dlen"));
    }
  if (kind == 1)
    {
      const int kmin = c.at("kmin").get<int>(), klen = c.at("klen").get<int>();
      if (klen > 0 && kmin != -(kmin + klen - 1))
        return true;
      return c.at("mode").get<int>() == 0 && (c.at("omin") != c.at("dmin") || c.at("olen") != c.at("dlen"));
    }
  return true;
}

} // namespace

const Property&
the_property()
{
  static Property p;
  p.id = "C19";
  p.gen = gen;
  p.check = check;
  p.nontrivial = nontrivial;
  p.enumerate = enumerate;
  p.fixed_cases = fixed_cases;
  p.rule = "";
  return p;
}
